"""C09 - parsing never modifies evidence (read-only operation).

Spec: spec/Effects.tla - the trace specification has an action only for allowed effects (read-only OS opens, read-side
handle methods, read-only / private-buffer call sites, unchanged evidence directory, and the CLI's single writer);
any other event has no action, so a trace containing it is rejected at that event.
B (primary): event streams from three recorders are validated by TLC:
  1. sys.addaudithook during path-based workloads (VHDX chains, VMDK descriptors with RW/RDONLY extent lines and a parent,
     Parallels HDD directories, vmtar by path, the envelope CLI) with a content hash of the evidence directory before/after;
  2. method logs of caller-supplied handles (handles that claim to be writable, dirty Hyper-V replay log included) for
     every handle-based parser;
  3. an AST inventory of every call site in dissect/hypervisor/**.py that can open a file or invoke a mutating method."""
from __future__ import annotations

import ast
import hashlib
import io
import os
import random
import shutil
import struct
import sys
import tempfile
from pathlib import Path

from harness import core, disk, diskprop, enc_envelope, enc_hds, enc_hyperv, enc_qcow2, enc_vdi, enc_vhd, enc_vhdx, enc_vmdk, enc_vmtar, tlc, tracecheck
from harness.vfile import VirtualFile

LEVEL = "other"

# ------------------------------------------------------------------------------------------------ recorder 1: audit hook
_AUD = {"on": False, "root": None, "out": None, "events": []}
_HOOKED = False
FLAGNAMES = [(os.O_WRONLY, "O_WRONLY"), (os.O_RDWR, "O_RDWR"), (os.O_CREAT, "O_CREAT"), (os.O_TRUNC, "O_TRUNC"), (os.O_APPEND, "O_APPEND"), (os.O_EXCL, "O_EXCL")]
MUTATORS = ("os.rename", "os.remove", "os.unlink", "os.rmdir", "os.mkdir", "os.truncate", "os.chmod", "os.chown", "os.utime", "os.link", "os.symlink",
            "shutil.rmtree", "shutil.move", "shutil.copyfile", "shutil.copytree", "tempfile.mkstemp", "tempfile.mkdtemp", "os.replace")


def _audit(event, args):
    if not _AUD["on"]:
        return
    if event == "open":
        p = str(args[0])
        fl = args[2] if len(args) > 2 and isinstance(args[2], int) else 0
        names = [n for bit, n in FLAGNAMES if fl & bit] or ["O_RDONLY"]
        if _AUD["root"] and p.startswith(_AUD["root"]):
            _AUD["events"].append({"kind": "open", "path": "OUT" if p == _AUD["out"] else os.path.relpath(p, _AUD["root"]), "flags": names, "phase": _AUD["phase"]})
        elif names != ["O_RDONLY"] and not p.startswith(("/dev/", "/proc/")):
            # a file opened for writing anywhere else (temporary copies of evidence included)
            _AUD["events"].append({"kind": "open", "path": "ELSEWHERE:" + p[:80], "flags": names, "phase": _AUD["phase"]})
    elif event in MUTATORS or event.startswith("os.") and event.split(".")[1] in ("rename", "remove", "unlink", "rmdir", "mkdir", "truncate", "replace", "utime", "chmod"):
        p = str(args[0]) if args else ""
        if _AUD["root"] and (p.startswith(_AUD["root"]) or event.startswith("tempfile")):
            _AUD["events"].append({"kind": "os-mutation", "what": event, "path": os.path.relpath(p, _AUD["root"]) if p.startswith(_AUD["root"]) else p, "phase": _AUD["phase"]})


def audit_on(root, phase="lib", out=None):
    global _HOOKED
    if not _HOOKED:
        sys.addaudithook(_audit)
        _HOOKED = True
    _AUD.update({"on": True, "root": root, "out": out, "events": [], "phase": phase})


def harness_open(*a, **kw):
    """open() by the harness itself while the hook is armed (not an effect of the code under test)"""
    was = _AUD["on"]
    _AUD["on"] = False
    try:
        return open(*a, **kw)
    finally:
        _AUD["on"] = was


def audit_off():
    _AUD["on"] = False
    return _AUD["events"]


def tree_hash(root):
    out = {}
    for dp, dn, fn in os.walk(root):
        for f in fn:
            p = os.path.join(dp, f)
            st = os.stat(p)
            h = hashlib.sha1()
            with open(p, "rb") as fh:
                while True:
                    b = fh.read(1 << 20)
                    if not b:
                        break
                    h.update(b)
            out[os.path.relpath(p, root)] = (st.st_size, st.st_mtime_ns, st.st_mode, h.hexdigest())
        for d in dn:
            out[os.path.relpath(os.path.join(dp, d), root) + "/"] = ("dir",)
    return out


def fs_event(before, after, phase, out_rel=None):
    changed = sorted({k for k in set(before) | set(after) if before.get(k) != after.get(k)})
    return {"kind": "fs", "changed": ["OUT" if c == out_rel else c for c in changed], "phase": phase}


# ------------------------------------------------------------------------------------------------ path-based workloads
def wl_vhdx(root, rng):
    from dissect.hypervisor.disk.vhdx import VHDX
    pv, _ = enc_vhdx.build([(enc_vhdx.ST_FULL, 0)], block_size=1 << 20, sector_size=512, disk_size=1 << 20, file_id=1)
    pv.materialise(os.path.join(root, "base.vhdx"))
    bits = bytearray(1 << 10)
    bits[0] = 0x0F
    loc = {"parent_linkage": "{1}", "relative_path": ".\\base.vhdx", "absolute_win32_path": "C:\\x\\base.vhdx"}
    cv, _ = enc_vhdx.build([(enc_vhdx.ST_PARTIAL, 0)], block_size=1 << 20, sector_size=512, disk_size=1 << 20, has_parent=True, locator=loc, bitmaps={0: bytes(bits)})
    cv.materialise(os.path.join(root, "child.avhdx"))
    return lambda: VHDX(Path(root) / "child.avhdx").read(65536)


def wl_vmdk(root, rng):
    from dissect.hypervisor.disk.vmdk import VMDK
    for i, (name, pcid, hint) in enumerate((("base", "ffffffff", None), ("delta", "12345678", "base.vmdk"))):
        lines = []
        for k, (mode, typ) in enumerate((("RW", "SPARSE"), ("RDONLY", "SPARSE"), ("RW", "FLAT"), ("RW", "VMFSSPARSE"), ("RW", "SESPARSE"))):
            fn = f"{name}-e{k}.vmdk"
            ents = [("D", 1), ("U", 0)]
            if typ == "SPARSE":
                vf, _ = enc_vmdk.build_hosted(ents, [True], capacity=16, grain=8, gtes=4, file_id=i, max_pos=3)
            elif typ == "VMFSSPARSE":
                vf, _ = enc_vmdk.build_cowd(ents, [True], capacity=16, grain=8, file_id=i, max_pos=3)
            elif typ == "SESPARSE":
                vf, _ = enc_vmdk.build_sesparse(ents, [True], capacity=16, grain=8, gt_sectors=1, file_id=i, max_pos=3)
            else:
                vf = VirtualFile(16 * 512, [(0, 16 * 512, "pat", i)])
            vf.materialise(os.path.join(root, fn))
            lines.append(f'{mode} 16 {typ} "{fn}"' + (" 0" if typ == "FLAT" else ""))
        with open(os.path.join(root, name + ".vmdk"), "w") as f:
            f.write(enc_vmdk.descriptor_text(lines, parent_cid=pcid, parent_hint=hint))
    return lambda: VMDK(Path(root) / "delta.vmdk").read(5 * 16 * 512)


def wl_hdd(root, rng):
    from dissect.hypervisor.disk.hdd import HDD
    d = os.path.join(root, "disk.hdd")
    g0, g1 = enc_hds.DEFAULT_TOP, "{aaaaaaaa-1111-2222-3333-444444444444}"
    f0, _ = enc_hds.build({"ver": 2, "n": 2, "cb": 1, "bat": {0: 1, 1: 0}, "size": 2}, cluster_size=4096, file_id=0, P=2)
    f1, _ = enc_hds.build({"ver": 2, "n": 2, "cb": 1, "bat": {0: 0, 1: 1}, "size": 2}, cluster_size=4096, file_id=1, P=2)
    pl = VirtualFile(8192, [(0, 8192, "pat", 2)])
    enc_hds.write_hdd_dir(d, [(0, 16, [(g0, "Compressed", "t.hds"), (g1, "Compressed", "b.hds")]), (16, 32, [(g0, "Plain", "p.hdd"), (g1, "Plain", "p.hdd")])],
                          [(g0, g1), (g1, enc_hds.NULL_GUID)], {"t.hds": f0, "b.hds": f1, "p.hdd": pl}, top_guid=g0)
    return lambda: HDD(Path(d)).open().read(16384)


def wl_vmtar(root, rng):
    import gzip
    from dissect.hypervisor.util import vmtar
    members = [{"name": "a", "visor": True, "dir": False, "size": 700, "inline": False, "slot": 1, "data": b"a" * 700, "prefix": ""}]
    blob, _ = enc_vmtar.build(members)
    open(os.path.join(root, "x.vtar"), "wb").write(blob)
    open(os.path.join(root, "x.vgz"), "wb").write(gzip.compress(blob))

    # a gzip-wrapped archive that inflates to more than 16 MiB (then 64 MiB, thorough), opened by path and through a handle
    big = [{"name": "big", "visor": True, "dir": False, "size": 18 << 20, "inline": False, "slot": 1, "data": bytes(18 << 20), "prefix": ""},
           {"name": "small", "visor": True, "dir": False, "size": 700, "inline": False, "slot": 2, "data": b"s" * 700, "prefix": ""}]
    bblob, _ = enc_vmtar.build(big)
    open(os.path.join(root, "big.vgz"), "wb").write(gzip.compress(bblob, 1))

    def go():
        for fn in ("x.vtar", "x.vgz", "big.vgz"):
            t = vmtar.open(os.path.join(root, fn))
            for m in t.getmembers():
                t.extractfile(m).read(4096)
            t.close()
            with open(os.path.join(root, fn), "rb") as fh:
                t = vmtar.open(fileobj=fh)
                for m in t.getmembers():
                    t.extractfile(m).read(4096)
                t.close()
    return go


def wl_cli(root, rng, fail=False, out="out.bin"):
    """out: the -o argument relative to the evidence directory ("." = the directory itself, "sub" = an existing sub-directory)."""
    from dissect.hypervisor.tools import envelope as tool
    import uuid
    d1, d2 = b"1" * 16, b"2" * 16
    key = enc_envelope.derive_key(d1, d2)
    attrs = enc_envelope.std_attrs(key, bytes(12), "id")
    blob, info = enc_envelope.seal(b"payload" * 500, key, bytes(12), attrs)
    if fail:
        b = bytearray(blob)
        b[-4096 + 40] ^= 1
        blob = bytes(b)
    open(os.path.join(root, "e.ve"), "wb").write(blob)
    open(os.path.join(root, "e.info"), "w").write(enc_envelope.keystore_text(uuid.UUID(int=7), d1, d2))
    # an innocent neighbour that a careless writer could clobber
    open(os.path.join(root, "out.tmp"), "w").write("neighbour")
    os.mkdir(os.path.join(root, "sub"))
    open(os.path.join(root, "sub", "e.ve"), "w").write("another neighbour")
    # evidence is usually kept read-only: whatever the tool does to its output's permissions must not reach its inputs
    os.chmod(os.path.join(root, "e.ve"), 0o400)
    os.chmod(os.path.join(root, "e.info"), 0o440)

    def go():
        argv = sys.argv
        sys.argv = ["envelope-decrypt", os.path.join(root, "e.ve"), "-ks", os.path.join(root, "e.info"), "-o", os.path.normpath(os.path.join(root, out))]
        try:
            tool.main()
        except BaseException:  # noqa: BLE001
            pass
        finally:
            sys.argv = argv
    return go


# error paths: incomplete evidence (the library may refuse, but must not "repair" anything)
def wl_hdd_backup_only(root, rng):
    from dissect.hypervisor.disk.hdd import HDD
    go = wl_hdd(root, rng)
    d = os.path.join(root, "disk.hdd")
    os.rename(os.path.join(d, "DiskDescriptor.xml"), os.path.join(d, "DiskDescriptor.xml.Backup"))
    shutil.copy(os.path.join(d, "DiskDescriptor.xml.Backup"), os.path.join(d, "DiskDescriptor.xml.bak"))
    open(os.path.join(d, "DiskDescriptor.xml.lck"), "w").write("lock")
    return lambda: HDD(Path(d)).open().read(16384)


def _leave_siblings(path):
    """What is left of a file that was moved away: a compressed copy, a backup copy, an editor's copy next to where it was."""
    import gzip
    data = open(path, "rb").read()
    with open(path + ".gz", "wb") as f:
        f.write(gzip.compress(data))
    for suffix in (".bak", "~", ".orig"):
        with open(path + suffix, "wb") as f:
            f.write(data)
    os.remove(path)


def wl_vmdk_missing_extent(root, rng):
    from dissect.hypervisor.disk.vmdk import VMDK
    go = wl_vmdk(root, rng)
    _leave_siblings(os.path.join(root, "delta-e2.vmdk"))
    _leave_siblings(os.path.join(root, "base-e0.vmdk"))
    return go


def wl_vmdk_missing_parent(root, rng):
    go = wl_vmdk(root, rng)
    _leave_siblings(os.path.join(root, "base.vmdk"))
    return go


def wl_vhdx_missing_parent(root, rng):
    go = wl_vhdx(root, rng)
    shutil.copy(os.path.join(root, "base.vhdx"), os.path.join(root, "base.vhdx.moved"))
    _leave_siblings(os.path.join(root, "base.vhdx"))
    return go


def wl_vmdk_tempfile_descriptor(root, rng):
    """The descriptor is staged in a NamedTemporaryFile next to its extents and passed as a handle."""
    from dissect.hypervisor.disk.vmdk import VMDK
    wl_vmdk(root, rng)
    tf = tempfile.NamedTemporaryFile(dir=root, prefix="staged-", suffix=".vmdk")  # noqa: SIM115
    tf.write(open(os.path.join(root, "base.vmdk"), "rb").read())
    tf.flush()
    tf.seek(0)

    def go(tf=tf):
        VMDK(tf).read(5 * 16 * 512)   # tf stays referenced by this closure until the directory has been hashed again
    return go


# ------------------------------------------------------------------------------------------------ recorder 2: caller-supplied handles
class Handle(io.RawIOBase):
    """A caller-supplied handle that claims to be writable and records every method used on it."""

    def __init__(self, data, claim_writable=True):
        super().__init__()
        self._b = io.BytesIO(data)
        self.calls = []
        self._w = claim_writable

    def _n(self, m):
        if not self.calls or self.calls[-1] != m:
            self.calls.append(m)

    def read(self, n=-1):
        self._n("read")
        return self._b.read(n)

    def readinto(self, b):
        self._n("readinto")
        return self._b.readinto(b)

    def seek(self, o, w=0):
        self._n("seek")
        return self._b.seek(o, w)

    def tell(self):
        self._n("tell")
        return self._b.tell()

    def readable(self):
        self._n("readable")
        return True

    def seekable(self):
        self._n("seekable")
        return True

    def writable(self):
        self._n("writable")
        return self._w

    def write(self, b):
        self._n("write")
        return len(b)

    def writelines(self, l):
        self._n("writelines")

    def truncate(self, n=None):
        self._n("truncate")
        return 0

    def flush(self):
        self._n("flush")

    def close(self):
        self._n("close")


def handle_workloads(rng):
    """-> [(name, callable(handle)), blob]"""
    out = []
    l2 = {0: {"t": "N", "h": 1, "sub": []}, 1: {"t": "C", "h": 0, "sub": []}}
    vf, _, _ = enc_qcow2.build({"ext": False, "datafile": False, "l2n": 64, "s": 1, "l1": {0: True}, "l2": l2, "back": -1, "size": 2}, cluster_bits=9, K=1)

    def q(h):
        from dissect.hypervisor.disk.qcow2 import QCow2
        QCow2(h).read(1024)
    out.append(("qcow2", q, vf.peek_bytes(0, vf.size())))
    for v in ("hosted", "stream", "cowd", "se"):
        ents = [("D", 1), ("U", 0)]
        if v == "hosted":
            f, _ = enc_vmdk.build_hosted(ents, [True], capacity=16, grain=8, gtes=4, max_pos=3)
        elif v == "stream":
            f, _ = enc_vmdk.build_hosted(ents, [True], capacity=16, grain=8, gtes=4, footer=True, compressed=True, max_pos=3)
        elif v == "cowd":
            f, _ = enc_vmdk.build_cowd(ents, [True], capacity=16, grain=8, max_pos=3)
        else:
            f, _ = enc_vmdk.build_sesparse(ents, [True], capacity=16, grain=8, gt_sectors=1, max_pos=3)

        def vm(h):
            from dissect.hypervisor.disk.vmdk import VMDK
            VMDK(h).read(8192)
        out.append(("vmdk-" + v, vm, f.peek_bytes(0, f.size())))
    f, _ = enc_vhdx.build([(enc_vhdx.ST_FULL, 0)], block_size=1 << 20, sector_size=512, disk_size=1 << 20)

    def vx(h):
        from dissect.hypervisor.disk.vhdx import VHDX
        VHDX(h).read(8192)
    out.append(("vhdx", vx, f.peek_bytes(0, f.size())))
    for kind in ("fixed", "dynamic"):
        f, _ = enc_vhd.build({"kind": kind, "n": 2, "cb": 1, "bat": {0: 0, 1: -1}, "size": 2, "foot511": False}, block_size=4096, P=1)

        def vh(h):
            from dissect.hypervisor.disk.vhd import VHD
            VHD(h).read(8192)
        out.append(("vhd-" + kind, vh, f.peek_bytes(0, f.size())))
    f, *_ = enc_vdi.build({"n": 2, "cb": 1, "map": {0: 0, 1: -1}, "size": 2, "parent": False}, block_size=4096, P=1)

    def vd(h):
        from dissect.hypervisor.disk.vdi import VDI
        VDI(h).read(8192)
    out.append(("vdi", vd, f.peek_bytes(0, f.size())))
    f, _ = enc_hds.build({"ver": 2, "n": 2, "cb": 1, "bat": {0: 3, 1: 0}, "size": 2}, cluster_size=4096, P=4, first_cluster=3)   # data area behind reserved clusters

    def hs(h):
        from dissect.hypervisor.disk.hdd import HDS
        HDS(h).read(8192)
    out.append(("hds", hs, f.peek_bytes(0, f.size())))
    # Hyper-V with a dirty replay log (outstanding entries)
    nodes = [{"id": 1, "parent": 0, "tbl": 1, "key": "root", "type": enc_hyperv.T_NODE, "value": 1},
             {"id": 2, "parent": 1, "tbl": 1, "key": "k", "type": enc_hyperv.T_INT, "value": 5}]
    tables, fobjs, _ = enc_hyperv.plan_tables(nodes)
    b = bytearray(enc_hyperv.build(tables, fobjs))
    rl = enc_hyperv.replay_log(num_entries=2)
    b[0x3000:0x3000 + len(rl)] = rl
    ent = struct.pack("<QIIIII", tables[0]["offset"] + 64, 16, 0, 0, 0, 0)
    b[0x3000 + len(rl):0x3000 + len(rl) + 2 * len(ent)] = ent * 2

    def hv(h):
        from dissect.hypervisor.descriptor.hyperv import HyperVFile
        x = HyperVFile(h)
        x.as_dict()
        for rl in x.replay_logs:
            for m in ("replay", "apply", "commit"):
                if hasattr(rl, m):
                    getattr(rl, m)()
    out.append(("hyperv-dirty-log", hv, bytes(b)))
    key = bytes(range(32))
    blob, _ = enc_envelope.seal(b"p" * 5000, key, bytes(12), enc_envelope.std_attrs(key, bytes(12), "id"))

    def ev(h):
        from dissect.hypervisor.util.envelope import Envelope
        Envelope(h).decrypt(key)
    out.append(("envelope", ev, blob))
    members = [{"name": "a", "visor": True, "dir": False, "size": 700, "inline": False, "slot": 1, "data": b"a" * 700, "prefix": ""}]
    tb, _ = enc_vmtar.build(members)

    def vt(h):
        from dissect.hypervisor.util import vmtar
        t = vmtar.open(fileobj=h)
        try:
            for m in t.getmembers():
                t.extractfile(m).read()
        finally:
            t.close()
    out.append(("vmtar", vt, tb))
    import gzip
    tgz = gzip.compress(tb)

    def vtc(h):
        from dissect.hypervisor.util import vmtar
        for opener in (lambda: vmtar.open(fileobj=h), lambda: vmtar.VisorTarFile(fileobj=h)):
            h.seek(0)
            try:
                t = opener()
            except Exception:  # noqa: BLE001   (the plain class does not inflate: a refusal is fine, a write is not)
                continue
            try:
                for m in t.getmembers():
                    t.extractfile(m).read()
            finally:
                t.close()
    out.append(("vmtar-gzip-both-entry-points", vtc, tgz))
    out.append(("vmtar-both-entry-points", vtc, tb))
    return out


def damaged_handles(ctx, rng):
    from harness import diskcheck
    out = []
    pats = [b"\x01\x00\x00\x00" * 4, b"\x00\x00\x00\x01" * 4, b"\xff" * 16, b"\x02\x00\x00\x00\x00\x00\x00\x00" * 2]
    extra = []
    # entries that point into the image's own header area (in front of the first data block)
    f, _ = enc_hds.build({"ver": 1, "n": 3, "cb": 8, "bat": {0: 1, 1: 9, 2: 0}, "size": 24}, cluster_size=4096, P=4)
    extra.append(("hds", f.peek_bytes(0, f.size())))
    f, _ = enc_hds.build({"ver": 2, "n": 3, "cb": 1, "bat": {0: 3, 1: 4, 2: 0}, "size": 3}, cluster_size=4096, P=5, first_cluster=3)
    for bad in (1, 2):
        b = bytearray(f.peek_bytes(0, f.size()))
        b[68:72] = struct.pack("<I", bad)      # an entry that points into the reserved area in front of the first data block
        extra.append(("hds", bytes(b)))
    wl = handle_workloads(rng)
    byname = {n: fn for n, fn, _ in wl}
    cases = [(n, fn, blob, None) for n, fn, blob in wl if not n.startswith("envelope")] + [(n, byname[n], blob, "as-is") for n, blob in extra]
    root = tempfile.mkdtemp(prefix="verif-c09d-")
    try:
        for name, fn, blob, how in cases:
            variants = [blob] if how == "as-is" else []
            if how is None:
                for off in range(0, min(len(blob) - 16, 8192), 512):
                    p = rng.choice(pats)
                    o = off + rng.choice([0, 8, 64, 128])
                    variants.append(blob[:o] + p + blob[o + len(p):])
                variants.append(blob[:len(blob) * 3 // 5])
                variants.append(b"")                # an empty file
                variants.append(blob[:512])
            changed, evs_all = False, []
            for k, data in enumerate(variants):
                pth = os.path.join(root, f"evidence-{k}.bin")
                with open(pth, "wb") as fh_:
                    fh_.write(data)
                before = tree_hash(root)
                audit_on(root, phase="lib")
                try:
                    with harness_open(pth, "r+b") as fh:
                        try:
                            diskcheck.with_watchdog(lambda: fn(fh), 20)
                        except diskcheck.Hang:
                            pass      # (termination on damaged input is property C11's business)
                        except Exception:  # noqa: BLE001
                            pass
                finally:
                    evs = audit_off()[:20]
                after = tree_hash(root)
                evs_all += evs
                fe = fs_event(before, after, "lib")
                if fe["changed"]:
                    evs_all.append(fe)
                os.unlink(pth)
            evs_all.append({"kind": "fs", "changed": [], "phase": "lib"})
            out.append({"source": "updatable-file-damaged", "workload": name, "events": evs_all[:60]})
    finally:
        shutil.rmtree(root, ignore_errors=True)
    return out


# ------------------------------------------------------------------------------------------------ recorder 3: call-site inventory
MUT_METHODS = {"write", "writelines", "truncate", "unlink", "rename", "rmdir", "mkdir", "touch", "chmod", "write_text", "write_bytes", "remove",
               "symlink_to", "hardlink_to", "makedirs", "removedirs", "renames", "utime", "chown", "lchmod", "link_to"}
SHUTIL_MUT = {"rmtree", "move", "copyfile", "copy", "copy2", "copytree", "chown"}


def call_sites(pkg_root):
    events = []
    for dp, dn, fn in os.walk(os.path.join(pkg_root, "dissect", "hypervisor")):
        for f in sorted(fn):
            if not f.endswith(".py"):
                continue
            p = os.path.join(dp, f)
            rel = os.path.relpath(p, pkg_root)
            tree = ast.parse(open(p).read())
            parents = {}
            for node in ast.walk(tree):
                for ch in ast.iter_child_nodes(node):
                    parents[ch] = node

            def func_of(n):
                while n in parents:
                    n = parents[n]
                    if isinstance(n, (ast.FunctionDef, ast.AsyncFunctionDef)):
                        return n.name
                return "<module>"

            for node in ast.walk(tree):
                if not isinstance(node, ast.Call):
                    continue
                fnode = node.func
                name = fnode.id if isinstance(fnode, ast.Name) else fnode.attr if isinstance(fnode, ast.Attribute) else None
                if name is None:
                    continue
                recv = ""
                if isinstance(fnode, ast.Attribute):
                    try:
                        recv = ast.unparse(fnode.value)
                    except Exception:  # noqa: BLE001
                        recv = "?"
                if name == "open":
                    mode = ""
                    args = list(node.args)
                    cand = None
                    if isinstance(fnode, ast.Name) and len(args) >= 2:
                        cand = args[1]
                    elif isinstance(fnode, ast.Attribute) and len(args) >= 1 and recv not in ("tarfile", "vmtar", "gzip", "io"):
                        cand = args[0]
                    elif isinstance(fnode, ast.Attribute) and len(args) >= 2:
                        cand = args[1]
                    for kw in node.keywords:
                        if kw.arg == "mode":
                            cand = kw.value
                    if cand is not None:
                        mode = cand.value if isinstance(cand, ast.Constant) and isinstance(cand.value, str) else "<dynamic>"
                    events.append({"kind": "site", "what": "open", "mode": mode, "file": rel, "func": func_of(node), "line": node.lineno, "recv": recv[:40]})
                elif name in MUT_METHODS or (recv == "shutil" and name in SHUTIL_MUT) or (name == "replace" and len(node.args) == 1 and not node.keywords) or \
                        (recv in ("os", "shutil") and name in ("replace", "rename", "remove", "unlink", "truncate", "mkdir", "rmdir", "rmtree", "move", "open", "chmod")):
                    events.append({"kind": "site", "what": "write", "mode": name, "file": rel, "func": func_of(node), "line": node.lineno, "recv": recv[:40]})
    return events


# ------------------------------------------------------------------------------------------------ the check
def run(ctx):
    thorough = ctx.tier == "thorough"
    rng = random.Random(ctx.seed + 9)
    ctx.rule = ("events from (1) the audit hook during path-based workloads (VHDX chain, VMDK descriptor with RW/RDONLY lines of every extent type "
                "and a parent, Parallels HDD with snapshots and plain images, vmtar by path, the envelope CLI succeeding and failing) with "
                "evidence-directory hashes before/after, (2) method logs of writable-claiming caller handles for every handle-based parser incl. "
                "a Hyper-V file with a dirty replay log, (3) the AST inventory of open / mutating call sites of the package; all validated by "
                "Effects!TraceSpec. Non-trivial = every event that is an open, a handle method or a call site; distinct by event content.")
    ctx.assumptions = ["TLA+ does not analyse code: the AST pass is an event source, the specification only judges events",
                       "code paths no workload reaches are covered by the call-site inventory only"]
    core.use_repo()
    traces = []
    tid = 0
    # 1. path-based workloads under the audit hook
    for name, mk, phase in (("vhdx", wl_vhdx, "lib"), ("vmdk", wl_vmdk, "lib"), ("hdd", wl_hdd, "lib"), ("vmtar", wl_vmtar, "lib"),
                            ("cli-ok", lambda r, g: wl_cli(r, g, False), "cli"), ("cli-fail", lambda r, g: wl_cli(r, g, True), "cli"),
                            ("cli-out-is-evidence-dir", lambda r, g: wl_cli(r, g, False, "."), "cli-dir"),
                            ("cli-out-is-subdir", lambda r, g: wl_cli(r, g, False, "sub"), "cli-sub"),
                            ("cli-out-in-new-dir", lambda r, g: wl_cli(r, g, False, "nonexistent/out.bin"), "cli-new"),
                            ("hdd-backup-descriptor-only", wl_hdd_backup_only, "lib-mayraise"), ("vmdk-missing-extent", wl_vmdk_missing_extent, "lib-mayraise"),
                            ("vhdx-missing-parent", wl_vhdx_missing_parent, "lib-mayraise"), ("vmdk-missing-parent", wl_vmdk_missing_parent, "lib-mayraise"), ("vmdk-tempfile-descriptor", wl_vmdk_tempfile_descriptor, "lib")):
        root = tempfile.mkdtemp(prefix="verif-c09-")
        out_rel = {"cli": "out.bin", "cli-dir": ".", "cli-sub": "sub", "cli-new": "nonexistent/out.bin"}.get(phase)
        may_raise = phase.endswith("-mayraise")
        phase = "cli" if phase.startswith("cli") else "lib"
        try:
            go = mk(root, rng)
            before = tree_hash(root)
            audit_on(root, phase=phase, out=os.path.normpath(os.path.join(root, out_rel)) if phase == "cli" else None)
            err = ""
            try:
                go()
            except Exception as e:  # noqa: BLE001
                err = repr(e)[:200]
            evs = audit_off()
            after = tree_hash(root)
            evs.append(fs_event(before, after, phase, out_rel if phase == "cli" else None))
            if err and not may_raise:
                ctx.violation({"source": "audit", "workload": name, "fail": "workload-raised"}, {"error": err})
            tid += 1
            traces.append({"tid": tid, "source": "audit", "workload": name, "events": evs})
            # mutations the audit hook saw are events without an action: keep them in the trace (TLC rejects them)
        finally:
            shutil.rmtree(root, ignore_errors=True)
    # 2. caller-supplied handles
    for name, fn, blob in handle_workloads(rng):
        h = Handle(blob)
        err = ""
        try:
            fn(h)
        except Exception as e:  # noqa: BLE001
            err = repr(e)[:200]
        tid += 1
        traces.append({"tid": tid, "source": "handle", "workload": name, "events": [{"kind": "handle", "method": m} for m in h.calls] or [{"kind": "handle", "method": "read"}]})
        if err:
            ctx.violation({"source": "handle", "workload": name, "fail": "workload-raised"}, {"error": err})
    # 2b. the same workloads on genuine handles: an in-memory buffer (content compared afterwards) and a file opened
    #     for update inside an evidence directory (directory hash + audit events)
    for name, fn, blob in handle_workloads(rng):
        bio = io.BytesIO(blob)
        err = ""
        try:
            fn(bio)
        except Exception as e:  # noqa: BLE001
            err = repr(e)[:200]
        same = (not bio.closed and bio.getvalue() == blob) or bio.closed
        tid += 1
        traces.append({"tid": tid, "source": "bytesio", "workload": name, "events": [{"kind": "buffer", "changed": not same}]})
        if err:
            ctx.violation({"source": "bytesio", "workload": name, "fail": "workload-raised"}, {"error": err})
        root = tempfile.mkdtemp(prefix="verif-c09-")
        try:
            pth = os.path.join(root, "evidence.bin")
            with open(pth, "wb") as f:
                f.write(blob)
            before = tree_hash(root)
            audit_on(root, phase="lib")
            err = ""
            try:
                # handles in every mode a caller may hold evidence in: update, append (reads allowed), and a spooled temporary
                # file that has been rolled over to disk (mode "w+b", integer .name)
                with harness_open(pth, "r+b") as fh:
                    fn(fh)
            except Exception as e:  # noqa: BLE001
                err = repr(e)[:200]
            spooled_changed = False
            try:
                with harness_open(pth, "a+b") as fh:
                    fh.seek(0)
                    fn(fh)
            except Exception:  # noqa: BLE001   (whether such a handle is accepted is not the point here; what happens to the bytes is)
                pass
            _AUD["on"] = False
            sp = tempfile.SpooledTemporaryFile(max_size=16, dir=root)
            try:
                sp.write(blob)    # rolls over to a real (anonymous) file
                _AUD["on"] = True
                sp.seek(0)
                try:
                    fn(sp)
                except Exception:  # noqa: BLE001
                    pass
                sp.seek(0)
                spooled_changed = sp.read() != blob
            finally:
                sp.close()
            evs = audit_off()[:50]
            evs.append(fs_event(before, tree_hash(root), "lib"))
            evs.append({"kind": "buffer", "changed": spooled_changed})
            tid += 1
            traces.append({"tid": tid, "source": "updatable-file", "workload": name, "events": evs})
            if err:
                ctx.violation({"source": "updatable-file", "workload": name, "fail": "workload-raised"}, {"error": err})
        finally:
            shutil.rmtree(root, ignore_errors=True)
    # 2b'. damaged variants of the same images on handles opened for update: the reader may refuse them, get lost in them or
    #      "repair" what it holds in memory - the bytes it was handed must stay as they are
    dtraces = damaged_handles(ctx, rng)
    for t in dtraces:
        tid += 1
        t["tid"] = tid
        traces.append(t)
    # 2c. debug logging switched on through the environment before import (one subprocess, cwd = the evidence directory)
    import json
    import subprocess
    root = tempfile.mkdtemp(prefix="verif-c09-")
    try:
        env = dict(os.environ, PYTHONDONTWRITEBYTECODE="1", VERIF_SEED=str(ctx.seed),
                   **{f"DISSECT_LOG_{m}": "DEBUG" for m in ("VHDX", "VMDK", "QCOW2", "HDD", "VHD", "VDI", "HYPERV", "VMTAR", "ENVELOPE", "OVF", "VBOX", "PVS", "VMX")})
        p = subprocess.run([sys.executable, os.path.join(core.ROOT, "props", "c09_child.py"), root], env=env, capture_output=True, text=True, timeout=300, cwd=root)
        tid += 1
        try:
            res = json.loads(p.stdout.strip().splitlines()[-1])
            traces.append({"tid": tid, "source": "debug-logging", "workload": "all-path-and-handle-workloads", "events": [{"kind": "fs", "changed": res["changed"], "phase": "lib"}]})
            if res["errors"]:
                ctx.violation({"source": "debug-logging", "fail": "workload-raised"}, {"errors": res["errors"][:3]})
        except Exception:  # noqa: BLE001
            raise core.MachineryError("c09_child failed: " + (p.stdout + p.stderr)[-800:])
    finally:
        shutil.rmtree(root, ignore_errors=True)
    # 3. call sites
    sites = call_sites(core.repo_path())
    tid += 1
    traces.append({"tid": tid, "source": "ast", "workload": "call-sites", "events": sites})
    ctx.extra["call_sites"] = len(sites)
    for t in traces:
        for e in t["events"]:
            ctx.case(key=repr(sorted(e.items())), nontrivial=e["kind"] in ("open", "handle", "site"))
        if len(ctx.samples) < 5:
            ctx.samples.append({"source": t["source"], "workload": t["workload"], "events": t["events"][:5]})
    verdicts, res = tracecheck.validate("Effects", "TraceEffects.cfg", traces)
    ctx.add_tlc("TraceEffects.cfg", res)
    for t in traces:
        ctx.traces_validated += 1
        v = verdicts[t["tid"]]
        if v[0] == "reject":
            ev = t["events"][v[1] - 1]
            ctx.violation({"source": t["source"], "workload": t["workload"], "fail": "forbidden-effect", "event_kind": ev.get("kind"),
                           "what": ev.get("what") or ev.get("method") or "+".join(ev.get("flags", []))},
                          {"source": t["source"], "workload": t["workload"], "event": ev, "index": v[1]})


def replay(ctx, body):
    ctx.quiet = True
    run(ctx)
    return not ctx.violations
