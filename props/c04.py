"""C04 - VHD: every byte range reads as the guest-visible content.

Spec: spec/Vhd.tla (fixed + dynamic; GuestView from the VHD specification; ImplRead = transcription of read_sectors).
A: every TLC-enumerated image (kinds, BATs with permuted placements, sizes that are not block multiples, 511/512-byte
   footers) is encoded by harness/enc_vhd.py at several block sizes and replayed on the real VHD class.
B: random real-geometry images + random op sequences (incl. read_sectors); traces validated by TraceDisk."""
from __future__ import annotations

import random

from harness import core, disk, diskcheck, diskprop, enc_vhd, record, tlc, tracecheck

LEVEL = "model_checking"

PROFILES_QUICK = [
    {"block_size": 4096, "full": True},
    {"block_size": 2 << 20, "full": False},
    {"block_size": 2048, "full": True, "sel": 2},  # 4 sectors per block: bitmap still one sector
    {"block_size": 4096, "full": True, "sel": 3, "bitmap_fill": 0x00},   # sector bitmaps left clear by the writer
    {"block_size": 4 << 20, "full": False, "sel": 3, "table_offset": 2048},  # 8192 sectors per block: 2 bitmap sectors
    {"block_size": 4096, "full": False, "sel": 3, "data_gap": 0xC0000000 * 512},   # table entries (sector numbers) with the top bit set
    {"block_size": 2 << 20, "full": False, "sel": 4, "data_gap": 0xFFF00000 * 512, "when": lambda img: img["kind"] == "dynamic"},
    # the table behind the blocks it describes; the dynamic header and table beyond 4 GiB with the blocks in front of them
    {"block_size": 4096, "full": True, "sel": 2, "layout": "bat-last", "when": lambda img: img["kind"] == "dynamic"},
    {"block_size": 2 << 20, "full": False, "sel": 3, "layout": "hdr-far", "table_offset": 1536 + 4096, "when": lambda img: img["kind"] == "dynamic"},
    {"block_size": 4096, "full": False, "sel": 3, "layout": "hdr-far", "when": lambda img: img["kind"] == "dynamic"},
]
PROFILES_THOROUGH = PROFILES_QUICK + [
    {"block_size": 512 << 10, "full": False},
    {"block_size": 16 << 20, "full": False, "sel": 6},  # 8 bitmap sectors
    {"block_size": 65536, "full": True, "table_offset": 4096, "data_gap": 8192},
    {"block_size": 1024, "full": True, "sel": 2},
]


def _open(vf):
    from dissect.hypervisor.disk.vhd import VHD

    vf.seek(0)
    return VHD(vf)


def _sectors(s, sector, count):
    return s.disk.read_sectors(sector, count)


def build(img, prof, P=None, size_bytes=None):
    bs = prof["block_size"]
    if bs // img["cb"] < 512:
        return None
    to = prof.get("table_offset", 1536)
    ds = None
    if prof.get("data_gap"):
        ds = (to + 4 * img["n"] + 511) // 512 * 512 + prof["data_gap"]
    vf, info = enc_vhd.build(img, block_size=bs, table_offset=to, data_start=ds, P=(img["n"] + 1 if P is None else P),
                             size_bytes=size_bytes, original_size=prof.get("original_size"), footer_kw=prof.get("footer"), file_id=prof.get("fid", 0),
                             layout=prof.get("layout", "std"), bitmap_fill=prof.get("bitmap_fill", 0xFF))
    return disk.Built(open=lambda: _open(vf), cell=info["cell"], size=info["size"], bases={0: info["base"]}, files=[vf], fids={0: prof.get("fid", 0)},
                      note={k: v for k, v in prof.items() if k != "when"}, cb=info["cb"], stride=info["stride"])


def make_trace(tid, rng, nops=30, **opt):
    kind = "fixed" if rng.random() < 0.2 else "dynamic"
    bs = rng.choice([2 << 20, 2 << 20, 512 << 10, 4096, 4 << 20, 65536])
    n = rng.randrange(2, 24 if bs <= (2 << 20) else 8)
    if opt.get("many") == "mid":  # a BAT of several hundred entries
        kind, bs, n = "dynamic", rng.choice([4096, 65536]), rng.randrange(200, 700)
    elif opt.get("many"):  # more blocks than the 4096-entry BAT cache holds
        kind, bs, n = "dynamic", 4096, rng.randrange(4200, 4600)
    npos = n + rng.randrange(0, 3)
    pos = list(range(npos))
    rng.shuffle(pos)
    bat = [(-1 if rng.random() < 0.3 else pos.pop()) if kind == "dynamic" else -1 for _ in range(n)]
    runs = opt.get("many") == "runs"
    if runs:  # long runs of absent / present blocks of 1-2 MiB
        kind, bs, n = "dynamic", rng.choice([1 << 20, 2 << 20, 2 << 20]), rng.randrange(40, 64)
        plan = diskprop.run_plan(rng, n, ["U", "D", "Dr"])
        pp, npos = diskprop.run_positions(plan)
        bat = [-1 if k == "U" else pp[i] for i, k in enumerate(plan)]
    tail = rng.choice([0, 0, 512, bs // 2, bs - 512, 3 * 512])
    size_b = n * bs - tail
    img = {"kind": kind, "n": n, "cb": 1, "bat": {i: bat[i] for i in range(n)}, "size": n, "foot511": rng.random() < 0.25}
    prof = {"block_size": bs, "bitmap_fill": rng.choice([0xFF, 0xFF, 0x00, 0x0F, [0x00, 0xFF, 0xA5]]), "table_offset": rng.choice([1536, 2048, 4096]), "layout": rng.choice(["std", "std", "bat-last", "hdr-far"]), "original_size": rng.choice([None, size_b + bs, 0]),
            # footer fields that do not influence the mapping
            "fid": rng.randrange(0, 0x90),   # identity of this image
            "footer": {"features": rng.choice([2, 2, 3]), "uid": bytes(rng.randrange(256) for _ in range(16)), "timestamp": rng.getrandbits(32),
                       "geometry": rng.choice([0x03FF103F, 0, 0xFFFF10FF]), "creator_app": rng.choice([b"vpc ", b"win ", b"qemu", b"vbox"])}}
    b = build(img, prof, P=npos, size_bytes=size_b)
    s = b.open()
    fresh = b.open()
    rec = record.Recorder(s, size_b, probe=fresh.readoffset, align=opt.get("align"))
    if runs:
        diskprop.whole_disk_ops(rec, rng, size_b, bs, sectors_fn=s.disk.read_sectors)
        nops = 6
    record.random_ops(rec, rng, size_b, nops, unit=bs, big=(size_b + 4096) if runs else min(3 * bs + 4096, 6 << 20),
                      sectors_fn=s.disk.read_sectors, ssize=512)
    return {"tid": tid, "fmt": "vhd", "img": {"kind": kind, "n": n, "cb": 1, "bat": bat, "size": n, "foot511": img["foot511"]},
            "sizeB": size_b, "sector": 512, "geo": b.geo(), "events": rec.events}


def trace_for(tid, r, thorough):
    """The history behind trace `tid` (run and --replay build the same one)."""
    return make_trace(tid, r, 40 if thorough else 25, many=diskprop.many_of(tid))


def fixed_container_content(ctx, rng):
    """Fixed disks whose guest content starts with something that looks like VHD metadata (a footer copy + dynamic header, as
    a nested dynamic VHD has at offset 0) or other container signatures: served verbatim, size from the trailing footer."""
    from dissect.hypervisor.disk.vhd import VHD
    from harness import enc_vhd, patterns
    from harness.vfile import VirtualFile
    inner_vf, _ = enc_vhd.build({"kind": "dynamic", "n": 3, "cb": 1, "bat": {0: 1, 1: -1, 2: 0}, "size": 3, "foot511": False}, block_size=4096, P=2, file_id=9)
    inner = {"dynamic-vhd": inner_vf.peek_bytes(0, inner_vf.size()), "footer-only": enc_vhd.footer(1 << 30, 3, 512), "fixed-footer": enc_vhd.footer(4096, 2, 0xFFFFFFFFFFFFFFFF),
             "cxsparse": b"cxsparse" + bytes(100), "vhdxfile": b"vhdxfile" + bytes(64), "kdmv": b"KDMV" + bytes(60)}
    for name, blob in inner.items():
        for foot511 in (False, True):
            size_b = (len(blob) + 3 * 4096 + 511) // 512 * 512
            content = blob + patterns.pat(5, len(blob), size_b - len(blob))
            ft = enc_vhd.footer(size_b, 2, 0xFFFFFFFFFFFFFFFF)
            flen = 511 if foot511 else 512
            vf = VirtualFile(size_b + flen, [(0, size_b, "bytes", content), (size_b, flen, "bytes", ft[:flen])])
            ctx.case(key=("fixed-container", name, foot511), nontrivial=True)
            try:
                v = VHD(vf)
                got = v.read(size_b + 10)
                v.seek(len(blob) // 2)
                got2 = v.read(4096)
            except Exception as e:  # noqa: BLE001
                ctx.violation({"format": "vhd", "fail": "read-raised", "sub": "fixed-container", "inner": name, "exc": type(e).__name__},
                              {"inner": name, "foot511": foot511, "error": repr(e)[:300]})
                continue
            if got != content or got2 != content[len(blob) // 2: len(blob) // 2 + 4096] or v.size != size_b:
                ctx.violation({"format": "vhd", "fail": "read-mismatch", "sub": "fixed-container", "inner": name},
                              {"inner": name, "foot511": foot511, "size": int(v.size), "want_size": size_b, "diff": disk.first_diff(content, got)})


def tail_lookalikes(ctx, rng):
    """Guest content whose *last* sectors look like VHD metadata (a nested image ends in its own footer; a nested dynamic image of an
    older tool in a 511-byte one): the image's footer is the one at the very end of the file, whatever precedes it."""
    import io
    from dissect.hypervisor.disk.vhd import VHD
    from harness import enc_vhd, patterns
    tails = {"fixed-footer": enc_vhd.footer(8192, 2, 0xFFFFFFFFFFFFFFFF), "dynamic-footer": enc_vhd.footer(1 << 30, 3, 512),
             "footer-511": enc_vhd.footer(16384, 2, 0xFFFFFFFFFFFFFFFF)[:511] + b"\0", "cookie-only": b"conectix".ljust(512, b"\0"),
             "two-footers": enc_vhd.footer(4096, 2, 0xFFFFFFFFFFFFFFFF) + enc_vhd.footer(12288, 3, 512), "cookie-at-end": bytes(504) + b"conectix",
             "dyn-header": enc_vhd.dyn_header(1536, 3, 4096)[:1024]}
    for name, tail in tails.items():
        for foot511 in (False, True):
            for kind in ("fixed", "dynamic"):
                n = 3
                img = {"kind": kind, "n": n, "cb": 1, "bat": {0: 0, 1: -1, 2: 1}, "size": n, "foot511": foot511}
                vf, info = enc_vhd.build(img, block_size=4096, P=2, file_id=6)
                raw = bytearray(vf.peek_bytes(0, vf.size()))
                flen = 511 if foot511 else 512
                # the guest's last bytes are the last bytes in front of the footer (fixed: the content itself; dynamic: block 2 is stored last)
                raw[len(raw) - flen - len(tail):len(raw) - flen] = tail
                size_b = n * 4096
                if kind == "fixed":
                    want = bytes(raw[:size_b])
                else:
                    blk = lambda p: bytes(raw[info["base"] + p * info["stride"]: info["base"] + p * info["stride"] + 4096])  # noqa: E731
                    want = blk(0) + bytes(4096) + blk(1)
                ctx.case(key=("tail-lookalike", name, foot511, kind), nontrivial=True)
                try:
                    v = VHD(io.BytesIO(bytes(raw)))
                    got = v.read(size_b + 10)
                    sz = int(v.size)
                except Exception as e:  # noqa: BLE001
                    ctx.violation({"format": "vhd", "fail": "read-raised", "sub": "tail-lookalike", "inner": name, "exc": type(e).__name__},
                                  {"inner": name, "foot511": foot511, "kind": kind, "error": repr(e)[:300]})
                    continue
                if got != want or sz != size_b:
                    ctx.violation({"format": "vhd", "fail": "read-mismatch", "sub": "tail-lookalike", "inner": name, "kind": kind},
                                  {"inner": name, "foot511": foot511, "kind": kind, "size": sz, "want_size": size_b, "diff": disk.first_diff(want, got)})


def _attrs(img, prof):
    return {"block_size": prof["block_size"], "kind": img["kind"], "foot511": img["foot511"]}


def run(ctx):
    thorough = ctx.tier == "thorough"
    ctx.rule = ("A: every image enumerated by TLC from spec/Vhd.tla (fixed/dynamic, all BATs over {unallocated, position p} with "
                "permuted placements, sizes not a block multiple, 511/512-byte footer) x block-size profiles (bitmap of 1, 2, 8 "
                "sectors) x derived byte and sector requests; non-trivial = request crosses a source change; distinct by "
                "(profile, image, offset, length). B: random real-geometry images and op sequences validated by TraceDisk.")
    ctx.assumptions = ["encoder harness/enc_vhd.py follows the VHD 1.0 specification (bitmap = one bit per sector, sector padded)",
                       "TLC explores the stated constants exhaustively"]
    diskprop.tlc_check(ctx, "Vhd", "Vhd_big.cfg" if thorough else "Vhd_small.cfg", need_actions=("Next",))
    sts = diskprop.dump_states(ctx, "Vhd", "Vhd_img4.cfg" if thorough else "Vhd_img.cfg")
    diskprop.replay_states(ctx, "vhd", sts, PROFILES_THOROUGH if thorough else PROFILES_QUICK, build,
                           attrs_of=_attrs, cap=80 if thorough else 48, sectors_api=_sectors)
    fixed_container_content(ctx, random.Random(ctx.seed + 404))
    tail_lookalikes(ctx, random.Random(ctx.seed + 405))
    diskprop.traces(ctx, "vhd", lambda tid, r: trace_for(tid, r, thorough), 400 if thorough else 64,
                    "TraceDisk", "TraceDisk.cfg", lambda t: {"format": "vhd", "block_size": t["geo"]["cellB"], "kind": t["img"]["kind"]})


def replay(ctx, body):
    d = body["detail"]
    ctx.quiet = True
    if d.get("kind") == "tlc":
        r = tlc.run(d["module"], d["cfg"])
        print(r.output[-2000:])
        return not r.violated
    if d.get("kind") in ("trace", "trace-gen"):
        tid = d.get("tid") or d["trace"]["tid"]
        t = trace_for(tid, random.Random(body["seed"] * 9176 + tid), body.get("tier") == "thorough")
        v, _ = tracecheck.validate("TraceDisk", "TraceDisk.cfg", [t])
        print(v)
        return v[tid][0] == "accept"
    img = d["img"]
    img["bat"] = {int(k): v for k, v in img["bat"].items()}
    cfg = "Vhd_img4.cfg" if img["n"] == 4 else "Vhd_img.cfg"
    sts = [s for s in diskprop.dump_states(ctx, "Vhd", cfg) if s["img"] == img]
    if not sts:
        print("image not in the enumerated set")
        return True
    b = build(img, d["profile"])
    o, n = d.get("read", [0, b.size])
    return diskcheck.check_image(ctx, "vhd", img, sts[0]["view"], b, random.Random(0), full=False, attrs={},
                                 extra_requests=[(o, n)], sectors_api=_sectors)
