"""Subprocess of C09: the library's debug logging is switched on through the DISSECT_LOG_* environment variables *before*
import, the working directory is the evidence directory, and path-based workloads run; prints the directory changes."""
import json
import os
import random
import sys

ROOT = os.path.dirname(os.path.dirname(os.path.abspath(__file__)))
sys.path.insert(0, ROOT)
from harness import core  # noqa: E402

core.use_repo()
from props import c09  # noqa: E402

root = sys.argv[1]
rng = random.Random(int(os.environ.get("VERIF_SEED", "0")) + 99)
gos = [mk(os.path.join(root, name), rng) for name, mk in (("vhdx", c09.wl_vhdx), ("vmdk", c09.wl_vmdk), ("hdd", c09.wl_hdd), ("vmtar", c09.wl_vmtar))
       if not os.makedirs(os.path.join(root, name), exist_ok=True)]
os.chdir(root)
before = c09.tree_hash(root)
errs = []
for go in gos:
    try:
        go()
    except Exception as e:  # noqa: BLE001
        errs.append(repr(e)[:200])
# handle-based readers as well (their loggers are configured at import)
for name, fn, blob in c09.handle_workloads(rng):
    try:
        import io
        fn(io.BytesIO(blob))
    except Exception as e:  # noqa: BLE001
        errs.append(name + ": " + repr(e)[:200])
import logging  # noqa: E402
logging.shutdown()
after = c09.tree_hash(root)
changed = sorted(k for k in set(before) | set(after) if before.get(k) != after.get(k))
print(json.dumps({"changed": changed, "errors": errs}))
