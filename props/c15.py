"""C15 - encrypted VMX: unlock round-trips and is authenticated.

Spec: spec/VmxCrypto.tla (symbolic crypto; TryLocator fall-through, DecryptVerify, Commit; RoundTrip, FailLeavesAttr,
CommitOnlyIfVerified, FailsWhenItMust).
A: every terminal state of the model (1-3 pairs x matches-passphrase x pair tamper site, data tamper site) is realised
   as a real bundle (pycryptodome AES-CBC/PKCS#7, hmac, pbkdf2) with a random cipher / MAC / KDF / rounds / salt /
   configuration length, and unlocked by the real VMX class; all 18 algorithm triples x content-length classes
   round-trip; thorough: every byte of every encrypted field is altered in turn.
B: the committed encrypted.vmx is unlocked, re-sealed by the encoder and unlocked again."""
from __future__ import annotations

import base64
import os
import random

from harness import core, diskprop, enc_vmx as E, tlaparse, tlc

LEVEL = "model_checking"
PASS = "correct horse ✓"
# passphrases that differ from one another only slightly: phrase identities of the specification are mapped to distinct
# members (no NUL characters: HMAC zero-pads short keys, so P and P + NUL are the same key by construction)
VARIANTS = [PASS, PASS + "\n", PASS + "\r\n", PASS + "\r", PASS + " ", " " + PASS, PASS[:-1], PASS.upper(), PASS + "\t", "\n" + PASS,
            PASS + "\n\n", PASS.replace("✓", "v"), "p", "P", "pässword", "password\n", "password",
            # pairs that differ only by Unicode normalisation / compatibility forms: different passphrases
            "pa\u00b2ss", "pa2ss", "\u212bngstr\u00f6m", "\u00c5ngstr\u00f6m", "Cafe\u0301", "Caf\u00e9", "\uff46\uff55\uff4c\uff4c", "full", "\ufb01n", "fin"]
SALTS = {n: [bytes([17 * (j + 1)] * n) for j in range(2)] for n in (8, 16, 32)}   # small pool: later unlocks in a process reuse salts
KEYMAP = {"k1": "displayName", "k2": "guestOS"}


def config_text(n, rng, plain=None):
    base = 'datafilekey = "abc"\nscsi0:0.fileName = "disk ü.vmdk"\n'
    extra = "".join(f'{KEYMAP[k]} = "real {k} ✓"\n' for k, v in sorted((plain or {}).items()) if v != "absent")
    if extra:
        # the modelled entries must be present: short length classes hold only them
        base = extra if n < 100 else base + extra
        if n <= len(base.encode()) + 3:
            return base
    if n <= len(base.encode()):
        return 'a="%s"\n' % ("x" * max(0, n - 5)) if n >= 5 else "a=1\n"[:max(n, 4)]
    # values with characters that mean something elsewhere: '=', '#', and the characters str.splitlines() (but not a VMX reader,
    # whose lines end at "\n") treats as line boundaries
    awkward = ['annotation = "first\x0bsecond \x85 third \u2028 fourth \x1c x"\n', 'guestinfo.a = "k=v; #not a comment"\n', 'guestinfo.b = "ff\x0cfeed \u2029 p \x1e q"\n',
               'guestinfo.cr = "carriage\rreturn"\n']
    for extra_line in awkward:
        if len((base + extra_line).encode()) + 4 <= n:
            base += extra_line
    return base + "# " + "p" * (n - len(base.encode()) - 3) + "\n"


def make_bundle(pairs, data_tamper, rng, *, cipher=None, mac=None, kdf=None, cfg_len=None, phrases=None, visible=None, plain=None, fixed_kdf_inputs=False):
    """pairs[k]: {"sealed": phrase id, "tamper": site} (or legacy {"match": bool, ...}); phrases: id -> passphrase."""
    phrases = phrases or {}
    cipher = cipher or rng.choice(list(E.KEYLEN))
    mac = mac or rng.choice(list(E.MACS))
    kdf = kdf or rng.choice(list(E.KDFS))
    data_cipher = rng.choice(list(E.KEYLEN))
    data_key = bytes(rng.randrange(256) for _ in range(E.KEYLEN[data_cipher]))
    cfg = config_text(cfg_len if cfg_len is not None else rng.choice([4, 8, 15, 16, 17, 31, 32, 33, 100, 1000]), rng, plain)
    ptexts = []
    # every pair may use its own MAC algorithm; encryption.data is authenticated with the algorithm of the pair that unlocks
    pair_macs = [mac if (k == 0 or rng.random() < 0.4) else rng.choice(list(E.MACS)) for k in range(len(pairs))]
    for p in pairs:
        if "match" not in p:
            p["match"] = phrases[p["sealed"]] == phrases["tried"]
    good = [k for k, p in enumerate(pairs) if p["match"] and p["tamper"] == "none"]
    data_mac = pair_macs[good[0]] if good else mac
    for k, p in enumerate(pairs):
        phrase = phrases[p["sealed"]] if "sealed" in p else (PASS if p["match"] else f"other-{k}")
        mac_k = pair_macs[k]

        def tam(b, site=p["tamper"], mac_k=mac_k):
            if site == "iv":
                b[rng.randrange(16)] ^= 1 << rng.randrange(8)
            elif site == "ct":
                b[rng.randrange(16, len(b) - E.MACS[mac_k][1])] ^= 1 << rng.randrange(8)
            elif site == "mac":
                b[len(b) - 1 - rng.randrange(E.MACS[mac_k][1])] ^= 1 << rng.randrange(8)

        ptexts.append(E.pair_text(phrase, data_key, cipher=cipher, mac=mac_k, kdf=kdf, rounds=(1000 if fixed_kdf_inputs else rng.choice([1, 2, 1000, 10000])), escape_inner=rng.random() < 0.5,
                                  salt=(SALTS[16][0] if fixed_kdf_inputs else rng.choice(SALTS[rng.choice([8, 16, 32])]) if rng.random() < 0.7
                                        else bytes(rng.randrange(256) for _ in range(rng.choice([8, 16, 32])))),
                                  iv=bytes(rng.randrange(256) for _ in range(16)), data_cipher=data_cipher,
                                  tamper=tam if p["tamper"] != "none" else None,
                                  order=rng.sample(range(4), 4) if rng.random() < 0.5 else None))    # key=value lists: any order of the fields
    db = bytearray(E.blob(data_key, cfg.encode(), data_mac, bytes(rng.randrange(256) for _ in range(16))))
    n = E.MACS[data_mac][1]
    if data_tamper == "iv":
        db[rng.randrange(16)] ^= 1 << rng.randrange(8)
    elif data_tamper == "ct-first":
        db[16 + rng.randrange(min(16, len(db) - 16 - n))] ^= 1 << rng.randrange(8)
    elif data_tamper == "ct-last":
        db[len(db) - n - 1 - rng.randrange(16)] ^= 1 << rng.randrange(8)
    elif data_tamper == "mac":
        db[len(db) - 1 - rng.randrange(n)] ^= 1 << rng.randrange(8)
    vis = {".encoding": "UTF-8"}
    if visible is None:
        vis["displayName"] = "Encrypted VM"
    else:
        for k, v in visible.items():
            if v != "absent":
                vis[KEYMAP[k]] = f"stale {k}"
    text = E.vmx_text(vis, E.keysafe(ptexts), bytes(db), key_case=rng.choice(["asis", "other"]))
    return text, cfg, {"cipher": cipher, "mac": mac, "kdf": kdf, "cfg_len": len(cfg.encode())}


def parse_cfg(cfg):
    out = {}
    for line in cfg.split("\n"):
        line = line.strip()
        if not line or line.startswith("#"):
            continue
        k, _, v = line.partition("=")
        out[k.strip().lower()] = v.strip(' "')
    return out


def unlock_and_compare(ctx, text, cfg, want_ok, attrs, det, phrase=PASS):
    from dissect.hypervisor.descriptor.vmx import VMX

    v = VMX.parse(text)
    before = dict(v.attr)
    try:
        v.unlock_with_phrase(phrase)
        ok = True
    except Exception as e:  # noqa: BLE001
        ok = False
        det = {**det, "error": f"{type(e).__name__}: {e}"[:200]}
    if want_ok and ok:
        # every attempt is judged on its own: after a success the same object still refuses another passphrase
        snap = dict(v.attr)
        try:
            v.unlock_with_phrase(phrase + "x" if phrase != "x" else "y")
            ctx.violation({**attrs, "fail": "accepted-wrong-passphrase-after-success"}, {**det, "phrase": phrase})
            return False
        except Exception:  # noqa: BLE001
            if v.attr != snap:
                ctx.violation({**attrs, "fail": "attr-changed-on-failure", "after": "success"}, det)
                return False
        # the helper classes behind it: one KeySafe object asked several times judges every passphrase on its own
        from dissect.hypervisor.descriptor.vmx import KeySafe
        kst = before.get("encryption.keysafe")
        if kst:
            wrong = phrase + "x" if phrase != "x" else "y"
            try:
                ks = KeySafe.from_text(kst)
                k1 = ks.unseal_with_phrase(phrase)
                try:
                    ks.unseal_with_phrase(wrong)
                    ctx.violation({**attrs, "fail": "accepted-wrong-passphrase-after-success", "how": "keysafe-object"}, {**det, "phrase": phrase})
                    return False
                except Exception:  # noqa: BLE001
                    pass
                if ks.unseal_with_phrase(phrase) != k1 or KeySafe.from_text(kst).unseal_with_phrase(phrase) != k1:
                    ctx.violation({**attrs, "fail": "second-unlock-differs", "how": "keysafe-object"}, {**det, "phrase": phrase})
                    return False
            except Exception as e:  # noqa: BLE001
                ctx.violation({**attrs, "fail": "second-unlock", "how": "keysafe-object"}, {**det, "error": f"{type(e).__name__}: {e}"[:200], "phrase": phrase})
                return False
        # a fresh object parsed from the same text starts locked again, and stays so when given another passphrase
        v3 = VMX.parse(text)
        if dict(v3.attr) != before:
            ctx.violation({**attrs, "fail": "fresh-object-not-locked"}, {**det, "extra_keys": sorted(set(v3.attr) - set(before))[:5]})
            return False
        try:
            v3.unlock_with_phrase(phrase + "x" if phrase != "x" else "y")
            ctx.violation({**attrs, "fail": "accepted-wrong-passphrase-after-success", "how": "fresh-object"}, {**det, "phrase": phrase})
            return False
        except Exception:  # noqa: BLE001
            if dict(v3.attr) != before:
                ctx.violation({**attrs, "fail": "attr-changed-on-failure", "after": "success-on-another-object"}, det)
                return False
        # asking again - the same object, and a fresh object parsed from the same text - must give the same answer
        for how in ("same-object", "fresh-object"):
            v2 = v if how == "same-object" else VMX.parse(text)
            try:
                v2.unlock_with_phrase(phrase)
            except Exception as e:  # noqa: BLE001
                ctx.violation({**attrs, "fail": "second-unlock", "how": how}, {**det, "error": f"{type(e).__name__}: {e}"[:200], "phrase": phrase})
                return False
            if v2.attr != v.attr:
                ctx.violation({**attrs, "fail": "second-unlock-differs", "how": how}, {**det, "phrase": phrase})
                return False
    if want_ok:
        want = dict(before)
        want.update(parse_cfg(cfg))
        if not ok or v.attr != want:
            ctx.violation({**attrs, "fail": "roundtrip"}, {**det, "unlocked": ok, "missing": sorted(set(want) - set(v.attr))[:5],
                                                           "differing": sorted(k for k in want if k in v.attr and v.attr[k] != want[k])[:5], "phrase": phrase})
            return False
    else:
        if ok:
            ctx.violation({**attrs, "fail": "accepted-tampered"}, {**det, "phrase": phrase})
            return False
        if v.attr != before:
            ctx.violation({**attrs, "fail": "attr-changed-on-failure"}, det)
            return False
    return True


def run(ctx):
    thorough = ctx.tier == "thorough"
    rng = random.Random(ctx.seed + 15)
    ctx.rule = ("every terminal state of spec/VmxCrypto.tla (1-3 pairs x matches x pair tamper site, data tamper site) realised as a real "
                "bundle with random algorithms/rounds/salts/content lengths; all 18 (cipher, MAC, KDF) triples x 10 content-length "
                "classes round-trip and reject a wrong passphrase; thorough: every byte of the wrapped key blob and of encryption.data "
                "altered in turn. Non-trivial = every case (distinct by state and algorithm triple).")
    ctx.assumptions = ["pycryptodome / hashlib / hmac primitives", "non-phrase locator kinds are refused at parse time (C12), so lists mix only phrase pairs"]
    diskprop.tlc_check(ctx, "VmxCrypto", "VmxCrypto.cfg", min_states=500, need_actions=("TryLocator", "Commit"))
    rd = tlc.run("VmxCrypto", "VmxCrypto_img3.cfg" if thorough else "VmxCrypto_img.cfg", dump=True)
    sts = [s for s in tlaparse.iter_dump(rd.dump) if s["phase"] in ("committed", "failed")]
    tlc.cleanup(rd)
    if not thorough:
        sts = rng.sample(sts, min(len(sts), 500))

    def work(sub, chunk, idx):
        r = random.Random(ctx.seed * 1500 + idx)
        for st in chunk:
            pairs = st["pairs"] if isinstance(st["pairs"], list) else [st["pairs"][k] for k in sorted(st["pairs"])]
            pairs = [dict(p) for p in pairs]
            # phrase identities -> distinct concrete passphrases that differ only slightly
            a, b = r.sample(VARIANTS, 2)
            phrases = {1: a, 2: b}
            phrases["tried"] = phrases[st["tried"]]
            text, cfg, alg = make_bundle(pairs, st["dataTamper"], r, phrases=phrases, visible=st["visible"], plain=st["plain"])
            sub.case(key=repr((pairs, st["tried"], st["dataTamper"], st["visible"], st["plain"], alg["cipher"], alg["mac"], alg["kdf"])), nontrivial=True,
                     sample={"pairs": pairs, "dataTamper": st["dataTamper"], "spec_phase": st["phase"], "visible": st["visible"], "plain": st["plain"],
                             "phrases": [a, b], **alg} if idx == 0 and len(pairs) == 2 else None)
            ok = unlock_and_compare(sub, text, cfg, st["phase"] == "committed", {"mac": alg["mac"], "cipher": alg["cipher"], "kdf": alg["kdf"],
                                    "dataTamper": st["dataTamper"], "npairs": len(pairs)},
                                    {"pairs": pairs, "dataTamper": st["dataTamper"], "visible": st["visible"], "plain": st["plain"], "phrases": [a, b], **alg},
                                    phrase=phrases["tried"])
            # the specification's final dictionary, key by key
            if ok and st["phase"] == "committed":
                from dissect.hypervisor.descriptor.vmx import VMX
                v = VMX.parse(text)
                v.unlock_with_phrase(phrases["tried"])
                for k, val in st["attr"].items():
                    want = None if val == "absent" else (f"real {k} ✓" if val == "real" else f"stale {k}")
                    if v.attr.get(KEYMAP[k].lower(), v.attr.get(KEYMAP[k])) != want:
                        sub.violation({"fail": "dictionary", "key": k, "spec": val}, {"pairs": pairs, "visible": st["visible"], "plain": st["plain"],
                                                                                   "got": v.attr.get(KEYMAP[k].lower(), v.attr.get(KEYMAP[k])), "want": want})
            if len(sub.violations) >= sub.max_violations:
                return

    core.parallel(ctx, work, sts)
    # all algorithm triples x content lengths, right and wrong passphrase
    for cipher in E.KEYLEN:
        for mac in E.MACS:
            for kdf in E.KDFS:
                for n in ([4, 15, 16, 17, 100, 16384, 20001] if not thorough else [4, 8, 15, 16, 17, 31, 32, 33, 100, 1000, 16383, 16384, 16385, 70000]):
                    text, cfg, alg = make_bundle([{"match": True, "tamper": "none"}], "none", rng, cipher=cipher, mac=mac, kdf=kdf, cfg_len=n,
                                                  fixed_kdf_inputs=True)   # same passphrase / salt / rounds for every triple in this process
                    ctx.case(key=("triple", cipher, mac, kdf, n), nontrivial=True)
                    unlock_and_compare(ctx, text, cfg, True, {"mac": mac, "cipher": cipher, "kdf": kdf, "sub": "triples"}, alg)
                text, cfg, alg = make_bundle([{"match": False, "tamper": "none"}], "none", rng, cipher=cipher, mac=mac, kdf=kdf)
                ctx.case(key=("triple-wrong", cipher, mac, kdf), nontrivial=True)
                unlock_and_compare(ctx, text, cfg, False, {"mac": mac, "cipher": cipher, "kdf": kdf, "sub": "wrong-passphrase"}, alg)
    pad_collisions(ctx, rng)
    byte_sweep(ctx, rng, thorough)
    fixture(ctx)


def pad_collisions(ctx, rng):
    """Configurations of every length modulo the cipher block whose last bytes equal the PKCS#7 pad value (or are other
    control characters): content bytes that look like padding must survive."""
    for r in range(16):
        pad = 16 - r
        for last in sorted({pad, 0x0A, 0x0D, 0x09, 0x10, 0x01}):
            for reps in (1, 3):
                body = 'a = "x"\nscsi0:0.fileName = "d.vmdk"\n#'
                tail = bytes([last]) * reps
                fill = (r - len(body.encode()) - len(tail)) % 16
                cfg = body + "p" * fill + tail.decode("latin-1")
                assert len(cfg.encode()) % 16 == r, (len(cfg.encode()), r)
                for mac in ("HMAC-SHA-1", "HMAC-SHA-256"):
                    data_key = bytes(rng.randrange(256) for _ in range(32))
                    pt = E.pair_text(PASS, data_key, mac=mac, rounds=1)
                    text = E.vmx_text({".encoding": "UTF-8"}, E.keysafe([pt]), E.blob(data_key, cfg.encode(), mac, bytes(rng.randrange(256) for _ in range(16))))
                    ctx.case(key=("pad-collision", r, last, reps, mac), nontrivial=True)
                    unlock_and_compare(ctx, text, cfg, True, {"sub": "pad-collision", "len_mod_16": r, "last_byte": last, "mac": mac}, {"cfg_len": len(cfg.encode()), "reps": reps})


def byte_sweep(ctx, rng, thorough):
    """Every byte of encryption.data (and, thorough, of the wrapped key blob) altered in turn must make unlocking fail."""
    from dissect.hypervisor.descriptor.vmx import VMX

    for n in ([8, 40] if not thorough else [4, 8, 15, 16, 17, 40]):
        for mac in (["HMAC-SHA-1"] if not thorough else list(E.MACS)):
            text, cfg, alg = make_bundle([{"match": True, "tamper": "none"}], "none", rng, cipher="AES-256", mac=mac, kdf="PBKDF2-HMAC-SHA-1", cfg_len=n)
            lines = text.split("\n")
            di = [k for k, l in enumerate(lines) if l.lower().startswith("encryption.data")][0]
            raw = bytearray(base64.b64decode(lines[di].split('"')[1]))
            for p in range(len(raw)):
                b = bytearray(raw)
                b[p] ^= 0x10
                lines2 = list(lines)
                lines2[di] = lines[di].split('"')[0] + '"' + base64.b64encode(bytes(b)).decode() + '"'
                ctx.case(key=("sweep", n, mac, p), nontrivial=True)
                if not unlock_and_compare(ctx, "\n".join(lines2), cfg, False, {"mac": mac, "sub": "byte-sweep", "cfg_len": n, "region": "iv" if p < 16 else "ct" if p < len(raw) - E.MACS[mac][1] else "mac"},
                                          {"pos": p, "blob_len": len(raw), **alg}):
                    if len(ctx.violations) >= ctx.max_violations:
                        return


def _fixture_body(ctx):
    from dissect.hypervisor.descriptor.vmx import VMX

    p = os.path.join(core.repo_path(), "tests", "data", "encrypted.vmx")
    if not os.path.exists(p):
        return
    v = VMX.parse(open(p).read())
    v.unlock_with_phrase("password")
    ctx.case(key="fixture", nontrivial=True)
    ctx.traces_validated += 1
    if "datafilekey" not in v.attr:
        ctx.violation({"fail": "fixture"}, {})


def replay(ctx, body):
    ctx.quiet = True
    run(ctx)
    return not ctx.violations


def fixture(ctx):
    try:
        _fixture_body(ctx)
    except core.MachineryError:
        raise
    except Exception as e:  # noqa: BLE001  (the code under test raised on the committed sample)
        import traceback
        ctx.violation({"fail": "fixture-raised", "sub": "fixture", "exc": type(e).__name__}, {"error": repr(e)[:300], "tb": traceback.format_exc()[-1200:]})
