"""C06 - Parallels HDS/HDD: every byte range reads as the guest-visible content.

Spec: spec/Hds.tla (v1 sector entries / v2 cluster entries; GuestView from parallels.txt; IterRuns = transcription of
HDS._iter_runs; cfg Hds_old shows TLC finding the sparse-sentinel coincidence of the pinned commit).
A: every TLC-enumerated image replayed on HDS(fh) at several cluster sizes, a sample through HDD(path).open() (files on
   disk, incl. plain images). B: random real-geometry images + op sequences validated by TraceDisk."""
from __future__ import annotations

import os
import random
import shutil
import tempfile

from harness import core, disk, diskcheck, diskprop, enc_hds, record, tlc, tracecheck

LEVEL = "model_checking"

PROFILES_QUICK = [
    {"cluster_size": 4096, "full": True},
    {"cluster_size": 1 << 20, "full": False},
    {"cluster_size": 65536, "full": True, "sel": 3},
    {"cluster_size": 126 * 512, "full": True, "sel": 3},   # 63-sector tracks x 2: not a power of two
    {"cluster_size": 4096, "full": True, "sel": 3, "v1_unused": 0x1FF, "when": lambda img: img["ver"] == 1},  # garbage in the unused dword after the v1 size
    {"cluster_size": 1024, "full": False, "sel": 3, "pos_shift": 0x80000000, "when": lambda img: img["ver"] == 2},   # table entries with the top bit set (1 TiB and more into the file)
    {"cluster_size": 4096, "full": False, "sel": 4, "pos_shift": 0xFFFF0000 // 8, "when": lambda img: img["ver"] == 1},
]
PROFILES_THOROUGH = PROFILES_QUICK + [
    {"cluster_size": 8 << 20, "full": False, "sel": 6},
    {"cluster_size": 256 << 10, "full": False, "sel": 2},
    {"cluster_size": 1024, "full": True, "sel": 2},
    {"cluster_size": 2000 * 512, "full": False, "sel": 3},
    {"cluster_size": 6 * 512, "full": True, "sel": 3},
]


def _open(vf, parent):
    from dissect.hypervisor.disk.hdd import HDS

    vf.seek(0)
    _OPENS[0] += 1
    if parent and _OPENS[0] % 2:
        h = HDS(vf)          # the parent is a public attribute: attached after construction it counts just the same
        h.parent = parent()
        return h
    return HDS(vf, parent=parent() if parent else None)


_OPENS = [0]


def build(img, prof, P=None, size_bytes=None):
    cs = prof["cluster_size"]
    if cs // img["cb"] < 512:
        return None
    if img["kind"] == "plain":
        return None
    # header + BAT must fit below the first possible position
    vf, info = enc_hds.build(img, cluster_size=cs, P=P if P is not None else img["n"] + 1, size_bytes=size_bytes,
                             hdr_kw={"v1_unused": prof.get("v1_unused", 0)}, pos_shift=prof.get("pos_shift", 0))
    parent = None
    if img["parent"]:
        psize = info["size"]
        parent = lambda: disk.ParentStream(psize)  # noqa: E731  (HDS reads its parent through seek/read)
    return disk.Built(open=lambda: _open(vf, parent), cell=info["cell"], size=info["size"], bases={0: info["base"]}, files=[vf],
                      has_parent=bool(img["parent"]), note={k: v for k, v in prof.items() if k != "when"})


def check_via_hdd(ctx, sts, rng, nsample):
    """A sample of enumerated images (and plain images) opened through HDD(path).open() from files on disk."""
    from pathlib import Path

    from dissect.hypervisor.disk.hdd import HDD

    work = tempfile.mkdtemp(prefix="verif-hdd-")
    try:
        picks = rng.sample(sts, min(nsample, len(sts)))
        for k, st in enumerate(picks):
            img, view = st["img"], disk.norm_view(st["view"])
            if img["parent"]:
                continue
            cs = rng.choice([4096, 65536])
            vf, info = enc_hds.build(img, cluster_size=cs, P=img["n"] + 1)
            d = os.path.join(work, f"d{k}.hdd")
            g = enc_hds.DEFAULT_TOP
            plain = k % 3 == 0
            if plain:
                # plain image: guest byte x is file byte x
                from harness.vfile import VirtualFile
                pv = VirtualFile(info["size"], [(0, info["size"], "pat", 0)])
                view = [{"k": "D", "f": 0, "c": c} for c in range(len(view))]
                enc_hds.write_hdd_dir(d, [(0, info["size"] // 512, [(g, "Plain", "disk.hdd")])], [(g, enc_hds.NULL_GUID)], {"disk.hdd": pv})
            else:
                enc_hds.write_hdd_dir(d, [(0, info["size"] // 512, [(g, "Compressed", "disk.hds")])], [(g, enc_hds.NULL_GUID)], {"disk.hds": vf})
            b = disk.Built(open=lambda d=d: HDD(Path(d)).open(), cell=info["cell"], size=info["size"], bases={0: 0},
                           note={"cluster_size": cs, "via": "HDD", "plain": plain})
            diskcheck.check_image(ctx, "hds", img, view, b, rng, full=True, attrs={"cluster_size": cs, "via": "HDD", "plain": plain, "ver": img["ver"]}, cap=40)
            shutil.rmtree(d, ignore_errors=True)
    finally:
        shutil.rmtree(work, ignore_errors=True)


def plain_container_content(ctx, rng):
    """Plain images whose guest content itself starts with something that looks like a disk container (an HDS image of
    either version, a VMDK / QCOW2 / VHDX signature, an XML descriptor): the type comes from DiskDescriptor.xml, the
    content must be served verbatim."""
    from pathlib import Path

    from dissect.hypervisor.disk.hdd import HDD
    from harness import patterns

    inner = {}
    for ver in (1, 2):
        vf, info = enc_hds.build({"ver": ver, "n": 3, "cb": 1, "bat": {0: 2, 1: 0, 2: 1}, "size": 3}, cluster_size=4096, P=3, file_id=7)
        inner[f"hds-v{ver}"] = vf.peek_bytes(0, vf.size())
    inner["kdmv"] = b"KDMV" + bytes(range(200))
    inner["cowd"] = b"COWD" + bytes(60)
    inner["qfi"] = b"QFI\xfb\x00\x00\x00\x03" + bytes(96)
    inner["vhdxfile"] = b"vhdxfile" + bytes(100)
    inner["xml"] = b'<?xml version="1.0"?><Parallels_disk_image/>'
    work = tempfile.mkdtemp(prefix="verif-hddp-")
    try:
        for name, blob in inner.items():
            for nstor in (1, 2):
                total = (len(blob) + 3 * 4096 + 511) // 512 * 512
                content = blob + patterns.pat(3, len(blob), total - len(blob))
                d = os.path.join(work, f"{name}-{nstor}.hdd")
                g = enc_hds.DEFAULT_TOP
                os.makedirs(d)
                if nstor == 1:
                    stor = [(0, total // 512, [(g, "Plain", "disk.hdd")])]
                    open(os.path.join(d, "disk.hdd"), "wb").write(content)
                    want = content
                else:
                    # second storage: again a plain file that starts with the same look-alike
                    stor = [(0, total // 512, [(g, "Plain", "disk.0.hdd")]), (total // 512, 2 * total // 512, [(g, "Plain", "disk.1.hdd")])]
                    open(os.path.join(d, "disk.0.hdd"), "wb").write(content)
                    open(os.path.join(d, "disk.1.hdd"), "wb").write(content)
                    want = content + content
                enc_hds.write_hdd_dir(d, stor, [(g, enc_hds.NULL_GUID)], {}, top_guid=g)
                ctx.case(key=("plain-container", name, nstor), nontrivial=True)
                try:
                    s = HDD(Path(d)).open()
                    got = s.read(len(want) + 10)
                    s.seek(len(blob) // 2)
                    got2 = s.read(4096)
                except Exception as e:  # noqa: BLE001
                    ctx.violation({"format": "hdd", "fail": "read-raised", "sub": "plain-container", "inner": name, "exc": type(e).__name__},
                                  {"inner": name, "storages": nstor, "error": repr(e)[:300]})
                    continue
                if got != want or got2 != want[len(blob) // 2: len(blob) // 2 + 4096] or s.size != len(want):
                    ctx.violation({"format": "hdd", "fail": "read-mismatch", "sub": "plain-container", "inner": name},
                                  {"inner": name, "storages": nstor, "size": int(s.size), "want_size": len(want), "diff": disk.first_diff(want, got)})
    finally:
        shutil.rmtree(work, ignore_errors=True)


def make_trace(tid, rng, nops=30, **opt):
    ver = rng.choice([1, 2])
    cs = rng.choice([1 << 20, 1 << 20, 65536, 4096, 63 * 512, 1000 * 512]) if ver == 2 else rng.choice([65536, 4096, 32768, 63 * 512, 24 * 512])
    n = rng.randrange(2, 30 if cs <= 65536 else 10)
    if opt.get("many") == "mid":  # a BAT of several hundred entries
        cs, n = rng.choice([4096, 63 * 512, 1024, 2048]), rng.randrange(200, 700)   # small clusters: the BAT itself spans several clusters
    elif opt.get("many"):  # a BAT of several thousand entries
        cs, n = rng.choice([4096, 1024, 2048]), rng.choice([rng.randrange(1100, 2500), rng.randrange(4200, 9000), rng.randrange(16500, 20000)])
    runs = opt.get("many") == "runs"
    if runs:  # long runs of absent / present clusters of 1 MiB (v2: the trace cells of v1 images are sectors - too many of them)
        ver, cs, n = 2, 1 << 20, rng.randrange(48, 72)
        plan = diskprop.run_plan(rng, n, ["U", "D", "Dr"])
    parent = rng.random() < 0.3
    tail = rng.choice([0, 0, 512, cs // 1024 * 512, cs - 512])
    size_b = n * cs - tail
    # header fields that do not influence the mapping (geometry, "in use" marker, flags, extension offset, the v1 spare word)
    fid = rng.randrange(0, 0x90)   # identity of this image
    dontcare = {"heads": rng.choice([16, 255, 0]), "cyl": rng.choice([1024, 0, 0xFFFF]), "in_use": rng.choice([0, 0x746F6E59, 1]),
                "flags": rng.choice([0, 1, 2, 0x80000000]), "ext_off": rng.choice([0, 0, 7]), "v1_unused": rng.choice([0, 0xFFFFFFFF, 1])}
    if ver == 2:
        hdr_clusters = -(-(64 + 4 * n) // cs) + rng.choice([0, 0, 0, 2, 5])    # the data area may start behind reserved clusters
        npos = n + rng.randrange(0, 3)
        pos = list(range(hdr_clusters, hdr_clusters + npos))
        rng.shuffle(pos)
        bat = [0 if rng.random() < 0.35 else pos.pop() for _ in range(n)]
        if runs:
            pp, npos = diskprop.run_positions(plan, first=hdr_clusters)
            bat = [0 if k == "U" else pp[i] for i, k in enumerate(plan)]
        img = {"kind": "hds", "ver": 2, "n": n, "cb": 1, "bat": {i: bat[i] for i in range(n)}, "size": n, "parent": parent}
        vf, info = enc_hds.build(img, cluster_size=cs, P=hdr_clusters + npos, size_bytes=size_b, hdr_kw=dontcare, file_id=fid, first_cluster=hdr_clusters)
        timg = {"kind": "hds", "ver": 2, "n": n, "cb": 1, "bat": bat, "size": n, "parent": parent}
        cell = cs
    else:
        # v1: sector-granular entries, any (non cluster-aligned) placement; trace cells are sectors
        spc = cs // 512
        hdr_sec = -(-(64 + 4 * n) // 512)
        cur = hdr_sec + rng.randrange(0, 5)
        slots = []
        for _ in range(n + 2):
            slots.append(cur)
            cur += spc + rng.choice([0, 0, 1, 3, spc // 2])
        rng.shuffle(slots)
        bat = [0 if rng.random() < 0.35 else slots.pop() for _ in range(n)]
        img = {"kind": "hds", "ver": 1, "n": n, "cb": spc, "bat": {i: bat[i] for i in range(n)}, "size": n * spc, "parent": parent}
        vf, info = enc_hds.build(img, cluster_size=cs, P=(cur // spc) + 2, size_bytes=size_b, hdr_kw=dontcare, file_id=fid)
        timg = {"kind": "hds", "ver": 1, "n": n, "cb": spc, "bat": bat, "size": n * spc, "parent": parent}
        cell = 512
    popen = (lambda: disk.ParentStream(size_b)) if parent else None
    b = disk.Built(open=lambda: _open(vf, popen), cell=cell, size=size_b, bases={0: 0}, has_parent=parent, fids={0: fid})
    s = b.open()
    fresh = b.open()
    rec = record.Recorder(s, size_b, probe=fresh.readoffset, align=opt.get("align"))
    if runs:
        diskprop.whole_disk_ops(rec, rng, size_b, cs)
        nops = 6
    record.random_ops(rec, rng, size_b, nops, unit=cs, big=(size_b + 4096) if runs else min(3 * cs + 4096, 4 << 20))
    return {"tid": tid, "fmt": "hds", "img": timg, "sizeB": size_b, "sector": 512, "geo": b.geo(), "events": rec.events}


def trace_for(tid, r, thorough):
    """The history behind trace `tid` (run and --replay build the same one)."""
    if tid % 6 == 0:   # a Parallels disk split over several storages (expanding and plain images side by side)
        import importlib
        return importlib.import_module("props.c10").make_trace_hdd(tid, r, 40 if thorough else 25)
    return make_trace(tid, r, 40 if thorough else 25, many=diskprop.many_of(tid))


def _attrs(img, prof):
    return {"cluster_size": prof["cluster_size"], "ver": img["ver"], "parent": img["parent"]}


def run(ctx):
    thorough = ctx.tier == "thorough"
    rng = random.Random(ctx.seed + 606)
    ctx.rule = ("A: every image enumerated by TLC from spec/Hds.tla (v1/v2, all BATs over {0, position} incl. placements whose file "
                "offset equals the length of the preceding sparse run, tail sizes, parent yes/no) x cluster-size profiles x derived "
                "requests, on HDS(fh) and (sample, plus plain images) through HDD(path).open(); non-trivial = request crosses a "
                "source change. B: random real-geometry v1 (sector-granular placement) and v2 images, traces validated by TraceDisk.")
    ctx.assumptions = ["encoder harness/enc_hds.py follows parallels.txt / prl-xml.txt", "TLC explores the stated constants exhaustively"]
    diskprop.tlc_check(ctx, "Hds", "Hds_big.cfg" if thorough else "Hds_small.cfg", need_actions=("Next",))
    sts = diskprop.dump_states(ctx, "Hds", "Hds_img4.cfg" if thorough else "Hds_img.cfg")
    diskprop.replay_states(ctx, "hds", sts, PROFILES_THOROUGH if thorough else PROFILES_QUICK, build,
                           attrs_of=_attrs, cap=80 if thorough else 48)
    check_via_hdd(ctx, sts, rng, 120 if thorough else 24)
    plain_container_content(ctx, rng)
    diskprop.traces(ctx, "hds", lambda tid, r: trace_for(tid, r, thorough), 400 if thorough else 72, "TraceDisk", "TraceDisk.cfg",
                    lambda t: {"format": "hds", "ver": t["img"]["ver"] if "img" in t else 0, "parent": t["img"]["parent"] if "img" in t else False, "split": "exts" in t})


def replay(ctx, body):
    d = body["detail"]
    ctx.quiet = True
    if d.get("kind") == "tlc":
        r = tlc.run(d["module"], d["cfg"])
        print(r.output[-2000:])
        return not r.violated
    if d.get("kind") in ("trace", "trace-gen"):
        tid = d.get("tid") or d["trace"]["tid"]
        t = trace_for(tid, random.Random(body["seed"] * 9176 + tid), body.get("tier") == "thorough")
        v, _ = tracecheck.validate("TraceDisk", "TraceDisk.cfg", [t])
        print(v)
        return v[tid][0] == "accept"
    img = d["img"]
    img["bat"] = {int(k): v for k, v in img["bat"].items()}
    cfg = "Hds_img4.cfg" if img["n"] == 4 else "Hds_img.cfg"
    sts = [s for s in diskprop.dump_states(ctx, "Hds", cfg) if s["img"] == img]
    if not sts:
        print("image not in the enumerated set")
        return True
    if d["profile"].get("via") == "HDD":
        check_via_hdd(ctx, sts, random.Random(0), 1)
        return not ctx.violations
    b = build(img, d["profile"])
    o, n = d.get("read", [0, b.size])
    return diskcheck.check_image(ctx, "hds", img, sts[0]["view"], b, random.Random(0), full=False, attrs={}, extra_requests=[(o, n)])
