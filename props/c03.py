"""C03 - VHDX: every byte range reads as the guest-visible content.

Spec: spec/Vhdx.tla (block states, placement; ImplRead = transcription of VHDX.read_sectors; cfg Vhdx_old shows TLC
finding the mid-block defect of the pinned commit).
A: every TLC-enumerated non-differencing image, encoded by harness/enc_vhdx.py ([MS-VHDX]) at several
   (block size, sector size) pairs, with scale embedding so that the abstract chunk ratio 2 maps onto real chunk ratios
   (sector-bitmap entries interleaved in the BAT), replayed on the real VHDX class through read() and read_sectors().
B: random real-geometry BATs + op sequences validated by TraceDisk."""
from __future__ import annotations

import random

from harness import core, disk, diskcheck, diskprop, enc_vhdx, record, tlc, tracecheck

LEVEL = "model_checking"

# k = real blocks per abstract block; chunk ratio = 2^23 * sector / block
PROFILES_QUICK = [
    {"block_size": 1 << 20, "sector": 512, "k": 1, "full": True, "cap": 40},
    {"block_size": 256 << 20, "sector": 512, "k": 8, "full": False, "max_len": 2 << 20, "sel": 2},   # ratio 16: SB entries interleaved
    {"block_size": 2 << 20, "sector": 4096, "k": 1, "full": False, "sel": 2, "stale": True, "phys": 512},   # physical sector smaller than the logical one
    {"block_size": 1 << 20, "sector": 512, "k": 1, "full": False, "sel": 3, "stale": True, "phys": 512},
    {"block_size": 1 << 20, "sector": 512, "k": 1, "full": False, "sel": 3, "leave_alloc": True},   # "fixed" flag set, blocks in any order
    {"block_size": 32 << 20, "sector": 4096, "k": 512, "full": False, "max_len": 2 << 20, "sel": 5},  # 4K sectors, ratio 1024, > 1500 BAT entries
    {"block_size": 32 << 20, "sector": 512, "k": 64, "full": False, "max_len": 2 << 20, "sel": 4, "base_mb": 5 << 20},  # ratio 128, data beyond 2^42 bytes
    {"block_size": 1 << 20, "sector": 512, "k": 1, "full": False, "sel": 4, "base_mb": (1 << 24) + 12345, "meta_shuffle": True},  # FileOffsetMB above 2^24 (16 TiB into the file)
    {"block_size": 1 << 20, "sector": 512, "k": 1, "full": True, "cap": 40, "sel": 3, "layout": "regions-last"},   # BAT / metadata behind the payload
    {"block_size": 2 << 20, "sector": 512, "k": 1, "full": False, "sel": 4, "layout": "bat-last", "stale": True},
]
PROFILES_THOROUGH = PROFILES_QUICK + [
    {"block_size": 1 << 20, "sector": 4096, "k": 4096, "full": False, "max_len": 2 << 20, "sel": 8},  # 4K sectors, > 12000 BAT entries
    {"block_size": 1 << 20, "sector": 4096, "k": 1, "full": True, "cap": 40, "sel": 3, "phys": 512},
    {"block_size": 8 << 20, "sector": 512, "k": 1, "full": False, "base_mb": (1 << 43) // (1 << 20), "sel": 3},  # near the 44-bit MB field limit
    {"block_size": 256 << 20, "sector": 4096, "k": 64, "full": False, "max_len": 2 << 20, "sel": 4},  # ratio 128
]


def _open(vf):
    from dissect.hypervisor.disk.vhdx import VHDX

    vf.seek(0)
    return VHDX(vf)


def _sectors(s, sector, count):
    return s.read_sectors(sector, count)


def build(img, prof, size_bytes=None):
    bs, k, cb = prof["block_size"], prof["k"], img["cb"]
    ab = bs * k  # bytes per abstract block
    cell = ab // cb
    if cell % prof["sector"]:
        return None
    blocks = enc_vhdx.expand(img, k, stale=prof.get("stale", False))
    size_b = img["size"] * cell if size_bytes is None else size_bytes
    # drop real blocks beyond the (possibly shorter) disk size
    npb = -(-size_b // bs)
    blocks = blocks[:npb]
    vf, info = enc_vhdx.build(blocks, block_size=bs, sector_size=prof["sector"], disk_size=size_b,
                              data_base_mb=prof.get("base_mb"), seqs=prof.get("seqs", (5, 6)),
                              reserved_bits=prof.get("reserved_bits", 0), leave_alloc=prof.get("leave_alloc", False),
                              layout=prof.get("layout", "std"), phys_sector=prof.get("phys", 4096), meta_place=((lambda n_: list(range(n_))[::-1]) if prof.get("meta_shuffle") else None))
    return disk.Built(open=lambda: _open(vf), cell=cell, size=size_b, bases={0: info["data_base"]}, files=[vf],
                      note={k_: v for k_, v in prof.items() if k_ != "when"}, cb=cb, stride=ab, sector=prof["sector"])


def make_trace(tid, rng, nops=25, **opt):
    sector = rng.choice([512, 512, 4096])
    bs = rng.choice([1 << 20, 1 << 20, 2 << 20, 8 << 20])
    n = rng.randrange(2, 40 if bs == (1 << 20) else 12)
    if opt.get("many") == "mid":  # several hundred BAT entries
        bs, n = 1 << 20, rng.randrange(300, 1100)
    elif opt.get("many"):  # as many as fit below 2 GiB (byte offsets must fit TLC integers)
        bs, n = 1 << 20, rng.randrange(1100, 2040)
    npos = n + rng.randrange(0, 3)
    pos = list(range(npos))
    rng.shuffle(pos)
    st, pp = [], []
    for _ in range(n):
        r = rng.random()
        if r < 0.5:
            st.append(6)
            pp.append(pos.pop())
        else:
            st.append(rng.choice([0, 1, 2, 3]))
            pp.append(0)
    runs = opt.get("many") == "runs"
    if runs:  # long runs of blocks in each state
        bs, n = rng.choice([1 << 20, 1 << 20, 2 << 20]), rng.randrange(48, 72)
        plan = diskprop.run_plan(rng, n, ["D", "Dr", 0, 1, 2, 3])
        pq, npos = diskprop.run_positions(plan)
        st = [6 if k in ("D", "Dr") else k for k in plan]
        pp = [pq[i] if pq[i] is not None else 0 for i in range(n)]
    tail = rng.choice([0, 0, sector, bs // 2, bs - sector])
    size_b = n * bs - tail
    stale = rng.random() < 0.5
    blocks = [(st[i], pp[i] if st[i] == 6 else (rng.randrange(0, max(1, npos)) if (stale and st[i] in (1, 2, 3)) else None)) for i in range(n)]
    fid = rng.randrange(0, 0x90)   # identity of this image: the pattern file id its payload carries
    vf, info = enc_vhdx.build(blocks, block_size=bs, sector_size=sector, disk_size=size_b, seqs=rng.choice([(5, 6), (6, 5), (0, 1), (7, 7)]),
                              reserved_bits=rng.choice([0, 0, 0x1FFFF]), leave_alloc=rng.random() < 0.3,
                              layout=rng.choice(["std", "std", "regions-last", "bat-last"]), file_id=fid, phys_sector=rng.choice([512, 4096]),
                              meta_place=(lambda n_: rng.sample(range(n_), n_)) if rng.random() < 0.5 else None)
    b = disk.Built(open=lambda: _open(vf), cell=bs, size=size_b, bases={0: info["data_base"]}, sector=sector, fids={0: fid})
    s = b.open()
    fresh = b.open()
    rec = record.Recorder(s, size_b, probe=fresh.readoffset, align=opt.get("align"))
    if runs:
        diskprop.whole_disk_ops(rec, rng, size_b, bs, sectors_fn=s.read_sectors, ssize=sector)
        nops = 6
    record.random_ops(rec, rng, size_b, nops, unit=bs, big=(size_b + 4096) if runs else min(3 * bs + 4096, 6 << 20), sectors_fn=s.read_sectors, ssize=sector)
    return {"tid": tid, "fmt": "vhdx", "img": {"n": n, "cb": 1, "st": st, "p": pp, "bm": [[] for _ in range(n)], "size": n, "parent": False},
            "sizeB": size_b, "sector": sector, "geo": b.geo(), "events": rec.events}


def trace_for(tid, r, thorough):
    """The history behind trace `tid` (run and --replay build the same one)."""
    return make_trace(tid, r, 40 if thorough else 25, many=diskprop.many_of(tid))


def large_blocks(ctx, rng, thorough):
    """Block sizes of 64-256 MiB with single requests that cover more than 32 MiB of one block (sparse and present)."""
    from harness import patterns
    for bs in ([64 << 20] if not thorough else [64 << 20, 128 << 20, 256 << 20]):
        for states in ([0, 2, 6, 3, 6], [6, 0, 0, 6, 1]):
            pos = iter(rng.sample(range(4), 4))
            blocks = [(st, next(pos) if st == 6 else None) for st in states]
            size_b = len(states) * bs - rng.choice([0, 512, bs // 2])
            vf, info = enc_vhdx.build(blocks, block_size=bs, sector_size=rng.choice([512, 4096]), disk_size=size_b)
            b = disk.Built(open=lambda vf=vf: _open(vf), cell=bs, size=size_b, bases={0: info["data_base"]})
            view = [{"k": "D", "f": 0, "c": p} if st == 6 else {"k": "Z", "f": 0, "c": 0} for st, p in blocks]
            s = b.open()
            for o, n in ((0, 2 * bs + 4096), (bs - 4096, bs + 8192), (4096, 40 << 20), (bs + 512 * 8, 33 << 20), (3 * bs - (34 << 20), 70 << 20), (size_b - (33 << 20), 64 << 20)):
                ctx.case(key=("large-blocks", bs, tuple(states), o, n), nontrivial=True)
                try:
                    s.seek(o)
                    got = s.read(n)
                except Exception as e:  # noqa: BLE001
                    ctx.violation({"format": "vhdx", "fail": "read-raised", "sub": "large-blocks", "block_size": bs, "exc": type(e).__name__},
                                  {"block_size": bs, "states": states, "read": [o, n], "error": repr(e)[:300]})
                    break
                exp = disk.expected(view, o, n, b)
                if got != exp:
                    ctx.violation({"format": "vhdx", "fail": "read-mismatch", "sub": "large-blocks", "block_size": bs},
                                  {"block_size": bs, "states": states, "read": [o, n], "diff": disk.first_diff(exp, got)})
                    break
                del got, exp


def _attrs(img, prof):
    return {"block_size": prof["block_size"], "sector": prof["sector"], "k": prof["k"]}


def run(ctx):
    thorough = ctx.tier == "thorough"
    ctx.rule = ("A: every non-differencing image enumerated by TLC from spec/Vhdx.tla (all state vectors over {not-present, undefined, "
                "zero, unmapped, fully-present at position p}, permuted placements, tail sizes) x (block size, sector size, scale) "
                "profiles incl. chunk ratios 16/128/1024 with interleaved sector-bitmap entries and data at MB offsets beyond 2^32 "
                "bytes x derived byte and sector requests (mid-block starts, multi-block spans); non-trivial = request crosses a "
                "source change. B: random real-geometry BATs and op sequences validated by TraceDisk.")
    ctx.assumptions = ["encoder harness/enc_vhdx.py follows [MS-VHDX]; checksums are not verified by the reader",
                       "scale embedding: an abstract block is k consecutive real blocks with consecutive placement"]
    diskprop.tlc_check(ctx, "Vhdx", "Vhdx_big.cfg" if thorough else "Vhdx_small.cfg", need_actions=("Next",))
    sts = diskprop.dump_states(ctx, "Vhdx", "Vhdx_img4.cfg" if thorough else "Vhdx_img.cfg")
    diskprop.replay_states(ctx, "vhdx", sts, PROFILES_THOROUGH if thorough else PROFILES_QUICK, build,
                           attrs_of=_attrs, cap=64 if thorough else 36, sectors_api=_sectors)
    large_blocks(ctx, random.Random(ctx.seed + 303), thorough)
    diskprop.traces(ctx, "vhdx", lambda tid, r: trace_for(tid, r, thorough), 320 if thorough else 48,
                    "TraceDisk", "TraceDisk.cfg", lambda t: {"format": "vhdx", "block_size": t["geo"]["cellB"], "sector": t["sector"]})


def replay(ctx, body):
    d = body["detail"]
    ctx.quiet = True
    if d.get("kind") == "tlc":
        r = tlc.run(d["module"], d["cfg"])
        print(r.output[-2000:])
        return not r.violated
    if d.get("kind") in ("trace", "trace-gen"):
        tid = d.get("tid") or d["trace"]["tid"]
        t = trace_for(tid, random.Random(body["seed"] * 9176 + tid), body.get("tier") == "thorough")
        v, _ = tracecheck.validate("TraceDisk", "TraceDisk.cfg", [t])
        print(v)
        return v[tid][0] == "accept"
    img = d["img"]
    img["bat"] = {int(k): v for k, v in img["bat"].items()}
    cfg = "Vhdx_img4.cfg" if img["n"] == 4 else "Vhdx_img.cfg"
    sts = [s for s in diskprop.dump_states(ctx, "Vhdx", cfg) if s["img"]["bat"] == img["bat"] and s["img"]["size"] == img["size"]]
    if not sts:
        print("image not in the enumerated set")
        return True
    b = build(sts[0]["img"], d["profile"])
    o, n = d.get("read", [0, min(b.size, 1 << 20)])
    return diskcheck.check_image(ctx, "vhdx", sts[0]["img"], sts[0]["view"], b, random.Random(0), full=False, attrs={},
                                 extra_requests=[(o, n)], sectors_api=_sectors, max_len=d["profile"].get("max_len", 8 << 20))
