"""C20 - vmtar: every member extracts to the bytes stored at its recorded data offset.

Spec: spec/Vmtar.tla (layout of headers / inline data / data area; the reader's cursor rule; AllListed, NeverLost).
A: every TLC-enumerated member list (visor / ustar, directories, sizes 0/1/512/513, inline vs data area, data-area
   order) is written by an independent tar writer (harness/enc_vmtar.py), plain and gzip-wrapped, with long names,
   prefixes and trailing padding, opened with vmtar.open and VisorTarFile; listing and every extraction compared with
   the stored bytes; non-visor archives are also compared with the stock tarfile reader.
B: the committed sample is re-read and re-encoded (round trip)."""
from __future__ import annotations

import gzip
import hashlib
import io
import random
import tarfile

from harness import core, diskprop, enc_vmtar, tlc

LEVEL = "model_checking"


def content(i, size, salt):
    return (hashlib.shake_128(b"member-%d-%d" % (i, salt)).digest(min(size, 64)) * (size // 64 + 1))[:size] if size else b""


def nested_tar(i):
    """A small ordinary tar archive used as member *content* (a reader that keeps scanning past the end-of-archive
    marker would list its members)."""
    out = enc_vmtar.header(f"inner{i}.txt", 5) + b"hello".ljust(512, b"\0") + enc_vmtar.header(f"inner{i}b.txt", 0) + bytes(1024)
    return out


def concretise(ms, rng, variant):
    members = []
    salt = variant.get("salt", 0) + 16 * rng.randrange(1, 1 << 20)   # every archive has its own content: members of the same name in two archives differ
    for i, m in enumerate(ms):
        size = m["size"]
        if variant.get("big") and not m["dir"] and size:
            size = size + rng.choice([0, 4096, 5000, 65536])
        name = f"dir{i}/" if m["dir"] else f"file{i}.bin"
        prefix = ""
        if variant.get("longnames"):
            name = ("d%d/" % i) + "n" * rng.choice([60, 90, 94]) + ("/" if m["dir"] else "")
            if not m["visor"]:
                prefix = "p" * rng.choice([10, 100, 151, 152, 155])  # ustar prefix field (overlaps the visor offset field position)
            elif rng.random() < 0.6:
                prefix = "v" * rng.choice([1, 10, 100, 150])         # a visor member whose path is split over name and prefix (ends before byte 496)
        if variant.get("names"):
            name = (rng.choice(NAME_POOL) % i) + (b"/" if m["dir"] else b"")
        data = content(i, size, salt)
        if variant.get("nested") and not m["dir"] and not m["inline"]:
            data = nested_tar(i)
            size = len(data)
        mm = {"name": name, "visor": m["visor"], "dir": m["dir"], "size": size, "inline": m["inline"], "slot": m["slot"],
              "data": data, "prefix": prefix}
        if variant.get("names") and not m["dir"]:
            mm["hdr"] = {"linkname": rng.choice([b"", b"visor", b"visor  ", b"ustar", b"\xff"])}
        if variant.get("hdrwords") and m["visor"]:
            # header words next to the data offset that do not take part in locating the data
            mm["hdr"] = {"word500": rng.choice([0, 1, 0x1000, 0xFFFFFFFF]), "text_pgs": rng.choice([0, 3, 0xFFFF]), "fixup_pgs": rng.choice([0, 1, 0x10000])}
        if variant.get("typeflags") and not m["dir"]:
            mm["typeflag"] = rng.choice([b"0", b"\0", b"7"])   # the three type flags every tar reader treats as a regular file
        if m.get("ext"):
            # an extension record of m["ext"] blocks (its header + payload) carries the real, long name
            kind = rng.choice(["gnu", "pax"])
            lo, hi = (101, 470) if m["ext"] == 2 else (520, 980)
            ln = rng.randrange(lo, hi)
            stem = f"long{i}/" + "/".join("seg%02d" % (j % 100) + "x" * 40 for j in range(30))
            full = stem[:ln - 1].rstrip("/") + ("/" if m["dir"] else "e")
            mm.update(ext_kind=kind, fullname=full, name=full[:100], prefix="", ext_visor=(m["visor"] and rng.random() < 0.3))
        members.append(mm)
    return members


def _want_names(members):
    def _s(x):   # names are decoded as the standard reader does (UTF-8, undecodable bytes as surrogate escapes)
        return x.decode("utf-8", "surrogateescape") if isinstance(x, bytes) else x
    return [m["fullname"].rstrip("/") if m.get("ext_kind") else (m["prefix"] + "/" if m["prefix"] else "") + _s(m["name"]).rstrip("/") for m in members]


def check_archive(ctx, ms, members, blob, variant, attrs):
    """(scratch files of the real-file modes live in a directory of their own that is removed whatever happens)"""
    import shutil
    import tempfile
    td = tempfile.mkdtemp(prefix="verif-c20-")
    try:
        return _check_archive(ctx, ms, members, blob, variant, attrs, td)
    finally:
        shutil.rmtree(td, ignore_errors=True)


def _check_archive(ctx, ms, members, blob, variant, attrs, td):
    from dissect.hypervisor.util import vmtar

    det = {"members": ms, "variant": variant}
    import os
    import tempfile
    keep = []
    for mode in ("plain", "gzip", "gzip-multi", "class", "path", "gzip-path", "gzip-filehandle"):
        try:
            if mode in ("path", "gzip-path", "gzip-filehandle"):
                # the archive as a real file (its compressed size is what the file system reports), by name and as an open handle
                tf = tempfile.NamedTemporaryFile(dir=td, prefix="a-", suffix=".vgz" if mode != "path" else ".vtar", delete=False)
                tf.write(blob if mode == "path" else gzip.compress(blob))
                tf.close()
                keep.append(tf.name)
                if mode == "gzip-filehandle":
                    fh = open(tf.name, "rb")   # noqa: SIM115
                    keep.append(fh)
                    t = vmtar.open(fileobj=fh)
                else:
                    t = vmtar.open(tf.name)
            elif mode == "plain":
                t = vmtar.open(fileobj=io.BytesIO(blob))
            elif mode == "gzip":
                t = vmtar.open(fileobj=io.BytesIO(gzip.compress(blob)))
            elif mode == "gzip-multi":
                # a gzip file may consist of several members (concatenated streams); it decompresses to their concatenation
                cuts = sorted({0, len(blob)} | {(len(blob) * k // 3) | 1 for k in (1, 2)} if len(blob) > 8 else {0, len(blob)})
                t = vmtar.open(fileobj=io.BytesIO(b"".join(gzip.compress(blob[a:b]) for a, b in zip(cuts, cuts[1:]))))
            else:
                t = vmtar.VisorTarFile(fileobj=io.BytesIO(blob))
            got = t.getmembers()
        except Exception as e:  # noqa: BLE001
            ctx.violation({**attrs, "fail": "open-raised", "mode": mode, "exc": type(e).__name__}, {**det, "error": repr(e)[:300]})
            return False
        want_names = _want_names(members)
        if [g.name for g in got] != want_names:
            ctx.violation({**attrs, "fail": "listing", "mode": mode}, {**det, "want": want_names, "got": [g.name for g in got]})
            return False
        for g, m in zip(got, members):
            if g.isdir() != m["dir"] or (not m["dir"] and g.size != m["size"]):   # (the `is_visor` attribute is not part of the property)
                ctx.violation({**attrs, "fail": "member-meta", "mode": mode}, {**det, "member": repr(m["name"]), "isdir": g.isdir(), "size": g.size})
                return False
            if not m["dir"]:
                try:
                    data = t.extractfile(g).read()
                except Exception as e:  # noqa: BLE001
                    ctx.violation({**attrs, "fail": "extract-raised", "mode": mode, "exc": type(e).__name__}, {**det, "member": repr(m["name"]), "error": repr(e)[:300]})
                    return False
                if data != m["data"]:
                    ctx.violation({**attrs, "fail": "extract-mismatch", "mode": mode}, {**det, "member": repr(m["name"]), "got_len": len(data), "want_len": len(m["data"])})
                    return False
                if want_names.count(g.name) == 1:
                    # looked up by name (as extractall / getmember users do): the same member of *this* archive
                    try:
                        byname = t.extractfile(g.name).read()
                        same = t.getmember(g.name) is g
                    except Exception as e:  # noqa: BLE001
                        ctx.violation({**attrs, "fail": "extract-raised", "mode": mode, "by": "name", "exc": type(e).__name__}, {**det, "member": repr(m["name"]), "error": repr(e)[:300]})
                        return False
                    if byname != m["data"] or not same:
                        ctx.violation({**attrs, "fail": "extract-mismatch", "mode": mode, "by": "name"}, {**det, "member": repr(m["name"]), "got_len": len(byname), "want_len": len(m["data"])})
                        return False
    for k in keep:
        try:
            k.close() if hasattr(k, "close") else os.unlink(k)
        except OSError:
            pass
    for k in keep:
        if isinstance(k, str) and os.path.exists(k):
            os.unlink(k)
    # other ways to go through an archive: iterating it (members are parsed lazily), two archives on one shared raw handle
    # stepped in turn (every access positions the handle first, as the standard reader does)
    from harness.vfile import VirtualFile
    want_names = _want_names(members)
    want_data = [None if m["dir"] else m["data"] for m in members]
    try:
        it_names = [g.name for g in vmtar.open(fileobj=io.BytesIO(blob))]
        raw = VirtualFile(len(blob), [(0, len(blob), "bytes", blob)])
        t1 = vmtar.open(fileobj=raw)
        raw.seek(0)          # (an archive starts where the handle stands when it is opened)
        t2 = vmtar.open(fileobj=raw)
        n1, n2, d1, d2 = [], [], [], []
        while True:
            a, b_ = t1.next(), t2.next()
            if a is None and b_ is None:
                break
            for tt, x, nn, dd in ((t1, a, n1, d1), (t2, b_, n2, d2)):
                if x is not None:
                    nn.append(x.name)
                    dd.append(None if x.isdir() else tt.extractfile(x).read())
    except Exception as e:  # noqa: BLE001
        ctx.violation({**attrs, "fail": "open-raised", "mode": "iteration", "exc": type(e).__name__}, {**det, "error": repr(e)[:300]})
        return False
    if it_names != want_names or n1 != want_names or n2 != want_names:
        ctx.violation({**attrs, "fail": "listing", "mode": "iteration" if it_names != want_names else "shared-raw-handle"}, {**det, "want": want_names, "got": [it_names, n1, n2]})
        return False
    if d1 != want_data or d2 != want_data:
        ctx.violation({**attrs, "fail": "extract-mismatch", "mode": "shared-raw-handle"}, {**det, "want_len": [len(x) if x else x for x in want_data]})
        return False
    # an ordinary tar archive behind other bytes in the same file, handed over as a file object positioned at its start, is
    # read from there (as the standard reader does).  Not done for gzip wrapping: the standard GzipFile rewinds the
    # underlying file to offset 0 on a backward seek, whoever calls it.
    prefix = b"SIGNATURE-BLOCK" + bytes(range(256)) * 3
    embedded = []
    if not any(m["visor"] for m in members):
        embedded.append(("plain-after-prefix", prefix + bytes(-len(prefix) % 512) + blob))
    for mode, data in embedded:
        fh = io.BytesIO(data)
        fh.seek(len(data) - (len(blob) if mode.startswith("plain") else len(gzip.compress(blob))))
        try:
            t = vmtar.open(fileobj=fh)
            got = t.getmembers()
            names = [g.name for g in got]
            datas = [t.extractfile(g).read() if not g.isdir() else None for g in got]
        except Exception as e:  # noqa: BLE001
            ctx.violation({**attrs, "fail": "open-raised", "mode": mode, "exc": type(e).__name__}, {**det, "error": repr(e)[:300]})
            return False
        want_names = _want_names(members)
        if names != want_names or datas != [None if m["dir"] else m["data"] for m in members]:
            ctx.violation({**attrs, "fail": "listing" if names != want_names else "extract-mismatch", "mode": mode}, {**det, "want": want_names, "got": names})
            return False
    if not any(m["visor"] for m in members):
        # ordinary tar: must be listed and extracted exactly as by the standard reader
        std = tarfile.open(fileobj=io.BytesIO(blob))
        v = vmtar.open(fileobj=io.BytesIO(blob))
        a = [(x.name, x.size, x.type, x.mode, x.mtime, x.offset_data) for x in std.getmembers()]
        b = [(x.name, x.size, x.type, x.mode, x.mtime, x.offset_data) for x in v.getmembers()]
        if a != b:
            ctx.violation({**attrs, "fail": "standard-disagrees"}, {**det, "std": a[:4], "vmtar": b[:4]})
            return False
    return True


VARIANTS = [
    {"id": "base", "align": 4096},
    {"id": "odd-align", "align": 512, "gap": 1536, "big": True, "salt": 1},
    {"id": "byte-align", "align": 1, "gap": 7, "salt": 2},
    {"id": "longnames", "align": 4096, "longnames": True, "trailing": 5, "tail": 3000, "salt": 3},
    {"id": "nested-tar-content", "align": 4096, "nested": True, "tail": 2048},
    {"id": "regular-type-flags", "align": 512, "typeflags": True, "salt": 5},
    {"id": "header-words", "align": 512, "gap": 512, "hdrwords": True, "salt": 6},
    {"id": "header-words-unaligned", "align": 1, "gap": 3, "hdrwords": True, "salt": 8},
    {"id": "shared-data", "align": 512, "shared": True, "salt": 7},
    # names that contain the words of the format (the magic strings live elsewhere in the header) or bytes that are not UTF-8, a link
    # name field that is filled in on regular members
    {"id": "names", "align": 512, "names": True, "salt": 9},
]
NAME_POOL = [b"usr/lib/vmware/hypervisor/vmx%d.bin", b"etc/visor%d.conf", b"visor  %d", b"ustar%d", b"ustar  %d", b"caf\xe9-%d.bin", b"\xff\xfe%d", b"na\xc3\xafve %d.txt",
             b"visor%d/visor  /ustar", b"%d visor  "]


def gnu_sparse(ctx):
    """An ordinary tar with an old-style GNU sparse member (type 'S': four (offset, length) pairs in the header, real size behind
    them): listed and extracted exactly as by the standard reader, holes expanded."""
    from dissect.hypervisor.util import vmtar
    chunks = [(512, 700), (4096, 512), (9000, 24)]
    real = 10000
    packed = b"".join(bytes([65 + k]) * ln for k, (_, ln) in enumerate(chunks))
    h = bytearray(enc_vmtar.header("sparse.bin", len(packed), typeflag=b"S"))
    h[257:265] = b"ustar  \0"       # GNU magic
    pos = 386
    for off, ln in chunks + [(0, 0)]:
        h[pos:pos + 24] = ("%011o\0%011o\0" % (off, ln)).encode()
        pos += 24
    h[482] = 0
    h[483:495] = ("%011o\0" % real).encode()
    h[148:156] = b" " * 8
    h[148:156] = ("%06o" % sum(h)).encode() + b"\0 "
    blob = bytes(h) + packed + bytes(-len(packed) % 512) + enc_vmtar.header("after.txt", 5) + b"after".ljust(512, b"\0") + bytes(1024)
    ctx.case(key="gnu-sparse", nontrivial=True)
    try:
        std = tarfile.open(fileobj=io.BytesIO(blob))
        a = [(m.name, m.size, std.extractfile(m).read()) for m in std.getmembers()]
        v = vmtar.open(fileobj=io.BytesIO(blob))
        b = [(m.name, m.size, v.extractfile(m).read()) for m in v.getmembers()]
    except Exception as e:  # noqa: BLE001
        ctx.violation({"variant": "gnu-sparse", "fail": "raised", "exc": type(e).__name__}, {"error": repr(e)[:300]})
        return
    if len(a) != 2 or len(a[0][2]) != real:
        raise core.MachineryError(f"the standard reader does not see the sparse member as intended: {[(x[0], x[1], len(x[2])) for x in a]}")
    if a != b:
        ctx.violation({"variant": "gnu-sparse", "fail": "standard-disagrees"}, {"std": [(x[0], x[1], len(x[2])) for x in a], "vmtar": [(x[0], x[1], len(x[2])) for x in b]})


def huge_offsets(ctx):
    """Member data beyond 2 GiB (the offset field is an unsigned 32-bit byte offset): archive served from a virtual file."""
    from dissect.hypervisor.util import vmtar
    from harness.vfile import VirtualFile

    for base in ((1 << 31) + 4096, (1 << 32) - 65536, (1 << 31) - 8192):
        members = [{"name": "big/", "visor": True, "dir": True, "size": 0, "inline": True, "slot": 1, "data": b"", "prefix": ""},
                   {"name": "big/a.bin", "visor": True, "dir": False, "size": 3000, "inline": False, "slot": 1, "data": content(1, 3000, 9), "prefix": ""},
                   {"name": "big/b.bin", "visor": True, "dir": False, "size": 700, "inline": False, "slot": 2, "data": content(2, 700, 9), "prefix": ""}]
        blob, offs = enc_vmtar.build(members, data_align=4096, data_gap=base)
        # the builder materialises the gap; rebuild as a sparse virtual file instead
        hdr_end = 512 * 5
        ext = [(0, hdr_end, "bytes", blob[:hdr_end])]
        for m in members:
            if not m["inline"]:
                ext.append((offs[id(m)], m["size"], "bytes", m["data"]))
        vf = VirtualFile(max(e[0] + e[1] for e in ext), ext)
        ctx.case(key=("huge", base), nontrivial=True, sample={"variant": "huge-offset", "data_offset": offs[id(members[1])]} if base > (1 << 31) else None)
        try:
            t = vmtar.open(fileobj=vf)
            got = {g.name: (t.extractfile(g).read() if g.isfile() else None) for g in t.getmembers()}
        except Exception as e:  # noqa: BLE001
            ctx.violation({"variant": "huge-offset", "fail": "raised", "exc": type(e).__name__}, {"base": base, "error": repr(e)[:300]})
            continue
        want = {"big": None, "big/a.bin": members[1]["data"], "big/b.bin": members[2]["data"]}
        if got != want:
            ctx.violation({"variant": "huge-offset", "fail": "extract-mismatch"}, {"base": base, "got": {k: (len(v) if v else v) for k, v in got.items()}})


def run(ctx):
    thorough = ctx.tier == "thorough"
    ctx.rule = ("every member list enumerated by TLC from spec/Vmtar.tla (<= 3-4 members; visor/ustar, dir, size class, inline vs data "
                "area, data-area order) x layout variants (data alignment 4096 / 512 / 1, gaps, long names + ustar prefixes, trailing "
                "padding) x {plain, gzip, multi-member gzip, VisorTarFile}; non-trivial = archive with a visor member whose data is in the data area or an "
                "interleaving of visor and ustar members; distinct by (member list, variant)")
    ctx.assumptions = ["CPython's tarfile is the 'standard tar reader'", "independent header writer harness/enc_vmtar.py"]
    diskprop.tlc_check(ctx, "Vmtar", "Vmtar_small.cfg", min_states=1000, need_actions=("Step",))
    sts = diskprop.dump_states(ctx, "Vmtar", "Vmtar_img4.cfg" if thorough else "Vmtar_img.cfg")
    if thorough:
        sts = sts + diskprop.dump_states(ctx, "Vmtar", "Vmtar_img3x.cfg")

    def work(sub, chunk, idx):
        rng = random.Random(ctx.seed * 2020 + idx)
        for st in chunk:
            ms = st["members"]
            ms = [dict(m) for m in (ms if isinstance(ms, list) else [ms[k] for k in sorted(ms)])]
            for var in VARIANTS:
                if var["id"] != "base" and rng.random() < (0.3 if thorough else 0.6):
                    continue
                members = concretise(ms, rng, var)
                if var.get("shared"):
                    # a visor member whose recorded offset points into bytes stored earlier in the archive (the inline data of a
                    # preceding member): its data lies in front of its own header
                    for a, first in enumerate(members):
                        if first["inline"] and first["size"] >= 2 and not first["dir"]:
                            hoff = sum(len(enc_vmtar.ext_record(x)) + 512 * (1 + (-(-x["size"] // 512) if x["inline"] else 0)) for x in members[:a]) \
                                + len(enc_vmtar.ext_record(first))
                            for later in members[a + 1:]:
                                if later["visor"] and not later["inline"] and later["size"]:
                                    n_ = min(later["size"], first["size"] - 1)
                                    later.update(size=n_, abs_offset=hoff + 512 + 1, data=first["data"][1:1 + n_])
                            break
                blob, _ = enc_vmtar.build(members, data_align=var["align"], data_gap=var.get("gap", 0),
                                          trailing_blocks=var.get("trailing", 2), extra_tail=bytes(var.get("tail", 0)))
                nt = any(m["visor"] and not m["inline"] for m in ms) or len({m["visor"] for m in ms}) > 1
                sub.case(key=(repr(ms), var["id"]), nontrivial=nt,
                         sample={"members": ms, "variant": var["id"], "archive_bytes": len(blob)} if nt and idx == 0 else None)
                check_archive(sub, ms, members, blob, var["id"], {"variant": var["id"], "nmembers": len(ms)})
                if len(sub.violations) >= sub.max_violations:
                    return

    core.parallel(ctx, work, sts)
    sample_roundtrip(ctx)
    huge_offsets(ctx)
    gnu_sparse(ctx)
    random_archives(ctx, random.Random(ctx.seed + 2020), 300 if thorough else 60)


def random_archives(ctx, rng, n):
    """B: random larger archives (up to 12 members); the listing (order, header offsets) of the real reader is recorded and
    validated by TLC against the layout the specification derives (Vmtar!TraceSpec); contents are compared in Python."""
    from dissect.hypervisor.util import vmtar
    from harness import tracecheck
    runs = []
    for tid in range(1, n + 1):
        k = rng.randrange(3, 13)
        ms = []
        for i in range(k):
            d = rng.random() < 0.15
            visor = rng.random() < 0.7
            size = 0 if d else rng.choice([0, 1, 511, 512, 513, 1024, 3000, 70000])
            inline = d or size == 0 or not visor or rng.random() < 0.2
            ms.append({"visor": visor, "dir": d, "size": size, "inline": inline, "slot": 1, "ext": rng.choice([0, 0, 0, 2, 3])})
        ext = [m for m in ms if not m["inline"]]
        order = list(range(1, len(ext) + 1))
        rng.shuffle(order)
        for m, sl in zip(ext, order):
            m["slot"] = sl
        members = concretise(ms, rng, {"salt": tid})
        blob, _ = enc_vmtar.build(members, data_align=rng.choice([4096, 512, 1]), data_gap=rng.choice([0, 7, 1536]))
        try:
            t = vmtar.open(fileobj=io.BytesIO(blob))
            got = t.getmembers()
            listed = []
            for g in got:
                idx = next((i + 1 for i, m in enumerate(members) if m.get("fullname", m["name"]).rstrip("/") == g.name), 0)
                listed.append([idx, g.offset])
                if g.isfile() and idx and t.extractfile(g).read() != members[idx - 1]["data"]:
                    ctx.violation({"variant": "random-archives", "fail": "extract-mismatch"}, {"members": ms, "member": g.name})
        except Exception as e:  # noqa: BLE001
            ctx.violation({"variant": "random-archives", "fail": "raised", "exc": type(e).__name__}, {"members": ms, "error": repr(e)[:200]})
            continue
        ctx.case(key=("random", repr(ms)), nontrivial=True)
        runs.append({"tid": tid, "members": ms, "listed": listed})
    if runs:
        verdicts, res = tracecheck.validate("Vmtar", "TraceVmtar.cfg", runs)
        ctx.add_tlc("TraceVmtar.cfg (random archives)", res)
        for r in runs:
            ctx.traces_validated += 1
            if verdicts[r["tid"]][0] == "reject":
                ctx.violation({"variant": "random-archives", "fail": "listing"}, {"members": r["members"], "listed": r["listed"]})


def _sample_roundtrip_body(ctx):
    """B: the committed fixture is read with the real reader, its members re-encoded by the independent writer and re-read."""
    import os
    from dissect.hypervisor.util import vmtar

    p = os.path.join(core.repo_path(), "tests", "data", "test.vgz")
    if not os.path.exists(p):
        return
    t = vmtar.open(p)
    mem = []
    for k, g in enumerate(t.getmembers()):
        data = t.extractfile(g).read() if g.isfile() else b""
        mem.append({"name": g.name + ("/" if g.isdir() else ""), "visor": True, "dir": g.isdir(), "size": len(data), "inline": g.isdir() or not data,
                    "slot": k + 1, "data": data, "prefix": ""})
    ext = [m for m in mem if not m["inline"]]
    for k, m in enumerate(ext):
        m["slot"] = k + 1
    blob, _ = enc_vmtar.build(mem)
    ms = [{"visor": True, "dir": m["dir"], "size": m["size"], "inline": m["inline"], "slot": m["slot"]} for m in mem]
    ctx.case(key="fixture-roundtrip", nontrivial=True)
    check_archive(ctx, ms, mem, blob, "fixture-roundtrip", {"variant": "fixture-roundtrip"})
    ctx.traces_validated += 1


def replay(ctx, body):
    ctx.quiet = True
    d = body["detail"]
    if d.get("kind") == "tlc":
        r = tlc.run(d["module"], d["cfg"])
        print(r.output[-2000:])
        return not r.violated
    ms = d["members"]
    rng = random.Random(0)
    ok = True
    for var in VARIANTS:
        members = concretise(ms, rng, var)
        blob, _ = enc_vmtar.build(members, data_align=var["align"], data_gap=var.get("gap", 0), trailing_blocks=var.get("trailing", 2),
                                  extra_tail=bytes(var.get("tail", 0)))
        ok = check_archive(ctx, ms, members, blob, var["id"], {"variant": var["id"]}) and ok
    return ok


def sample_roundtrip(ctx):
    try:
        _sample_roundtrip_body(ctx)
    except core.MachineryError:
        raise
    except Exception as e:  # noqa: BLE001  (the code under test raised on the committed sample)
        import traceback
        ctx.violation({"fail": "fixture-raised", "sub": "fixture", "exc": type(e).__name__}, {"error": repr(e)[:300], "tb": traceback.format_exc()[-1200:]})
