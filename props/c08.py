"""C08 - a disk stream behaves as an immutable byte array under any access history.

Spec: spec/Stream.tla - the buffered layer (AlignedStream's three-part read) over an abstract back-end with the contract
"Backend(o, len) = View[o .. min(o+len, Size))"; TLC checks ReadCorrect / PosAdvance / BufCoherent for all histories
up to a bounded depth (exhaustive) and by simulation to depth 40.
A: simulated behaviours (seek/read/peek/readoffset/sector reads incl. length 0, -1, past-the-end, negative seeks) are
   replayed on every stream class (QCow2, VMDK, VHDX, VHD, VDI, HDS, StorageStream) over TLC-enumerated images, with
   the stream buffer smaller than / equal to / larger than the allocation unit; result and tell() compared after each
   action with the specification's state.
B: long random histories on cache-overflowing images (> 128 L2 / grain tables, > 4096 BAT entries) and every buffer
   size are recorded from the real objects and validated by TraceDisk (position arithmetic + content per event);
   the recorded back-end calls are checked against the Backend contract."""
from __future__ import annotations

import glob
import importlib
import os
import random
import subprocess
import sys
import traceback

from harness import core, disk, diskcheck, diskprop, record, tlaparse, tlc, tracecheck

LEVEL = "model_checking"

FORMATS = {
    # fmt: (props module, spec module, dump cfg, profile, wanted size in cells, sectors api)
    "vdi": ("c05", "Vdi", "Vdi_img.cfg", {"block_size": 4096}, 6),
    "vhd": ("c04", "Vhd", "Vhd_img.cfg", {"block_size": 4096}, 6),
    "hds": ("c06", "Hds", "Hds_img.cfg", {"cluster_size": 4096}, 6),
    "vhdx": ("c03", "Vhdx", "Vhdx_img.cfg", {"block_size": 1 << 20, "sector": 512, "k": 1}, 6),
    "vmdk": ("c02", "Vmdk", "Vmdk_img.cfg", {"variant": "hosted", "grain": 8, "gtes": 4, "K": 2}, 8),
    "qcow2": ("c01", "Qcow2", "Qcow2_img.cfg", {"cb": 9, "K": 32}, 8),
}
SIM_CFGS = {6: [("Stream_sim12a2", 12, 2), ("Stream_sim12a4", 12, 4), ("Stream_sim12a8", 12, 8)],
            8: [("Stream_sim16a2", 16, 2), ("Stream_sim16a4", 16, 4), ("Stream_sim16a8", 16, 8)]}


def _size_of(img):
    return img.get("size", img.get("cap"))


def simulate(ctx, cfg, num, depth, seed):
    work = tlc.scratch_dir("sim-")
    r = tlc.run("Stream", cfg + ".cfg", workers=1, simulate=f"file={work}/tr,num={num}", depth=depth, seed=seed, keep_dir=work)
    if r.violated:
        ctx.spec_violation("Stream", cfg + ".cfg", r)
    behs = []
    for f in sorted(glob.glob(work + "/tr*")):
        b = tlaparse.parse_sim_file(f)
        behs.append([s["last"] for _, s in b] if b else [])
        behs[-1] = [(x, st["st"]["pos"]) for x, (_, st) in zip(behs[-1], b)]
    tlc.cleanup(work)
    ctx.extra["behaviours_simulated"] = ctx.extra.get("behaviours_simulated", 0) + len(behs)
    return behs


def replay_behaviour(sub, fmt, img, view, built, beh, c, align_units, sectors_api):
    """One TLC behaviour on one real stream; compare after every action."""
    a = {"format": fmt, "align": align_units * c, "cell": built.cell, "mode": "A"}
    det = {"format": fmt, "img": img, "profile": built.note, "align": align_units * c, "unit": c}
    try:
        s = built.open()
        s.align = align_units * c
    except Exception as e:  # noqa: BLE001
        sub.violation({**a, "fail": "open-raised"}, {**det, "error": repr(e)[:300]})
        return False
    spu = 2 * c // built.sector  # real sectors per abstract sector (Sector = 2 units = one cell)
    for idx, (rec, pos_after) in enumerate(beh):
        op = rec["op"]
        if op == "open":
            continue
        sub.case(key=(fmt, align_units * c, repr(img), idx, repr(rec["op"]), rec["a"], rec["b"]), nontrivial=len(rec["res"]) > 0,
                 sample={"format": fmt, "align": align_units * c, "op": op, "a": rec["a"], "b": rec["b"], "units": len(rec["res"]), "unit_bytes": c}
                 if idx == 3 else None)
        try:
            exp = disk.expected(view, rec["res"][0] * c, len(rec["res"]) * c, built) if rec["res"] else b""
            if op == "seek":
                s.seek(rec["b"] * c, rec["a"])
                got = b""
            elif op == "read":
                got = s.read(rec["a"] * c if rec["a"] >= 0 else -1)
            elif op == "peek":
                got = s.peek(rec["a"] * c)
            elif op == "readoffset":
                got = s.readoffset(rec["a"] * c, rec["b"] * c)
            elif op == "sectors":
                if sectors_api is None:
                    continue
                got = sectors_api(s, rec["a"] * spu, rec["b"] * spu)
            else:
                raise core.MachineryError(f"unknown op {op}")
            pos = s.tell()
        except core.MachineryError:
            raise
        except Exception as e:  # noqa: BLE001
            sub.violation({**a, "fail": "op-raised", "op": op, "exc": type(e).__name__},
                          {**det, "step": idx, "rec": rec, "error": repr(e)[:300], "tb": traceback.format_exc()[-1200:]})
            return False
        if got != exp or pos != pos_after * c:
            sub.violation({**a, "fail": "mismatch", "op": op},
                          {**det, "step": idx, "rec": {k: rec[k] for k in ("op", "pos0", "a", "b")}, "history": [x[0]["op"] for x in beh[:idx]],
                           "diff": disk.first_diff(exp, got), "pos": pos, "expected_pos": pos_after * c})
            return False
    return True


def behaviours(ctx, thorough):
    behs = {}
    for size, cfgs in SIM_CFGS.items():
        for cfg, S, A in cfgs:
            behs[(size, A)] = simulate(ctx, cfg, 40 if thorough else 12, 40 if thorough else 24, ctx.seed * 31 + A + size)
    return behs


def compressed_boundary(ctx, behs, thorough):
    """TLC behaviours on stream-optimised VMDKs whose compressed grain records have every size around the 512-byte sector
    boundary (the reader decides from the record size whether to fetch continuation sectors), buffer = 1/2, 1, 2 grains."""
    from harness import patterns
    c02 = importlib.import_module("props.c02")
    rng = random.Random(ctx.seed + 909)
    items = list(c02.boundary_images(rng, list(range(498, 530)) if thorough else list(range(503, 521)), ncells=6))

    def work(sub, chunk, idx):
        for total, lba, vf, exp, noise, ents in chunk:
            gb = 4096
            view = [{"k": k if k == "D" else "Z", "f": 0, "c": q} for k, q in ents]
            b = disk.Built(open=lambda vf=vf: c02._open_vmdk(vf), cell=gb, size=len(exp), bases={0: 0},
                           note={"variant": "stream", "record_bytes": total, "embedded_lba": lba},
                           tok_bytes=lambda tok, a, n, noise=noise: patterns.npat(tok["c"], noise[tok["c"]], a, n) if tok["k"] == "D" else None)
            for A in (2, 4, 8):
                for beh in behs[(6, A)][: (None if thorough else 4)]:
                    ok = replay_behaviour(sub, "vmdk", {"stream_record_bytes": total, "lba": lba}, view, b, beh, gb // 2, A, c02._sectors)
                    sub.extra["behaviours_replayed"] = sub.extra.get("behaviours_replayed", 0) + 1
                    if not ok:
                        break

    core.parallel(ctx, work, items)


def direction_A(ctx, behs, thorough):
    rng = random.Random(ctx.seed + 808)
    work_items = []
    for fmt, (pm, module, cfg, prof, cells) in FORMATS.items():
        sts = [s for s in diskprop.dump_states(ctx, module, cfg) if _size_of(s["img"]) == cells and not s["img"].get("parent")
               and s["img"].get("back", -1) in (-1,) and not s["img"].get("datafile")]
        inter = [s for s in sts if disk.view_features(disk.norm_view(s["view"]))["discontinuous"]]
        picks = rng.sample(inter, min(len(inter), 24 if thorough else 8))
        for st in picks:
            for A in (2, 4, 8):
                work_items.append((fmt, st, cells, A))

    def work(sub, chunk, idx):
        for fmt, st, cells, A in chunk:
            pm, module, cfg, prof, _ = FORMATS[fmt]
            mod = importlib.import_module(f"props.{pm}")
            b = mod.build(st["img"], dict(prof))
            if b is None:
                continue
            view = disk.norm_view(st["view"])
            c = b.cell // 2
            sapi = getattr(mod, "_sectors", None)
            for beh in behs[(cells, A)]:
                replay_behaviour(sub, fmt, st["img"], view, b, beh, c, A, sapi)
                sub.extra["behaviours_replayed"] = sub.extra.get("behaviours_replayed", 0) + 1
                if len(sub.violations) >= sub.max_violations:
                    return

    core.parallel(ctx, work, work_items)


ALIGNS = [512, 4096, 8192, 65536, 1 << 20]


def direction_B(ctx, thorough):
    """Long random histories at real geometry, all buffer sizes, cache-overflowing images; validated by TraceDisk."""
    mods = {f: importlib.import_module(f"props.{pm}") for f, (pm, *_r) in FORMATS.items()}
    plan = []
    tid = 0
    for fmt in FORMATS:
        for al in ALIGNS:
            if fmt == "vhdx" and al < 512:
                continue
            for rep in range(3 if thorough else 1):
                tid += 1
                plan.append((tid, fmt, al, False))
        if fmt in ("vhd", "vmdk", "qcow2"):
            for al in ((4096, 65536) if not thorough else (512, 8192, 1 << 20)):
                tid += 1
                plan.append((tid, fmt, al, True))
        if fmt == "qcow2":   # images whose guest clusters live in an external data file (with and without the name extension)
            for al in (512, 8192, 65536):
                tid += 1
                plan.append((tid, "qcow2-datafile", al, False))
    # StorageStream (Parallels storages stitched together) at every buffer size
    c10 = importlib.import_module("props.c10")
    for al in ALIGNS:
        tid += 1
        plan.append((tid, "storage", al, False))
        tid += 1
        plan.append((tid, "storage-snapshots", al, False))   # every storage holds a chain of snapshot images; several opens on one HDD object
    # layer chains (VHDX partially-present blocks with per-sector bitmaps, QCOW2 sub-cluster bitmaps, VDI parents): the
    # buffered layer's aligned offsets then start at every bit position of the bitmap bytes
    c07 = importlib.import_module("props.c07")
    chain_makers = {"chain-vhdx": c07.trace_vhdx_chain, "chain-qcow2": c07.trace_qcow2_chain, "chain-vdi": c07.trace_vdi_chain}
    for fmt, als in (("chain-vhdx", [512, 1536, 2560, 4096, 65536]), ("chain-qcow2", [512, 4096, 65536]), ("chain-vdi", [512, 8192])):
        for al in als:
            for rep in range(3 if thorough else 1):
                tid += 1
                plan.append((tid, fmt, al, False))
    # several extents behind one VMDK object (handles or descriptor, with and without a parent)
    for al in ((512, 8192, 65536, 4096) if not thorough else (512, 4096, 8192, 65536, 1 << 20, 1536)):
        tid += 1
        plan.append((tid, "vmdk-extents", al, False))
    byid = {t[0]: t for t in plan}

    def mk(tid, rng):
        _, fmt, al, many = byid[tid]
        if fmt == "vmdk-extents":
            t = c10.make_trace(tid, rng, 60 if thorough else 30, align=al, delta=(tid % 2 == 0))
            t["align"], t["many"] = al, False
            return t
        if fmt in chain_makers:
            t = chain_makers[fmt](tid, rng, 60 if thorough else 40, align=al)
            t["align"], t["many"] = al, False
            return t
        if fmt in ("storage", "storage-snapshots"):
            t = c10.make_trace_hdd(tid, rng, 60 if thorough else 30, align=al, deep=(fmt == "storage-snapshots"))
            t["align"], t["many"] = al, False
            return t
        if fmt == "qcow2-datafile":
            t = mods["qcow2"].make_trace(tid, rng, 60 if thorough else 30, align=al, datafile=True)
            t["align"], t["many"] = al, False
            return t
        m = mods[fmt]
        if fmt == "vhdx" and al % 4096:
            al = 4096  # the image may use 4096-byte sectors; the buffer must be a multiple of the sector size
        t = m.make_trace(tid, rng, (300 if many else 60) if thorough else (160 if many else 30), align=al, many=many)
        t["align"] = al
        t["many"] = many
        return t

    return diskprop.traces(ctx, "stream", mk, len(plan), "TraceDisk", "TraceDisk.cfg",
                           lambda t: {"format": t.get("kind", t["fmt"]) + ("-chain" if t["fmt"] == "chain" else ""), "align": t.get("align"), "many": t.get("many"), "mode": "B"},
                           label="histories x buffer sizes x cache overflow")


def backend_contract(ctx, thorough):
    """Record every _read(offset, length) the buffered layer issues during random histories and check the contract:
    the first min(length, size - offset) bytes are the guest bytes at offset (aligned offset, any length)."""
    rng = random.Random(ctx.seed + 4242)
    n = 0
    for fmt, (pm, module, cfg, prof, cells) in FORMATS.items():
        mod = importlib.import_module(f"props.{pm}")
        sts = [s for s in diskprop.dump_states(ctx, module, cfg) if _size_of(s["img"]) == cells and not s["img"].get("parent")
               and s["img"].get("back", -1) == -1 and not s["img"].get("datafile")]
        for st in rng.sample(sts, min(len(sts), 12 if thorough else 4)):
            b = mod.build(st["img"], dict(prof))
            if b is None:
                continue
            view = disk.norm_view(st["view"])
            s = b.open()
            calls = []
            orig = s._read

            def spy(offset, length, orig=orig, calls=calls):
                r = orig(offset, length)
                calls.append((offset, length, r))
                return r

            s._read = spy
            s.align = rng.choice([512, 4096, 8192, 32768])
            try:
                for _ in range(30):
                    s.seek(rng.randrange(0, b.size + 1))
                    s.read(rng.choice([1, 511, 4096, 5000, b.size, -1]))
            except Exception as e:  # noqa: BLE001
                ctx.violation({"format": fmt, "fail": "op-raised", "mode": "contract", "exc": type(e).__name__},
                              {"format": fmt, "img": st["img"], "error": repr(e)[:300], "tb": traceback.format_exc()[-1200:]})
                continue
            for (o, ln, r) in calls:
                n += 1
                want = disk.expected(view, o, ln, b)
                ctx.case(key=("contract", fmt, o, ln, repr(st["img"])), nontrivial=o + ln > b.size)
                if o % s.align or bytes(r[: len(want)]) != want or len(r) < len(want):
                    ctx.violation({"format": fmt, "fail": "backend-contract", "mode": "contract"},
                                  {"format": fmt, "img": st["img"], "profile": b.note, "call": [o, ln], "align": s.align,
                                   "returned": len(r), "wanted": len(want), "diff": disk.first_diff(want, bytes(r[: len(want)]))})
                    break
    ctx.extra["backend_calls_checked"] = n


def vhdx_bat_cache_overflow(ctx, thorough):
    """> 4096 BAT entries need a > 4 GiB disk, beyond TLC's 32-bit integers: compared in Python against the
    specification-independent expected bytes (reported separately; not trace-validated)."""
    from harness import enc_vhdx
    c03 = importlib.import_module("props.c03")
    rng = random.Random(ctx.seed + 77)
    n = 4500
    pos = list(range(n))
    rng.shuffle(pos)
    blocks = [(6, pos[i]) if rng.random() < 0.7 else (rng.choice([0, 2, 3]), None) for i in range(n)]
    bs = 1 << 20
    vf, info = enc_vhdx.build(blocks, block_size=bs, sector_size=512, disk_size=n * bs)
    s = c03._open(vf)
    view = [{"k": "D", "f": 0, "c": p} if st == 6 else {"k": "Z", "f": 0, "c": 0} for st, p in blocks]
    b = disk.Built(open=None, cell=bs, size=n * bs, bases={0: info["data_base"]})
    order = list(range(n))
    rng.shuffle(order)
    bad = 0
    for rnd in range(2):
        for blk in order[: (n if thorough else 4300)]:
            o = blk * bs + rng.choice([0, 512, bs - 4096])
            s.seek(o)
            got = s.read(4096)
            ctx.case()
            if got != disk.expected(view, o, 4096, b):
                bad += 1
                ctx.violation({"format": "vhdx", "fail": "mismatch", "mode": "bat-cache-overflow"},
                              {"format": "vhdx", "block": blk, "offset": o, "round": rnd})
                return
    ctx.extra["vhdx_bat_cache_info"] = str(s.bat.get.cache_info())


def env_buffer_sizes(ctx, thorough):
    """DISSECT_STREAM_BUFFER_SIZE is read when dissect.util.stream is imported: one subprocess per value."""
    vals = [512, 65536, 1 << 20] if not thorough else [512, 1024, 4096, 65536, 1 << 20, 3 * 512]
    for v in vals:
        env = dict(os.environ, DISSECT_STREAM_BUFFER_SIZE=str(v), VERIF_SEED=str(ctx.seed), PYTHONDONTWRITEBYTECODE="1")
        p = subprocess.run([sys.executable, os.path.join(core.ROOT, "props", "c08_env.py"), str(v)], env=env, capture_output=True, text=True, timeout=600)
        ctx.case(key=("env", v), nontrivial=True)
        if p.returncode != 0:
            ctx.violation({"fail": "env-buffer", "align": v, "mode": "env"}, {"align": v, "stdout": p.stdout[-1500:], "stderr": p.stderr[-1500:]})
    ctx.extra["env_buffer_sizes"] = vals


def run(ctx):
    thorough = ctx.tier == "thorough"
    ctx.rule = ("exhaustive: all histories of seek/read/peek/readoffset/sector-read up to depth 3-4 over Size 8..13, Align 4/8 in "
                "spec/Stream.tla; A: TLC-simulated histories (depth 24-40) replayed on 6 stream classes over TLC-enumerated images with "
                "buffer = 1/2, 1 and 2 allocation units; B: random histories at real geometry x buffer sizes {512, 4 KiB, 8 KiB, 64 KiB, "
                "1 MiB} x cache-overflowing images, validated by TraceDisk; back-end calls checked against the Backend contract; "
                "DISSECT_STREAM_BUFFER_SIZE in subprocesses. Non-trivial = an operation that returns data (distinct by format, "
                "buffer, image, step).")
    ctx.assumptions = ["dissect.util.stream.AlignedStream is modelled by Stream.tla and observed like the rest (a defect in it would be "
                       "reported, not repaired here)", "setting stream.align before the first read is equivalent to DISSECT_STREAM_BUFFER_SIZE "
                       "(checked separately in subprocesses)"]
    import shutil
    cache = tlc.scratch_dir("dumpcache-")
    os.environ["VERIF_DUMP_CACHE"] = cache
    try:
        for cfg in (["Stream_small", "Stream_b", "Stream_c"] if thorough else ["Stream_small", "Stream_c"]):
            diskprop.tlc_check(ctx, "Stream", cfg + ".cfg", min_states=1000, need_actions=("Next",))
        behs = behaviours(ctx, thorough)
        direction_A(ctx, behs, thorough)
        compressed_boundary(ctx, behs, thorough)
        backend_contract(ctx, thorough)
        direction_B(ctx, thorough)
        vhdx_bat_cache_overflow(ctx, thorough)
        # the views of internal QCOW2 snapshots are streams derived from the active image's stream object: histories that
        # interleave the active image and its snapshot views (buffered state must not leak from one to the other)
        importlib.import_module("props.c07").qcow2_snapshots(ctx, random.Random(ctx.seed + 88), 24 if thorough else 8)
        env_buffer_sizes(ctx, thorough)
    finally:
        os.environ.pop("VERIF_DUMP_CACHE", None)
        shutil.rmtree(cache, ignore_errors=True)


def replay(ctx, body):
    ctx.quiet = True
    d = body["detail"]
    if d.get("kind") == "tlc":
        r = tlc.run(d["module"], d["cfg"])
        print(r.output[-2000:])
        return not r.violated
    print("re-running the C08 quick tier with the recorded seed")
    ctx.seed = body["seed"]
    run(ctx)
    return not ctx.violations
