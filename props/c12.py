"""C12 - foreign or unsupported inputs are refused, not misread.

Spec: spec/Gates.tla (per parser a chain of gates in code order; AcceptImpliesSupported, RejectBeforeServe,
RejectNamesFirstBadGate) - TLC enumerates every feature vector with at most two bad gates.
A: every vector is realised on an otherwise valid input built by the encoders and opened by the real parser; the
   all-ok vector must open and serve data; every single-gate fault is expanded to every concrete value of its class
   (every single-bit flip of each magic, version numbers 0..8 and extremes, cluster_bits 0..63 and 255, every
   single-bit crypt_method, other image types / cipher names / keystore modes / locator kinds)."""
from __future__ import annotations

import io
import os
import random
import shutil
import struct
import tempfile
import uuid
from pathlib import Path

from harness import core, diskprop, enc_envelope, enc_hds, enc_hyperv, enc_qcow2, enc_vdi, enc_vhdx, enc_vmdk, enc_vmx, tlaparse, tlc

LEVEL = "model_checking"


def flips(off, nbytes):
    """patches flipping every single bit of bytes [off, off+nbytes)"""
    out = []
    for i in range(nbytes):
        for bit in range(8):
            out.append(("flip", off + i, 1 << bit))
    return out


def setv(off, fmt, vals):
    return [("set", off, struct.pack(fmt, v)) for v in vals]


def patch(blob, p):
    b = bytearray(blob)
    if p[0] == "flip":
        b[p[1]] ^= p[2]
    elif p[0] == "set":
        b[p[1]:p[1] + len(p[2])] = p[2]
    return bytes(b)


class Parser:
    name = ""

    def gates(self):
        raise NotImplementedError

    def open(self, variants):
        """variants: {gate: variant}; returns nothing, raises to refuse; must touch data when it accepts"""
        raise NotImplementedError


# ------------------------------------------------------------------------------------------------ QCOW2
class Qcow2(Parser):
    name = "qcow2"

    def __init__(self):
        l2 = {0: {"t": "N", "h": 1, "sub": []}, 1: {"t": "ZP", "h": 0, "sub": []}}
        self.img = {"ext": False, "datafile": False, "l2n": 64, "s": 1, "l1": {0: True}, "l2": l2, "back": -1, "size": 2}
        vf, _, _ = enc_qcow2.build(self.img, cluster_bits=9, K=1, header_length=112)
        self.base = vf.peek_bytes(0, vf.size())
        imgb = dict(self.img, back=2)
        vf, _, _ = enc_qcow2.build(imgb, cluster_bits=9, K=1, header_length=112)
        self.with_backing = vf.peek_bytes(0, vf.size())

    def gates(self):
        return {
            "magic": flips(0, 4),
            "version": setv(4, ">I", [0, 1, 4, 5, 6, 7, 8, 0xFFFFFFFF, 0x00010002, 0x02000000, 0x80000003]),
            "cluster_bits": setv(20, ">I", list(range(0, 9)) + list(range(22, 64)) + [255, 0x80000009, 0xFFFFFFFF]),
            # extended L2 (incompatible bit 4) with clusters smaller than 16 KiB: sub-clusters below 512 bytes
            "subcluster_size": [("ext", cb) for cb in (9, 10, 11, 12, 13)],
            "crypt_method": setv(32, ">I", [1, 2, 3] + [1 << k for k in range(2, 32)]),
            "compression": [("set", 104, b"\x01")],          # zstd, module not installed
            "data_file": [("flagbit", 4)],                    # incompatible bit 2 without a data file
            "backing_file": [("backing",)],                   # backing file name present, none supplied
        }

    def open(self, variants):
        from dissect.hypervisor.disk.qcow2 import QCow2
        blob = self.with_backing if "backing_file" in variants else self.base
        for g, v in variants.items():
            if g == "subcluster_size":
                b = bytearray(blob)
                b[20:24] = struct.pack(">I", v[1])
                b[72:80] = struct.pack(">Q", struct.unpack(">Q", b[72:80])[0] | 16)
                blob = bytes(b)
            elif g == "data_file":
                b = bytearray(blob)
                b[72:80] = struct.pack(">Q", struct.unpack(">Q", b[72:80])[0] | 4)
                blob = bytes(b)
            elif g == "backing_file":
                pass
            else:
                blob = patch(blob, v)
        q = QCow2(io.BytesIO(blob))
        data = q.read(1024)
        if len(data) != 1024:
            raise AssertionError("short")


# ------------------------------------------------------------------------------------------------ VHDX
class Vhdx(Parser):
    name = "vhdx"

    def __init__(self, work):
        self.work = work

    def gates(self):
        K64, MB = 65536, 1 << 20
        return {
            "file_identifier": [("sig", "file", x) for x in self._sigflips(b"vhdxfile")],
            "header_signature": [("sig", "head2", x) for x in self._sigflips(b"head")],     # header 2 is the active one (higher sequence number)
            "region_signature_1": [("sig", "regi1", x) for x in self._sigflips(b"regi")],
            "region_signature_2": [("sig", "regi2", x) for x in self._sigflips(b"regi")],
            "metadata_region": [("omit_region", enc_vhdx.G_META)],
            "metadata_signature": [("sig", "metadata", x) for x in self._sigflips(b"metadata")],
            "required_item": [("omit_item", g) for g in (enc_vhdx.G_FILE_PARAMS, enc_vhdx.G_DISK_SIZE, enc_vhdx.G_LSS, enc_vhdx.G_DISK_ID)],
            # an item this reader does not know, flagged IsRequired (0x4), alone or with IsUser (0x1) / IsVirtualDisk (0x2)
            "unknown_required_item": [("unknown_item", uuid.UUID(int=g), fl) for g in (0xDEADBEEF, enc_vhdx.G_DISK_SIZE.int ^ 1) for fl in (0x4, 0x5, 0x6, 0x7)],
            "locator_type": [("locator_type", uuid.UUID(int=k)) for k in (0, 1, enc_vhdx.G_VHDX_LOCATOR.int ^ 1, enc_vhdx.G_VHDX_LOCATOR.int ^ (1 << 127))],
            # the parent cannot be located: not on disk, or the child was handed over as an anonymous stream (no directory to look in)
            # ... or it was there when the same child was opened a moment ago and has since been removed / replaced by something else
            "parent_resolved": [("missing_parent",), ("anonymous_handle", "bytesio"), ("anonymous_handle", "buffered"),
                                ("parent_gone_after_open", "removed"), ("parent_gone_after_open", "not-a-vhdx"), ("parent_gone_after_open", "empty")],
            "bat_region": [("omit_region", enc_vhdx.G_BAT)],
        }

    @staticmethod
    def _sigflips(sig):
        out = []
        for i in range(len(sig)):
            for bit in range(8):
                b = bytearray(sig)
                b[i] ^= 1 << bit
                out.append(bytes(b))
        return out

    def open(self, variants):
        from dissect.hypervisor.disk.vhdx import VHDX
        sigs, omit_r, omit_i, extra, anon = {}, [], [], [], None
        has_parent = "locator_type" in variants or "parent_resolved" in variants
        ltype = enc_vhdx.G_VHDX_LOCATOR
        parent_exists = has_parent
        for g, v in variants.items():
            if v[0] == "sig":
                sigs[v[1]] = v[2]
            elif v[0] == "omit_region":
                omit_r.append(v[1])
            elif v[0] == "omit_item":
                omit_i.append(v[1])
            elif v[0] == "locator_type":
                ltype = v[1]
            elif v[0] == "unknown_item":
                extra.append((v[1], b"\x11" * 16, v[2]))
            elif v[0] == "missing_parent":
                parent_exists = False
            elif v[0] == "anonymous_handle":
                anon = v[1]
        gone = next((v[1] for v in variants.values() if v[0] == "parent_gone_after_open"), None)
        d = tempfile.mkdtemp(prefix="c12-vhdx-", dir=self.work)
        try:
            loc = {"parent_linkage": "{1}", "relative_path": ".\\parent.vhdx", "absolute_win32_path": "C:\\nowhere\\parent.vhdx"} if has_parent else None
            vf, _ = enc_vhdx.build([(enc_vhdx.ST_FULL, 0)] if not has_parent else [(enc_vhdx.ST_NOT_PRESENT, None)], block_size=1 << 20, sector_size=512,
                                   disk_size=1 << 20, sigs=sigs, omit_regions=omit_r, omit_items=omit_i, has_parent=has_parent, locator=loc,
                                   locator_type=ltype, seqs=(5, 6), extra_items=extra)
            vf.materialise(os.path.join(d, "child.vhdx"))
            if has_parent and parent_exists:
                pv, _ = enc_vhdx.build([(enc_vhdx.ST_FULL, 0)], block_size=1 << 20, sector_size=512, disk_size=1 << 20, file_id=3)
                pv.materialise(os.path.join(d, "parent.vhdx"))
            if gone:
                VHDX(Path(d) / "child.vhdx").read(512)        # a first, regular open of the same child in the same place
                pp = os.path.join(d, "parent.vhdx")
                os.remove(pp)
                if gone != "removed":
                    with open(pp, "wb") as f:
                        f.write(b"" if gone == "empty" else b"this is not a virtual disk\n" * 4000)
            if anon:
                data = open(os.path.join(d, "child.vhdx"), "rb").read()
                v = VHDX(io.BytesIO(data) if anon == "bytesio" else io.BufferedReader(io.BytesIO(data)))
            else:
                v = VHDX(Path(d) / "child.vhdx")
            if len(v.read(4096)) != 4096:
                raise AssertionError("short")
        finally:
            shutil.rmtree(d, ignore_errors=True)


# ------------------------------------------------------------------------------------------------ VDI / HDS / HDD / VMDK sparse
class Vdi(Parser):
    name = "vdi"

    def __init__(self):
        vf, *_ = enc_vdi.build({"n": 2, "cb": 1, "map": {0: 0, 1: -1}, "size": 2, "parent": False}, block_size=4096, P=1)
        self.base = vf.peek_bytes(0, vf.size())

    def gates(self):
        return {"signature": flips(64, 4)}

    def open(self, variants):
        from dissect.hypervisor.disk.vdi import VDI
        blob = self.base
        for v in variants.values():
            blob = patch(blob, v)
        if len(VDI(io.BytesIO(blob)).read(4096)) != 4096:
            raise AssertionError("short")


class Hds(Parser):
    name = "hds"

    def __init__(self):
        self.bases = []
        for ver in (1, 2):
            vf, _ = enc_hds.build({"ver": ver, "n": 2, "cb": 1, "bat": {0: 1, 1: 0}, "size": 2}, cluster_size=4096, P=2)
            self.bases.append(vf.peek_bytes(0, vf.size()))

    def gates(self):
        return {"signature": [("v", k, p) for k in (0, 1) for p in flips(0, 16)]}

    def open(self, variants):
        from dissect.hypervisor.disk.hdd import HDS
        blob = self.bases[0]
        for v in variants.values():
            blob = patch(self.bases[v[1]], v[2])
        if len(HDS(io.BytesIO(blob)).read(4096)) != 4096:
            raise AssertionError("short")


class Hdd(Parser):
    name = "hdd"

    def __init__(self, work):
        self.work = work

    def gates(self):
        return {"descriptor_present": [("missing",), ("misnamed", "diskdescriptor.xml"), ("misnamed", "DiskDescriptor.xml.bak")],
                "image_type": [("type", t) for t in ("Raw", "compressed", "PLAIN", "", "Expanding", "Compressed2", "Plain ", "Sparse")],
                "parent_image_type": [("ptype", t, depth) for t in ("Raw", "compressed", "PLAIN", "", "Expanding", "Sparse") for depth in (1, 2)],
                # the snapshot chain names an ancestor for which the storage holds no image (or holds it under another GUID)
                "ancestor_image_present": [("noimage", depth, how) for depth in (1, 2) for how in ("dropped", "other-guid")]
                                          # ... or names its image file in a place where it is not (a same-named file elsewhere does not count)
                                          + [("nofile", depth, rel) for depth in (0, 1, 2) for rel in ("{}", "images/{}", "../other.hdd/{}", "sub/dir/{}")]}

    def open(self, variants):
        from dissect.hypervisor.disk.hdd import HDD
        d = tempfile.mkdtemp(prefix="c12-hdd-", dir=self.work) + ".hdd"
        try:
            # a chain of three snapshots: top (sparse) -> middle (sparse) -> base (sparse), one storage
            vf, _ = enc_hds.build({"ver": 2, "n": 1, "cb": 1, "bat": {0: 1}, "size": 1}, cluster_size=4096, P=2)
            vfm, _ = enc_hds.build({"ver": 2, "n": 1, "cb": 1, "bat": {0: 0}, "size": 1}, cluster_size=4096, P=2, file_id=1)
            vfb, _ = enc_hds.build({"ver": 2, "n": 1, "cb": 1, "bat": {0: 1}, "size": 1}, cluster_size=4096, P=2, file_id=2)
            itype, ptypes = "Compressed", {1: "Compressed", 2: "Compressed"}
            for g, v in variants.items():
                if v[0] == "type":
                    itype = v[1]
                elif v[0] == "ptype":
                    ptypes[v[2]] = v[1]
            g0 = enc_hds.DEFAULT_TOP
            g1, g2 = "{11111111-aaaa-bbbb-cccc-000000000001}", "{22222222-aaaa-bbbb-cccc-000000000002}"
            images = [(g0, itype, "a.hds"), (g1, ptypes[1], "m.hds"), (g2, ptypes[2], "b.hds")]
            for g, v in variants.items():
                if v[0] == "noimage":
                    if v[2] == "dropped":
                        images.pop(v[1])
                    else:
                        images[v[1]] = ("{99999999-aaaa-bbbb-cccc-00000000000%d}" % v[1],) + images[v[1]][1:]
            files = {"a.hds": vf, "m.hds": vfm, "b.hds": vfb}
            for g, v in variants.items():
                if v[0] == "nofile":
                    gg, tt, fn = images[v[1]]
                    images[v[1]] = (gg, tt, v[2].format(fn))
                    if v[2] == "{}":
                        del files[fn]         # named in the directory itself and not there; otherwise the root keeps a same-named file
            enc_hds.write_hdd_dir(d, [(0, 8, images)],
                                  [(g0, g1), (g1, g2), (g2, enc_hds.NULL_GUID)], files, top_guid=g0)
            for g, v in variants.items():
                if v[0] == "missing":
                    os.remove(os.path.join(d, "DiskDescriptor.xml"))
                elif v[0] == "misnamed":
                    os.rename(os.path.join(d, "DiskDescriptor.xml"), os.path.join(d, v[1]))
            if len(HDD(Path(d)).open().read(4096)) != 4096:
                raise AssertionError("short")
        finally:
            shutil.rmtree(d, ignore_errors=True)


class VmdkSparse(Parser):
    name = "vmdk-sparse"

    def __init__(self):
        ents = [("D", 1), ("U", 0)]
        self.bases = [enc_vmdk.build_hosted(ents, [True], capacity=16, grain=8, gtes=4, max_pos=3)[0],
                      enc_vmdk.build_cowd(ents, [True], capacity=16, grain=8, max_pos=3)[0],
                      enc_vmdk.build_sesparse(ents, [True], capacity=16, grain=8, gt_sectors=1, max_pos=3)[0]]
        self.bases.append(enc_vmdk.build_hosted(ents, [True], capacity=16, grain=8, gtes=4, max_pos=3, footer=True, compressed=True, lba=True)[0])
        self.bases = [v.peek_bytes(0, v.size()) for v in self.bases]
        self.footer_off = len(self.bases[3]) - 1024

    def gates(self):
        return {"magic": [("v", 0, p) for p in flips(0, 4)] + [("v", 1, p) for p in flips(0, 4)] + [("v", 2, p) for p in flips(0, 8)],
                # stream-optimised extent (grain directory "at end"): the footer 1024 bytes before the end is a second header
                "footer_magic": [("v", 3, p) for p in flips(self.footer_off, 4)] + [("v", 3, ("set", self.footer_off, m)) for m in (b"COWD", b"\0\0\0\0", b"vmdk", b"KDM\0")]}

    def open(self, variants):
        from dissect.hypervisor.disk.vmdk import SparseDisk
        blob = self.bases[0]
        if "footer_magic" in variants:
            blob = patch(self.bases[3], variants["footer_magic"][2])
        elif not variants:
            for b in self.bases[1:]:   # the all-ok vector: every base must open and serve
                if len(SparseDisk(io.BytesIO(b)).read_sectors(0, 8)) != 4096:
                    raise AssertionError("short")
        mv = variants.get("magic")
        if mv:
            blob = patch(blob if (mv[1] == 0 and "footer_magic" in variants) else self.bases[mv[1]], mv[2])
        try:
            s = SparseDisk(io.BytesIO(blob))
            if len(s.read_sectors(0, 8)) != 4096:
                raise AssertionError("short")
        except Exception:
            if not mv:
                raise
            # refused when opened directly: the same extent named by a descriptor that declares its type must be refused as well
            from dissect.hypervisor.disk.vmdk import VMDK
            d = tempfile.mkdtemp(prefix="c12-vmdk-")
            try:
                etype = ("SPARSE", "VMFSSPARSE", "SESPARSE")[mv[1]]
                with open(os.path.join(d, "x-s001.vmdk"), "wb") as f:
                    f.write(blob)
                with open(os.path.join(d, "x.vmdk"), "w") as f:
                    f.write(enc_vmdk.descriptor_text([f'RW 16 {etype} "x-s001.vmdk"']))
                v = VMDK(Path(d) / "x.vmdk")
                if len(v.read(4096)) != 4096:
                    raise AssertionError("short")
            finally:
                shutil.rmtree(d, ignore_errors=True)


# ------------------------------------------------------------------------------------------------ Hyper-V
class VmdkDelta(Parser):
    """A delta disk next to its parent: a text descriptor + a hosted sparse extent, or one monolithic sparse file with an embedded
    descriptor.  A named extent file or the hinted parent that cannot be found is a refusal, not an empty disk."""
    name = "vmdk-delta"

    def __init__(self, work):
        self.work = work

    def gates(self):
        return {"extent_present": [("no-extent", who, form) for who in ("child", "parent") for form in ("descriptor",)] + [("no-extent", "misnamed", "descriptor")],
                "parent_present": [("no-parent", form, hint) for form in ("descriptor", "monolithic") for hint in ("parent.vmdk", "C:\\vms\\base vm\\parent.vmdk", "../elsewhere/parent.vmdk")]}

    def open(self, variants):
        from dissect.hypervisor.disk.vmdk import VMDK
        d = tempfile.mkdtemp(prefix="c12-vmdkd-", dir=self.work)
        try:
            form, hint = "descriptor", "parent.vmdk"
            for v in variants.values():
                if v[0] == "no-parent":
                    form, hint = v[1], v[2]
            pvf, _ = enc_vmdk.build_hosted([("D", 1)], [True], capacity=8, grain=8, gtes=4, file_id=1)
            cvf_kw = dict(capacity=8, grain=8, gtes=4, file_id=2)
            # parent: descriptor + extent
            with open(os.path.join(d, "parent.vmdk"), "w") as f:
                f.write(enc_vmdk.descriptor_text(['RW 8 SPARSE "parent-s001.vmdk"'], cid="1234abcd"))
            pvf.materialise(os.path.join(d, "parent-s001.vmdk"))
            if form == "descriptor":
                with open(os.path.join(d, "child.vmdk"), "w") as f:
                    f.write(enc_vmdk.descriptor_text(['RW 8 SPARSE "child-s001.vmdk"'], parent_cid="1234abcd", parent_hint=hint))
                cvf, _ = enc_vmdk.build_hosted([("U", 0)], [True], **cvf_kw)
                cvf.materialise(os.path.join(d, "child-s001.vmdk"))
            else:
                cvf, _ = enc_vmdk.build_hosted([("U", 0)], [True], desc=enc_vmdk.descriptor_text(['RW 8 SPARSE "child.vmdk"'], parent_cid="1234abcd", parent_hint=hint), **cvf_kw)
                cvf.materialise(os.path.join(d, "child.vmdk"))
            for v in variants.values():
                if v[0] == "no-parent":
                    os.remove(os.path.join(d, "parent.vmdk"))
                elif v[0] == "no-extent":
                    if v[1] == "misnamed":
                        os.rename(os.path.join(d, "child-s001.vmdk"), os.path.join(d, "child-s001.vmdk.bak"))
                    else:
                        os.remove(os.path.join(d, f"{v[1]}-s001.vmdk"))
            got = VMDK(Path(d) / "child.vmdk").read(4096)
            if got[:8] == bytes(8) or len(got) != 4096:
                raise AssertionError("the parent's data is not served")
        finally:
            shutil.rmtree(d, ignore_errors=True)


class HyperV(Parser):
    name = "hyperv"

    def __init__(self):
        self.nodes = [{"id": 1, "parent": 0, "tbl": 1, "key": "k", "type": enc_hyperv.T_INT, "value": 5},
                      {"id": 2, "parent": 0, "tbl": 2, "key": "j", "type": enc_hyperv.T_INT, "value": 6}]

    def gates(self):
        def sf(val, n):
            return [val ^ (1 << b) for b in range(8 * n)]
        return {"header_signature": [("sig", "head1", x) for x in sf(enc_hyperv.SIG_HEADER, 4)],   # header 1 is the active one here
                "version": [("version", x) for x in (0, 1, 0x300, 0x3FF, 0x401, 0x500, 0x4000, 0x00040000, 0xFFFFFFFF)],
                "replay_log_signature": [("sig", "replay", x) for x in sf(enc_hyperv.SIG_REPLAY, 4)],
                "object_table_signature": [("sig", "objtab", x) for x in sf(enc_hyperv.SIG_OBJTAB, 4)],
                # a second object table reached through an ObjectTable entry, placed behind or in front of the first one
                "chained_object_table_signature": [("chain", where, x) for where in (0x1800, 0x60000) for x in sf(enc_hyperv.SIG_OBJTAB, 4)[::3] + [0, enc_hyperv.SIG_KEYTAB]],
                "key_table_signature": [("sig", "keytab", x) for x in sf(enc_hyperv.SIG_KEYTAB, 2)],
                # one key table only: the superseded copy of table 1 (listed behind or in front of the current one), the table with index 2
                "other_key_table_signature": [("ktsig", which, x) for which in ("stale-after", "stale-before", "second") for x in sf(enc_hyperv.SIG_KEYTAB, 2)[::2] + [0]]}

    def open(self, variants):
        from dissect.hypervisor.descriptor.hyperv import HyperVFile
        sigs, version, chain, kt = {}, 0x400, None, None
        for v in variants.values():
            if v[0] == "sig":
                sigs[v[1]] = v[2]
            elif v[0] == "chain":
                chain = v
            elif v[0] == "ktsig":
                kt = v
            else:
                version = v[1]
        # the valid file has two key tables and a superseded copy of the first
        tables, fobjs, _ = enc_hyperv.plan_tables(self.nodes, stale={1}, newer_first=not (kt and kt[1] == "stale-before"))
        if kt:
            for t in tables:
                if (t["idx"] == 2) if kt[1] == "second" else (t["idx"] == 1 and t["seq"] == 3):
                    t["sig"] = kt[2]
        # the valid file already chains a second (empty) object table, at either placement
        where = chain[1] if chain else 0x1800
        b = enc_hyperv.build(tables, fobjs, hdr_seqs=(9, 3), sigs=sigs, version=version, extra_objects=[(enc_hyperv.OBJ_OBJTAB, where, 0x1000, 1)],
                             more_objtabs={where: [(enc_hyperv.OBJ_FREE, 0, 0, 0)]}, more_sigs=({where: chain[2]} if chain else None))
        h = HyperVFile(io.BytesIO(b))
        if h["k"].value != 5 or h["j"].value != 6:
            raise AssertionError("value")


# ------------------------------------------------------------------------------------------------ envelope / keystore / keysafe
class EnvelopeP(Parser):
    name = "envelope"
    KEY = bytes(range(32))

    def gates(self):
        magic = b"DataTransformEnvelope"
        mflips = []
        for i in range(len(magic)):
            for bit in range(8):
                b = bytearray(magic)
                b[i] ^= 1 << bit
                mflips.append(("magic", bytes(b)))
        return {"magic": mflips, "version": [("version", x) for x in (0, 1, 3, 4, 0x0200, 0x02000000, 0xFFFFFFFF)],
                "attr_keyinfo": [("drop", "vmware.keyInfo"), ("rename", "vmware.keyInfo", "vmware.keyinfo")],
                "attr_ciphername": [("drop", "vmware.cipherName"), ("rename", "vmware.cipherName", "vmware.ciphername")],
                "attr_keyhash": [("drop", "vmware.keyHash"), ("rename", "vmware.keyHash", "vmware.keyhash")],
                "cipher": [("cipher", c) for c in ("AES-128-GCM", "AES-256-CBC", "aes-256-gcm", "", "AES-256-GCM ", "AES-256-GCM-SIV", "CHACHA20")],
                "aead_footer_version": [("aead", x) for x in (0, 2, 255, 0x01000000)]}

    def open(self, variants):
        from dissect.hypervisor.util.envelope import Envelope
        cipher = "AES-256-GCM"
        for v in variants.values():
            if v[0] == "cipher":
                cipher = v[1]
        attrs = enc_envelope.std_attrs(self.KEY, bytes(12), "id", cipher=cipher)
        for v in variants.values():
            if v[0] == "drop":
                attrs = [a for a in attrs if a[1] != v[1]]
            elif v[0] == "rename":
                attrs = [(a[0], v[2], a[2], a[3]) if a[1] == v[1] else a for a in attrs]
        blob, info = enc_envelope.seal(b"payload", self.KEY, bytes(12), attrs)
        b = bytearray(blob)
        for v in variants.values():
            if v[0] == "magic":
                b[0:21] = v[1]
            elif v[0] == "version":
                b[508:512] = struct.pack("<I", v[1])
            elif v[0] == "aead":
                b[-4:] = struct.pack("<I", v[1])
        # with and without tag verification (the `verify` argument only concerns the authentication tag, not what is supported)
        errs = []
        for verify in (True, False):
            try:
                e = Envelope(io.BytesIO(bytes(b)), verify=verify)
                # accepted: it must also be able to serve the payload (header alterations are authenticated)
                if not variants and e.decrypt(self.KEY) != b"payload":
                    raise AssertionError("payload")
            except AssertionError:
                raise
            except Exception as ex:  # noqa: BLE001
                errs.append(ex)
        if len(errs) == 1:
            raise AssertionError(f"refused with one value of verify only: {errs[0]!r}")
        if errs:
            raise errs[0]


class KeystoreP(Parser):
    name = "keystore"

    def gates(self):
        return {"mode_present": [("nomode",)], "mode_none": [("mode", m) for m in ("TPM", "none", "None", "KEYPERSIST", "NONE2", "xNONE", "0")]}

    def open(self, variants):
        from dissect.hypervisor.util.envelope import KeyStore
        text = enc_envelope.keystore_text(uuid.UUID(int=5), b"1" * 16, b"2" * 16)
        for v in variants.values():
            if v[0] == "nomode":
                text = "\n".join(l for l in text.split("\n") if not l.startswith("mode"))
            elif v[0] == "mode":
                text = text.replace('mode = "NONE"', f'mode = "{v[1]}"')
        ks = KeyStore.from_text(text)
        if len(ks.key) != 32:
            raise AssertionError("key")


class KeysafeP(Parser):
    name = "keysafe"

    def gates(self):
        return {"identifier": [("ident", x) for x in ("vmware:keys", "Vmware:key", "vmware:key2", "", "vmware", "vmware:KEY", "vmware:key/vmware:key", None)],
                "locator_kind": [("kind", k) for k in ("rawkey", "ldap", "script", "role", "fqid", "phrase2", "Phrase", "")]
                                + [("kind-in-second-pair", k, where) for k in ("rawkey", "ldap", "fqid", "script") for where in ("before", "after")],
                # algorithm identifiers of a phrase locator / pair that this reader does not implement
                # (also in the first pair of a list whose second pair is entirely regular: the list is tried in order)
                "pass2key": [("alg", "PBKDF2-HMAC-SHA-1", x) for x in ("PBKDF2-HMAC-MD5", "PBKDF2-HMAC-SHA-512", "pbkdf2-hmac-sha-1", "SCRYPT", "", "PBKDF2-HMAC-SHA-1-128")]
                            + [("alg-first", "PBKDF2-HMAC-SHA-1", x) for x in ("PBKDF2-HMAC-MD5", "SCRYPT", "")],
                "phrase_cipher": [("alg", "AES-256", x) for x in ("XTS-AES-256", "DES3-192", "aes-256", "AES-512", "AES-CTR-128", "CAMELLIA-256", "", "AES-64", "AES-256-GCM")]
                                 + [("alg-first", "AES-256", x) for x in ("XTS-AES-256", "DES3-192", "AES-512", "")],
                "hmac": [("alg", "HMAC-SHA-1", x) for x in ("HMAC-MD5", "HMAC-SHA-512", "hmac-sha-1", "", "HMAC-SHA-1-96", "NONE")]}

    def open(self, variants):
        from dissect.hypervisor.descriptor.vmx import VMX
        pt = enc_vmx.pair_text("pw", bytes(32), rounds=1)
        ks = enc_vmx.keysafe([pt])
        for v in variants.values():
            if v[0] == "ident":
                # (None: no identifier at all, the text starts with the list)
                ks = ks[len("vmware:key/"):] if v[1] is None else v[1] + ks[len("vmware:key"):]
            elif v[0] == "kind":
                ks = ks.replace("pair/(phrase/", f"pair/({v[1]}/")
            elif v[0] == "kind-in-second-pair":
                # a list of two pairs: one wrapped under a locator kind this reader does not implement, one valid phrase pair
                other = pt.replace("pair/(phrase/", f"pair/({v[1]}/")
                ks = enc_vmx.keysafe([other, pt] if v[2] == "before" else [pt, other])
            elif v[0] in ("alg", "alg-first"):
                # the names appear percent-escaped (twice inside the phrase locator, once as the pair's MAC)
                once, twice = enc_vmx.esc(v[1]), enc_vmx.esc(enc_vmx.esc(v[1]))
                assert once in ks or twice in ks, (v, ks[:200])
                if v[0] == "alg":
                    ks = ks.replace(twice, enc_vmx.esc(enc_vmx.esc(v[2]))).replace(once, enc_vmx.esc(v[2]))
                else:
                    # the altered pair first, the regular pair second
                    ks = enc_vmx.keysafe([pt.replace(twice, enc_vmx.esc(enc_vmx.esc(v[2]))).replace(once, enc_vmx.esc(v[2])), pt])
        cfg = 'a = "1"\n'
        text = enc_vmx.vmx_text({"x": "y"}, ks, enc_vmx.blob(bytes(32), cfg.encode(), "HMAC-SHA-1", bytes(16)))
        v = VMX.parse(text)
        v.unlock_with_phrase("pw")
        if v.attr.get("a") != "1":
            raise AssertionError("not unlocked")


def run(ctx):
    thorough = ctx.tier == "thorough"
    ctx.rule = ("every feature vector of spec/Gates.tla with at most two bad gates (11 parsers) realised on an otherwise valid "
                "input; every single-gate fault expanded to every concrete value of its class (all single-bit flips of each magic, listed "
                "version / geometry / method values, image types, cipher names, modes, locator kinds); non-trivial = vector with at least "
                "one bad gate; distinct by (parser, gate set, concrete value)")
    ctx.assumptions = ["any exception from the constructor/open call counts as refusal", "VMDK(fh) deliberately treats an unknown magic as a "
                       "flat extent; the sparse-extent magic gate is exercised at SparseDisk"]
    diskprop.tlc_check(ctx, "Gates", "Gates.cfg", min_states=500, need_actions=("Check", "Accept"))
    rd = tlc.run("Gates", "Gates.cfg", dump=True)
    sts = [s for s in tlaparse.iter_dump(rd.dump) if s["verdict"] in ("accept", "reject") and not s["served"]]
    tlc.cleanup(rd)
    core.use_repo()
    work = tempfile.mkdtemp(prefix="verif-c12-")
    rng = random.Random(ctx.seed + 12)
    try:
        parsers = {p.name: p for p in (Qcow2(), Vhdx(work), Vdi(), Hds(), Hdd(work), VmdkSparse(), VmdkDelta(work), HyperV(), EnvelopeP(), KeystoreP(), KeysafeP())}
        gate_names = {}
        seen = set()
        for st in sts:
            p = parsers[st["parser"]]
            gts = p.gates()
            feats = st["feats"] if isinstance(st["feats"], list) else [st["feats"][k] for k in sorted(st["feats"])]
            names = _gate_order(st["parser"])
            bad = [names[i] for i, f in enumerate(feats) if f == "bad"]
            key = (st["parser"], tuple(bad))
            if key in seen:
                continue
            seen.add(key)
            if len(bad) <= 1:
                variant_sets = [{bad[0]: v} for v in (gts[bad[0]] if (thorough or len(gts[bad[0]]) <= 64) else rng.sample(gts[bad[0]], 64))] if bad else [{}]
            else:
                variant_sets = [{g: rng.choice(gts[g]) for g in bad} for _ in range(2)]
            for vs in variant_sets:
                want = "accept" if not bad else "reject"
                ctx.case(key=(st["parser"], tuple(bad), repr(sorted((g, repr(v)) for g, v in vs.items()))), nontrivial=bool(bad),
                         sample={"parser": st["parser"], "bad_gates": bad, "variant": repr(vs)[:200], "spec_verdict": st["verdict"]} if len(bad) == 2 and len(ctx.samples) < 3 else None)
                try:
                    p.open(vs)
                    got = "accept"
                    err = ""
                except AssertionError as e:
                    # the harness' own look at what an *accepted* input serves failed: accepted, and served wrongly
                    got = "accept" if bad else "reject"
                    err = f"served wrongly: {e}"[:200]
                except Exception as e:  # noqa: BLE001
                    got = "reject"
                    err = f"{type(e).__name__}: {e}"[:200]
                if got != want:
                    ctx.violation({"parser": st["parser"], "gates": "+".join(bad) or "none", "fail": "accepted-unsupported" if want == "reject" else "rejected-valid"},
                                  {"parser": st["parser"], "bad_gates": bad, "variant": repr(vs)[:300], "error": err})
                    if len(ctx.violations) >= ctx.max_violations:
                        return
    finally:
        shutil.rmtree(work, ignore_errors=True)


_ORDER = {
    "qcow2": ["magic", "version", "cluster_bits", "subcluster_size", "crypt_method", "compression", "data_file", "backing_file"],
    "vhdx": ["file_identifier", "header_signature", "region_signature_1", "region_signature_2", "metadata_region", "metadata_signature",
             "required_item", "unknown_required_item", "locator_type", "parent_resolved", "bat_region"],
    "vdi": ["signature"], "hds": ["signature"], "hdd": ["descriptor_present", "image_type", "parent_image_type", "ancestor_image_present"], "vmdk-sparse": ["magic", "footer_magic"],
    "vmdk-delta": ["extent_present", "parent_present"],
    "hyperv": ["header_signature", "version", "replay_log_signature", "object_table_signature", "chained_object_table_signature", "key_table_signature",
               "other_key_table_signature"],
    "envelope": ["magic", "version", "attr_keyinfo", "attr_ciphername", "attr_keyhash", "cipher", "aead_footer_version"],
    "keystore": ["mode_present", "mode_none"], "keysafe": ["identifier", "locator_kind", "pass2key", "phrase_cipher", "hmac"],
}


def _gate_order(parser):
    return _ORDER[parser]


def replay(ctx, body):
    ctx.quiet = True
    run(ctx)
    return not ctx.violations
