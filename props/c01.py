"""C01 - QCOW2: every byte range reads as the guest-visible content.

Spec: spec/Qcow2.tla (L1/L2 walk, entry kinds, extended-L2 sub-cluster states, backing file of any length, external
data file; ImplRead = transcription of _yield_runs/_read for standard entries).
A: every TLC-enumerated image is encoded by harness/enc_qcow2.py (qcow2.txt) at cluster sizes 512 B .. 2 MiB with scale
   embedding onto real L2 table sizes, v2/v3 headers, header_length 104/112, COPIED flags, host offsets beyond 4 GiB /
   2^40, compressed clusters at unaligned offsets, external data file, backing files shorter than the disk; replayed on
   the real QCow2 class.
B: random real-geometry images with arbitrary 32-bit sub-cluster bitmaps + op sequences, validated by TraceDisk."""
from __future__ import annotations

import random

from harness import core, disk, diskcheck, diskprop, enc_qcow2, patterns, record, tlc, tracecheck

LEVEL = "model_checking"

STD_Q = [
    {"cb": 9, "K": 32, "full": True, "sel": 6},
    {"cb": 9, "K": 32, "full": True, "version": 2, "sel": 8},
    {"cb": 9, "K": 32, "full": True, "version": 2, "sel": 8, "backing_fmt_ext": False, "end_marker": False, "backing_name": "disk0001.img"},  # old style: name right behind the 72-byte header
    {"cb": 9, "K": 32, "full": True, "sel": 8, "datafile_ext": False, "backing_fmt_ext": False},   # optional header extensions absent
    {"cb": 10, "K": 64, "full": True, "sel": 8, "comp_level": 0, "comp_max": True},                # stored deflate: compressed size ~ cluster size
    {"cb": 12, "K": 256, "full": False, "max_len": 1 << 20, "sel": 12, "comp_level": 0},
    {"cb": 12, "K": 256, "full": False, "max_len": 1 << 20, "sel": 8, "hlen": 112},
    {"cb": 16, "K": 4096, "full": False, "max_len": 1 << 20, "sel": 12, "host_shift": 1 << 17},       # data beyond 8 GiB
    {"cb": 16, "K": 4096, "full": False, "max_len": 1 << 20, "sel": 16, "copied": False, "l2_shift": 1 << 16, "comp_max": True},
    {"cb": 21, "K": 131072, "full": False, "max_len": 1 << 20, "sel": 60, "host_shift": 1 << 20},    # 2 MiB clusters, data beyond 2^41
]
EXT_Q = [
    {"cb": 14, "K": 1, "full": True, "sel": 4},
    {"cb": 16, "K": 1, "full": True, "sel": 6, "host_shift": 1 << 17},
    {"cb": 21, "K": 1, "full": False, "sel": 12},
]
STD_T = STD_Q + [
    {"cb": 10, "K": 64, "full": True, "sel": 8, "copied": False},
    {"cb": 16, "K": 4096, "full": False, "max_len": 1 << 20, "sel": 16, "version": 2},
    {"cb": 20, "K": 65536, "full": False, "max_len": 1 << 20, "sel": 40, "host_shift": (1 << 35)},  # host offsets just under 2^56
]
EXT_T = EXT_Q + [{"cb": 18, "K": 1, "full": False, "sel": 6, "copied": False}, {"cb": 15, "K": 1, "full": True, "sel": 6}]


def _open(vf, dvf, backing):
    from dissect.hypervisor.disk.qcow2 import QCow2

    vf.seek(0)
    return QCow2(vf, data_file=dvf, backing_file=backing() if backing else None)


def build(img, prof, size_bytes=None):
    ext = img["ext"]
    if prof.get("version") == 2 and (ext or img["datafile"]):
        return None
    cb, K = prof["cb"], prof["K"]
    cs = 1 << cb
    if (ext and cb < 14) or (not ext and K * img["l2n"] != cs // 8):
        return None
    vf, dvf, info = enc_qcow2.build(img, cluster_bits=cb, K=K, version=prof.get("version", 3), header_length=prof.get("hlen", 104),
                                    host_shift=prof.get("host_shift", 0), l2_shift=prof.get("l2_shift", 0),
                                    copied=prof.get("copied", True), comp_maximal=prof.get("comp_max", False), size_bytes=size_bytes,
                                    comp_level=prof.get("comp_level", 6), datafile_ext=prof.get("datafile_ext", True),
                                    backing_fmt_ext=prof.get("backing_fmt_ext", True), end_marker=prof.get("end_marker", True),
                                    backing_name=prof.get("backing_name"))
    cell = info["cell"]
    backing = None
    if img["back"] >= 0:
        blen = img["back"] * cell
        backing = lambda: disk.ParentStream(blen)  # noqa: E731

    def tokb(tok, a, n, cell=cell, cs=cs, K=K):
        if tok["k"] != "C":
            return None
        x = tok["c"] * cell + a
        out = []
        while n > 0:
            j, off = divmod(x, cs)
            t = min(n, cs - off)
            out.append(patterns.cpat(tok["f"] * K + j, off, t))
            x += t
            n -= t
        return b"".join(out)

    return disk.Built(open=lambda: _open(vf, dvf, backing), cell=cell, size=info["size"], bases={0: info["data_base"], 1: 0},
                      files=[vf] + ([dvf] if dvf else []), has_parent=img["back"] >= 0,
                      note={k: v for k, v in prof.items() if k != "when"}, tok_bytes=tokb)


def make_trace(tid, rng, nops=25, **opt):
    ext = rng.random() < 0.6
    cb = rng.choice([14, 16] if ext else [9, 12, 16])
    cs = 1 << cb
    esz = 16 if ext else 8
    l2_real = cs // esz
    nc = rng.randrange(3, 40)
    if opt.get("many") == "mid":  # several L2 tables
        ext = rng.random() < 0.5
        cb = 14 if ext else 9
        cs = 1 << cb
        esz = 16 if ext else 8
        l2_real = cs // esz
        nc = rng.randrange(3 * l2_real, 6 * l2_real) if not ext else rng.randrange(l2_real, 2 * l2_real)
    elif opt.get("many") in ("big", True):  # more L2 tables than the 128-entry L2 cache holds
        ext, cb = False, 9
        cs, esz, l2_real = 512, 8, 64
        nc = rng.randrange(8400, 9000)
    if not opt.get("many") and cb == 9 and rng.random() < 0.4:
        nc = l2_real * rng.randrange(1, 3) + 1     # the last cluster is the only one of its L2 table
    runs = opt.get("many") == "runs"
    if runs:  # long runs of each kind of cluster, 1 MiB clusters
        ext, cb = rng.random() < 0.3, 20
        cs, esz = 1 << cb, 16 if ext else 8
        l2_real, nc = cs // esz, rng.randrange(48, 72)
    datafile = rng.random() < 0.25 or bool(opt.get("datafile"))
    npos = nc + 2
    pos = list(range(0 if datafile else 1, npos + 1))
    if rng.random() < 0.6:
        rng.shuffle(pos)
    ncomp = 0
    t, h, al, ze = [], [], [], []
    if runs:
        plan = diskprop.run_plan(rng, nc, ["U", "Zx", "N", "Nr"] if ext else ["U", "ZP", "ZA", "ZAr", "N", "Nr"])
        pp, _ = diskprop.run_positions(plan, first=0 if datafile else 1, data=("N", "Nr", "ZA", "ZAr"))
    for c_ in range(nc):
        if ext:
            k = rng.choice(["U", "N", "N", "N"] + ([] if datafile else ["C"]))
        else:
            k = rng.choice(["U", "ZP", "ZA", "N", "N"] + ([] if datafile else ["C"]))
        a = z = 0
        if runs:
            k = plan[c_].rstrip("r")
            if k == "Zx":   # extended L2: every sub-cluster reads as zeroes, the cluster itself allocated or not
                k = rng.choice(["U", "N"])
                pos.insert(0, npos + 1 + c_)
            pos.insert(0, pp[c_] if pp[c_] is not None else pos[0])
        if k in ("N", "ZA"):
            hh = pos.pop(0)
        elif k == "C":
            hh = ncomp
            ncomp += 1
        else:
            hh = 0
        if ext and k != "C":
            style = rng.random()
            if style < 0.3:
                a = rng.getrandbits(32)
                z = rng.getrandbits(32) & ~a
            elif style < 0.5:
                a = rng.choice([0xFFFFFFFF, 0x0000FFFF, 0xFFFF0000, 0x55555555, 0x80000000, 1, 0x80000001, 0x7FFFFFFF])
                z = rng.choice([0, ~a & 0xFFFFFFFF, ~a & 0x0F0F0F0F])
            else:
                lo = rng.randrange(0, 32)
                hi = rng.randrange(lo, 33)
                a = ((1 << hi) - 1) & ~((1 << lo) - 1)
                z = rng.choice([0, ((1 << lo) - 1), ~((1 << hi) - 1) & 0xFFFFFFFF])
            if k == "U":
                a = 0
            if runs:   # whole clusters: all sub-clusters present / all zero / none
                a, z = (0xFFFFFFFF, 0) if plan[c_] in ("N", "Nr") else (0, 0xFFFFFFFF) if plan[c_] == "Zx" else (0, 0)
        t.append(k)
        h.append(hh)
        al.append(a)
        ze.append(z)
    if datafile and not runs:
        # offset 0 of the data file is a valid place for a cluster: put one there whose successor is stored somewhere else
        pairs_ = [c_ for c_ in range(nc - 1) if t[c_] == "N" and t[c_ + 1] == "N"]
        if pairs_:
            c_ = rng.choice(pairs_)
            users = {h[x]: x for x in range(nc) if t[x] in ("N", "ZA")}
            if 0 in users and users[0] != c_:
                h[users[0]], h[c_] = h[c_], 0
            else:
                h[c_] = 0
            if h[c_ + 1] == 1:
                other = [x for x in range(nc) if t[x] in ("N", "ZA") and x not in (c_, c_ + 1)]
                if other:
                    x = rng.choice(other)
                    h[x], h[c_ + 1] = h[c_ + 1], h[x]
            if ext:
                al[c_] = al[c_ + 1] = 0xFFFFFFFF
                ze[c_] = ze[c_ + 1] = 0
    back = rng.choice([-1, -1, nc, nc - 1, max(1, nc // 2)])
    tail = rng.choice([0, 0, 512, cs // 2])
    size_b = nc * cs - tail
    S = 32 if ext else 1
    cellB = cs // S
    # encode directly at real geometry: abstract image with K = 1, l2n = real table size, s = S
    nl1 = -(-nc // l2_real)
    l1 = {i: True for i in range(nl1)}
    l2 = {}
    for c in range(nc):
        sub = []
        if ext and t[c] != "C":
            sub = ["A" if (al[c] >> b) & 1 else "Z" if (ze[c] >> b) & 1 else "U" for b in range(32)]
        l2[c] = {"t": t[c], "h": h[c], "sub": sub}
    img = {"ext": ext, "datafile": datafile, "l2n": l2_real, "s": S, "l1": l1, "l2": l2, "back": back * S if back >= 0 else -1, "size": nc * S}
    fid, dfid, csalt = rng.randrange(0, 0x48), rng.randrange(0x48, 0x90), rng.randrange(1, 1 << 18) * 4096   # identity of this image
    vf, dvf, info = enc_qcow2.build(img, cluster_bits=cb, K=1, version=3 if (ext or datafile) else rng.choice([2, 3]),
                                    header_length=rng.choice([104, 112]), copied=rng.random() < 0.7, size_bytes=size_b,
                                    comp_maximal=rng.random() < 0.3, comp_level=rng.choice([6, 6, 0, 1]),
                                    datafile_ext=rng.random() < (0.6 if not opt.get("datafile") else 0.3), backing_fmt_ext=rng.random() < 0.7,
                                    # header fields a reader must not let influence the mapping
                                    hdr_extra={"compat": rng.choice([0, 1, 0xFF00]), "autoclear": rng.choice([0, 1, 3]), "refcount_order": rng.choice([4, 0, 6]),
                                               "refcount_clusters": rng.choice([1, 0, 7])},
                                    # incompatible bit 0 ("dirty": refcounts may be stale - the mapping is not affected)
                                    incompat_extra=rng.choice([0, 0, 1]),
                                    file_id=fid, data_fid=dfid, csalt=csalt)
    blen = None
    bpad = 0
    if back >= 0:
        blen = back * cs - (rng.choice([0, 0, cs // 32, cs // 2]) if (ext and back < nc) else 0)
        blen = max(cs, blen)
    backing = (lambda: disk.ParentStream(blen)) if back >= 0 else None
    if back >= 0 and rng.random() < 0.25:
        # the header names a backing file, the caller opts out of it (ALLOW_NO_BACKING_FILE): what the image does not hold reads as zeroes
        from dissect.hypervisor.disk import qcow2 as _q
        backing = lambda: _q.ALLOW_NO_BACKING_FILE   # noqa: E731
        back, blen = -1, None
    b = disk.Built(open=lambda: _open(vf, dvf, backing), cell=cellB, size=size_b, bases={0: info["data_base"], 1: 0}, has_parent=back >= 0,
                   fids={0: fid, 1: dfid}, csalt=csalt)
    s = b.open()
    fresh = b.open()
    rec = record.Recorder(s, size_b, probe=fresh.readoffset, align=opt.get("align"))
    if runs:
        diskprop.whole_disk_ops(rec, rng, size_b, cs)
        nops = 6
    record.random_ops(rec, rng, size_b, nops, unit=cs, big=(size_b + 4096) if runs else min(6 * cs + 4096, 2 << 20))
    if opt.get("many") in ("mid", "big", True):
        diskprop.twin_index_ops(rec, rng, size_b, cs, l2_real * cs)
    if datafile:
        # the cluster stored at offset 0 of the data file (a valid place there): requests that run from it into its successor
        for c_ in [c_ for c_ in range(nc - 1) if t[c_] in ("N", "ZA") and h[c_] == 0][:2]:
            o_ = (c_ + 1) * cs - rng.choice([512, 8, cs // 2])
            if o_ + 2 * cs <= size_b:
                rec.readoffset(o_ - o_ % 8, rng.choice([1024, cs, cs + 512]))
                rec.seek(c_ * cs, 0)
                rec.read(2 * cs)
    geo = b.geo(nfiles=2)
    timg = {"ext": ext, "datafile": datafile, "nc": nc, "s": S, "t": t, "h": h,
            "al_lo": [a & 0xFFFF for a in al], "al_hi": [a >> 16 for a in al],
            "ze_lo": [z & 0xFFFF for z in ze], "ze_hi": [z >> 16 for z in ze],
            "back": (blen // cellB) if blen is not None else -1}
    return {"tid": tid, "fmt": "qcow2", "img": timg, "sizeB": size_b, "sector": 512, "geo": geo, "events": rec.events}


def trace_for(tid, r, thorough):
    """The history behind trace `tid` (run and --replay build the same one)."""
    return make_trace(tid, r, 40 if thorough else 25, many=diskprop.many_of(tid))


def _attrs(img, prof):
    return {"cb": prof["cb"], "ext": img["ext"], "datafile": img["datafile"], "version": prof.get("version", 3), "back": img["back"] >= 0}


def run(ctx):
    thorough = ctx.tier == "thorough"
    ctx.rule = ("A: every image enumerated by TLC from spec/Qcow2.tla (standard: L1 presence x entries over {unallocated, zero plain, "
                "zero alloc, normal at host h, compressed} with permuted/adjacent hosts x backing none/short/full x data file; "
                "extended L2: per-sub-cluster states {unalloc, alloc, zero}^4) x realisation profiles (cluster bits 9..21 via scale "
                "embedding onto real L2 tables, v2/v3, header length, COPIED, host offsets beyond 2^33/2^41/2^55, compressed "
                "descriptors minimal/maximal) x derived byte requests; non-trivial = request crosses a source change. "
                "B: random real-geometry images (arbitrary 32-bit alloc/zero bitmaps) validated by TraceDisk.")
    ctx.assumptions = ["encoder harness/enc_qcow2.py follows qcow2.txt; refcounts are not maintained (the reader ignores them)",
                       "zlib only (zstd module not installed)"]
    diskprop.tlc_check(ctx, "Qcow2", "Qcow2_big.cfg" if thorough else "Qcow2_q.cfg", need_actions=("Next",))
    diskprop.tlc_check(ctx, "Qcow2", "Qcow2ext_big.cfg" if thorough else "Qcow2ext_small.cfg", need_actions=("Next",))
    sts = diskprop.dump_states(ctx, "Qcow2", "Qcow2_img4.cfg" if thorough else "Qcow2_qimg.cfg")
    diskprop.replay_states(ctx, "qcow2", sts, STD_T if thorough else STD_Q, build, attrs_of=_attrs, cap=48 if thorough else 28)
    sts = diskprop.dump_states(ctx, "Qcow2", "Qcow2ext_img.cfg")
    diskprop.replay_states(ctx, "qcow2", sts, EXT_T if thorough else EXT_Q, build, attrs_of=_attrs, cap=48 if thorough else 28)
    # the active image reads as its own content whatever is done with its internal snapshots (opened before / after its first read)
    import importlib
    importlib.import_module("props.c07").qcow2_snapshots(ctx, random.Random(ctx.seed + 101), 12 if thorough else 6)
    diskprop.traces(ctx, "qcow2", lambda tid, r: trace_for(tid, r, thorough), 320 if thorough else 64,
                    "TraceDisk", "TraceDisk.cfg", lambda t: {"format": "qcow2", "ext": t["img"]["ext"], "datafile": t["img"]["datafile"]})


def replay(ctx, body):
    d = body["detail"]
    ctx.quiet = True
    if d.get("kind") == "tlc":
        r = tlc.run(d["module"], d["cfg"])
        print(r.output[-2000:])
        return not r.violated
    if d.get("kind") in ("trace", "trace-gen"):
        tid = d.get("tid") or d["trace"]["tid"]
        t = trace_for(tid, random.Random(body["seed"] * 9176 + tid), body.get("tier") == "thorough")
        v, _ = tracecheck.validate("TraceDisk", "TraceDisk.cfg", [t])
        print(v)
        return v[tid][0] == "accept"
    img = d["img"]
    for k in ("l1", "l2"):
        img[k] = {int(a): b for a, b in img[k].items()}
    cfgs = ["Qcow2ext_img.cfg"] if img["ext"] else ["Qcow2_qimg.cfg", "Qcow2_img.cfg", "Qcow2_img4.cfg"]
    sts = []
    for c in cfgs:
        sts = [s for s in diskprop.dump_states(ctx, "Qcow2", c) if s["img"] == img]
        if sts:
            break
    if not sts:
        print("image not in the enumerated set")
        return True
    b = build(sts[0]["img"], d["profile"])
    o, n = d.get("read", [0, min(b.size, 1 << 20)])
    return diskcheck.check_image(ctx, "qcow2", img, sts[0]["view"], b, random.Random(0), full=False, attrs={},
                                 extra_requests=[(o, n)], max_len=d["profile"].get("max_len", 8 << 20))
