"""C10 - descriptor-driven multi-extent assembly and size accounting.

Spec: spec/Extents.tla (Concatenation, SizeIsSum, NoneDropped; Walk = transcription of VMDK.__init__ bookkeeping and
VMDK.read_sectors' bisect walk).
A: every TLC-enumerated extent list is realised as (1) a VMDK descriptor + extent files on disk (FLAT/VMFS raw files,
   SPARSE hosted, VMFSSPARSE COWD, SESPARSE), with file names containing spaces / unicode / emoji and optional trailing
   descriptor fields, (2) an explicit list of handles VMDK([fh, ...]), (3) a Parallels HDD directory whose storages are
   plain or expanding images; every request (incl. boundary-straddling, ending at the end of the last extent) replayed.
B: recorded traces of random op sequences on random larger extent lists validated by TraceDisk (extents source)."""
from __future__ import annotations

import os
import random
import shutil
import tempfile
from pathlib import Path

from harness import core, disk, diskcheck, diskprop, enc_hds, enc_vmdk, patterns, record, tlc, tracecheck
from harness.vfile import VirtualFile

LEVEL = "model_checking"
GRAIN = 8
CELL = GRAIN * 512

NAMES = {"plain": "disk-s{:03d}.vmdk", "spaces": 'win "C" drive (copy 2) - s{:03d}.vmdk', "unicode": "dïsk-✓-😀 s{:03d}.vmdk"}


_LEADS = None


def leads():
    """Guest content a raw (FLAT / VMFS / plain) extent may start with: other containers' signatures and whole headers (a disk
    onto which an image file was written raw, nested virtualisation, a carve).  The descriptor says what an extent is."""
    global _LEADS
    if _LEADS is None:
        ents = [("D", 1), ("Z", 0), ("D", 2), ("D", 3)]
        h, _ = enc_vmdk.build_hosted(ents, [True], capacity=4 * GRAIN, grain=GRAIN, gtes=4, file_id=0x55, max_pos=4)
        c, _ = enc_vmdk.build_cowd([("D", 1), ("U", 0), ("D", 2), ("D", 3)], [True], capacity=4 * GRAIN, grain=GRAIN, file_id=0x55, max_pos=4)
        s, _ = enc_vmdk.build_sesparse(ents, [True], capacity=4 * GRAIN, grain=GRAIN, gt_sectors=1, file_id=0x55, max_pos=4)
        hd, _ = enc_hds.build({"ver": 2, "n": 3, "cb": 1, "bat": {0: 1, 1: 0, 2: 2}, "size": 3}, cluster_size=CELL, file_id=0x55, P=3)
        _LEADS = [b"KDMV", b"COWD", b"\xbe\xba\xfe\xca", b"KDMV\x01\0\0\0\x03\0\0\0", b"# Disk DescriptorFile\nversion=1\n", b"WithoutFreeSpace", b"WithouFreSpacExt",
                  b"conectix", b"vhdxfile", b"QFI\xfb\0\0\0\x03", b"<<< Oracle VM VirtualBox Disk Image >>>\n"]
        _LEADS += [v.peek_bytes(0, min(v.size(), 2048)) for v in (h, c, s, hd)]
    return _LEADS


def _extent_file(e, i, rng, cell=CELL, grain=GRAIN, slack_ok=False):
    """-> (VirtualFile, host: cell -> file byte offset)"""
    n = e["n"]
    zero = set(e["zero"])
    t = e["type"]
    if t in ("FLAT", "VMFS", "PLAIN"):
        # the backing file may be longer than the range the descriptor declares (pre-allocated / shared files)
        slack = rng.choice([0, 0, 512, cell, 3 * cell + 512]) if (t != "PLAIN" and slack_ok) else 0
        lead = (e.get("lead") or b"")[:n * cell]
        vf = VirtualFile(n * cell + slack, ([(0, len(lead), "bytes", lead)] if lead else []) + [(len(lead), n * cell + slack - len(lead), "pat", i)], fid=i)
        return vf, {c: c * cell for c in range(n)}
    pos = list(range(1, n + 2))
    rng.shuffle(pos)
    if t == "SPARSE":
        ents = [("Z", 0) if c in zero else ("D", pos[c]) for c in range(n)]
        vf, info = enc_vmdk.build_hosted(ents, [True] * (-(-n // 4)), capacity=n * grain, grain=grain, gtes=4, file_id=i, max_pos=n + 2)
    elif t == "VMFSSPARSE":
        ents = [("U", 0) if c in zero else ("D", pos[c]) for c in range(n)]
        vf, info = enc_vmdk.build_cowd(ents, [True], capacity=n * grain, grain=grain, file_id=i, max_pos=n + 2)
    elif t == "SESPARSE":
        ents = [("Z", 0) if c in zero else ("D", pos[c]) for c in range(n)]
        vf, info = enc_vmdk.build_sesparse(ents, [True], capacity=n * grain, grain=grain, gt_sectors=1, file_id=i, max_pos=n + 2)
    elif t == "HDS":
        bat = {c: (0 if c in zero else pos[c]) for c in range(n)}
        vf, info = enc_hds.build({"ver": 2, "n": n, "cb": 1, "bat": bat, "size": n}, cluster_size=cell, file_id=i, P=n + 2)
        return vf, {c: pos[c] * cell for c in range(n)}
    else:
        raise core.MachineryError(f"unknown extent type {t}")
    return vf, {c: info["data_base"] + pos[c] * cell for c in range(n)}


def _built(opener, exts, hosts, note, cell=CELL):
    ncells = sum(e["n"] for e in exts)

    leadb = {i: e["lead"] for i, e in enumerate(exts) if e.get("lead")}

    def tokb(tok, a, n):
        if tok["k"] != "D":
            return None
        o = hosts[tok["f"]][tok["c"]] + a
        r = patterns.pat(tok["f"], o, n)
        ld = leadb.get(tok["f"])
        if ld and o < len(ld):   # the look-alike bytes a raw extent starts with
            r = ld[o:o + n] + r[len(ld[o:o + n]):]
        return r

    return disk.Built(open=opener, cell=cell, size=ncells * cell, bases={}, note=note, tok_bytes=tokb)


def realise_descriptor(exts, rng, work):
    from dissect.hypervisor.disk.vmdk import VMDK

    d = tempfile.mkdtemp(prefix="c10-", dir=work)
    lines, hosts = [], []
    for i, e in enumerate(exts):
        vf, host = _extent_file(e, i, rng, slack_ok=True)   # the descriptor declares the range; the file may be longer
        name = NAMES[e["name"]].format(i + 1)
        if e["type"] in ("FLAT", "VMFS"):
            name = name.replace(".vmdk", "-flat.vmdk")
        vf.materialise(os.path.join(d, name))
        # a sibling file whose name differs only in the case of its letters belongs to some other disk
        decoy = name.swapcase()
        if decoy != name and not os.path.exists(os.path.join(d, decoy)):
            _extent_file({k_: v_ for k_, v_ in e.items() if k_ != "lead"}, 0x60 + i, rng)[0].materialise(os.path.join(d, decoy))
        hosts.append(host)
        tail = " 0" if e["type"] == "FLAT" else ""
        lines.append(f'{rng.choice(["RW", "RW", "RDONLY"])} {e["n"] * GRAIN} {e["type"]} "{name}"{tail}')
    ctype = rng.choice(["twoGbMaxExtentSparse", "vmfs", "vmfsSparse", "seSparse", "monolithicFlat", "custom"])
    with open(os.path.join(d, "disk.vmdk"), "w", encoding="utf-8") as f:
        f.write(enc_vmdk.descriptor_text(lines, create_type=ctype))
    return _built(lambda: VMDK(Path(d) / "disk.vmdk"), exts, hosts, {"via": "descriptor", "createType": ctype, "lines": lines}), d


def realise_handles(exts, rng):
    from dissect.hypervisor.disk.vmdk import VMDK

    vfs, hosts = [], []
    for i, e in enumerate(exts):
        vf, host = _extent_file(e, i, rng)
        vfs.append(vf)
        hosts.append(host)

    def opener():
        for vf in vfs:
            vf.seek(0)
        return VMDK(list(vfs))

    return _built(opener, exts, hosts, {"via": "handles"})


def realise_hdd(exts, rng, work):
    from dissect.hypervisor.disk.hdd import HDD

    d = tempfile.mkdtemp(prefix="c10-", dir=work) + ".hdd"
    g = enc_hds.DEFAULT_TOP
    storages, files, hosts = [], {}, []
    start = 0
    for i, e in enumerate(exts):
        vf, host = _extent_file(e, i, rng)
        # image file names are taken as the descriptor spells them: blanks at either end, names that differ only in such a blank,
        # unicode, characters that are escaped in XML
        ext_ = "hds" if e["type"] == "HDS" else "hdd"
        fn = rng.choice([f"disk.{i}.{ext_}", f"disk.{i}.{ext_}", f"disk.{ext_}" + " " * i, " " * i + f"disk.{ext_}", f"dïsk ✓ {i}.{ext_}", f"a&b <{i}>.{ext_}", f"disk {i} .{ext_} "])
        if fn in files:
            fn = f"disk.{i}.{ext_}"
        files[fn] = vf
        hosts.append(host)
        end = start + e["n"] * GRAIN
        storages.append((start, end, [(g, "Compressed" if e["type"] == "HDS" else "Plain", fn)]))
        start = end
    order = list(range(len(storages)))
    rng.shuffle(order)  # StorageStream sorts storages by start
    enc_hds.write_hdd_dir(d, [storages[k] for k in order], [(g, enc_hds.NULL_GUID)], files, top_guid=g)
    return _built(lambda: HDD(Path(d)).open(), exts, hosts, {"via": "hdd", "order": order}), d


def _exts_of(st):
    ex = st["exts"]
    return [{"type": e["type"], "n": e["n"], "zero": list(e["zero"]), "name": e["name"]} for e in ex]


def direction_A(ctx, sts, mode):
    def work(sub, chunk, idx):
        rng = random.Random(ctx.seed * 101 + idx)
        wdir = tempfile.mkdtemp(prefix="verif-c10-")
        try:
            for st in chunk:
                exts = _exts_of(st)
                for e in exts:
                    if e["type"] in ("FLAT", "VMFS", "PLAIN") and rng.random() < 0.5:
                        e["lead"] = rng.choice(leads())
                view = disk.norm_view(st["view"])
                reals = []
                if mode == "vmdk":
                    b, d = realise_descriptor(exts, rng, wdir)
                    reals.append(("vmdk-descriptor", b, d))
                    if all(e["type"] != "VMFS" or True for e in exts):
                        # without a descriptor the reader has to tell an extent's kind from its content: no look-alikes there
                        reals.append(("vmdk-handles", realise_handles([{k: v for k, v in e.items() if k != "lead"} for e in exts], rng), None))
                else:
                    b, d = realise_hdd(exts, rng, wdir)
                    reals.append(("hdd-storages", b, d))
                for label, b, d in reals:
                    sapi = (lambda s, sec, cnt: s.read_sectors(sec, cnt)) if label.startswith("vmdk") else None
                    diskcheck.check_image(sub, label, {"exts": exts}, view, b, rng, full=True,
                                          attrs={"realisation": label, "types": "+".join(e["type"] for e in exts), "nexts": len(exts)},
                                          cap=28, sectors_api=sapi)
                    sub.extra["extent_lists_replayed"] = sub.extra.get("extent_lists_replayed", 0) + 1
                    if d:
                        shutil.rmtree(d, ignore_errors=True)
                if len(sub.violations) >= sub.max_violations:
                    return
        finally:
            shutil.rmtree(wdir, ignore_errors=True)

    core.parallel(ctx, work, sts)


WORDS = ["disk", "win", "C", "drive", "0", "42", "7", "copy", "(2)", "dïsk", "✓", "😀", "s001", "RW", "FLAT", "#", "=", "'", "a.b", "x", "d:", "C:data", "..x"]
SEPS = [" ", " ", '" ', ' "', '"', '" "', "-", " - ", "  ", "_", "\t",
        # characters some line-splitting helpers treat as line boundaries (str.splitlines): VT, FF, FS, GS, RS, NEL, LS, PS
        "\x0b", "\x0c", "\x1c", "\x1d", "\x1e", "\x85", "\u2028", "\u2029", "\r", "\\", ":", "\\\\"]


def random_name(rng, i):
    """A file name drawn from a small grammar: words (incl. numbers, descriptor keywords, unicode) joined by spaces, quotes
    and dashes, optionally starting / ending with a quote; unique per extent index."""
    k = rng.randrange(1, 5)
    parts = [rng.choice(['"', "", "", ""])]
    for j in range(k):
        if j:
            parts.append(rng.choice(SEPS))
        parts.append(rng.choice(WORDS))
    parts.append(rng.choice(["", "", '"', ' "']))
    parts.append(rng.choice([f"-e{i}.vmdk", f" e{i}.vmdk", f'" {i}', f'" e{i} 0', f".{i}\"", f' {i} "']))
    return "".join(parts)


def make_trace(tid, rng, nops=30, align=None, delta=False):
    """B: a random VMDK extent list at real geometry opened through VMDK([handles...]) or through a descriptor file naming
    the extents by randomly generated file names; trace for TraceDisk (extents source)."""
    from dissect.hypervisor.disk.vmdk import VMDK

    grain = rng.choice([8, 16, 128])
    gbytes = grain * 512
    k = rng.randrange(2, 6)
    many = rng.random() < 0.12      # several hundred small extents: a descriptor of tens of KiB
    if many:
        grain, gbytes, k = 8, 4096, rng.randrange(250, 420)
    vfs, exts, bases = [], [], []
    start = 0
    via = "descriptor" if delta else rng.choice(["handles", "descriptor"])
    # a delta disk: the sparse extents fall through to a parent disk (named by the descriptor) for grains they do not hold
    with_parent = via == "descriptor" and (delta or rng.random() < 0.4)
    lines, names = [], []
    for i in range(k):
        kind = rng.choice(["flat", "hosted", "hosted", "se", "cowd"])
        n = rng.randrange(1, 30)
        if many:
            kind, n = rng.choice(["flat", "flat", "hosted"]), rng.randrange(1, 3)
        names.append(random_name(rng, i))
        etype = {"flat": rng.choice(["FLAT", "VMFS"]), "hosted": "SPARSE", "se": "SESPARSE", "cowd": "VMFSSPARSE"}[kind]
        lines.append(f'{rng.choice(["RW", "RDONLY", "NOACCESS"])} {n * grain} {etype} "{names[-1]}"{" 0" if etype == "FLAT" else ""}')
        if kind == "flat":
            slack = rng.choice([0, 0, 512, gbytes, 5 * gbytes + 1024]) if via == "descriptor" else 0   # longer than declared
            vf = VirtualFile(n * gbytes + slack, [(0, n * gbytes + slack, "pat", i % 150)], fid=i % 150)
            exts.append({"fmt": "flat", "start": start, "n": n, "img": {}})
            bases.append(0)
        else:
            pos = list(range(1, n + 3))
            rng.shuffle(pos)
            kinds = ["U", "D", "D"] + ([] if kind == "cowd" else ["Z"]) + (["F"] if kind == "se" else [])
            ents = []
            for _ in range(n):
                t = rng.choice(kinds)
                ents.append((t, pos.pop()) if t == "D" else (t, 0))
            gtes = 4 if kind == "hosted" else 64 if kind == "se" else 4096
            present = [rng.random() < 0.9 for _ in range(-(-n // gtes))]
            for r in range(n):
                if not present[r // gtes]:
                    ents[r] = ("U", 0)
            if kind == "hosted":
                vf, info = enc_vmdk.build_hosted(ents, present, capacity=n * grain, grain=grain, gtes=gtes, file_id=i % 150, max_pos=n + 3, footer=rng.random() < 0.3)
            elif kind == "se":
                vf, info = enc_vmdk.build_sesparse(ents, present, capacity=n * grain, grain=grain, gt_sectors=1, file_id=i % 150, max_pos=n + 3)
            else:
                vf, info = enc_vmdk.build_cowd(ents, present, capacity=n * grain, grain=grain, file_id=i % 150, max_pos=n + 3)
            exts.append({"fmt": "vmdk", "start": start, "n": n,
                         "img": {"class": "cowd" if kind == "cowd" else "se" if kind == "se" else "sparse", "gtes": gtes, "cb": 1, "cap": n,
                                 "gd": [bool(x) for x in present], "t": [e[0] for e in ents], "p": [e[1] for e in ents], "parent": with_parent}})
            bases.append(info["data_base"])
        vfs.append(vf)
        start += n
    size_b = start * gbytes

    wdir = None
    if via == "descriptor":
        wdir = tempfile.mkdtemp(prefix="verif-c10b-")
        for vf, nm in zip(vfs, names):
            vf.materialise(os.path.join(wdir, nm))
        ctype = rng.choice(["twoGbMaxExtentSparse", "vmfs", "vmfsSparse", "seSparse", "monolithicFlat", "custom"])
        if with_parent:
            VirtualFile(size_b, [(0, size_b, "pat", disk.PARENT_F)]).materialise(os.path.join(wdir, "the parent-flat.vmdk"))
            with open(os.path.join(wdir, "the parent.vmdk"), "w", encoding="utf-8") as f:
                f.write(enc_vmdk.descriptor_text([f'RW {size_b // 512} FLAT "the parent-flat.vmdk" 0'], create_type="monolithicFlat", cid="12345678"))
        with open(os.path.join(wdir, "disk.vmdk"), "w", encoding="utf-8") as f:
            f.write(enc_vmdk.descriptor_text(lines, create_type=ctype, **({"parent_cid": "12345678", "parent_hint": "the parent.vmdk"} if with_parent else {})))

    def opener():
        if via == "descriptor":
            return VMDK(Path(wdir) / "disk.vmdk")
        for vf in vfs:
            vf.seek(0)
        return VMDK(list(vfs))

    geo = {"cellB": gbytes, "cb": 1, "stride": gbytes, "bases": bases, "pbase": 0}
    if k > 150:
        geo["fids"] = [i % 150 for i in range(k)]    # pattern file ids repeat beyond 150 extents
    out = {"tid": tid, "fmt": "extents", "exts": exts, "sizeB": size_b, "sector": 512, "geo": geo, "via": via,
           "lines": lines if via == "descriptor" else []}
    try:
        try:
            s = opener()
            # the probe needs its own handles: rebuild is expensive, so reuse the same files through a second VMDK object
            fresh = opener()
        except Exception as e:  # noqa: BLE001
            # opening a well-formed extent list must succeed (reported as a violation by diskprop.traces)
            raise RuntimeError(f"VMDK open via {via} raised {e!r}; extent lines: {lines}") from e
        rec = record.Recorder(s, size_b, probe=fresh.readoffset, align=align)
        record.random_ops(rec, rng, size_b, nops, unit=gbytes, big=min(20 * gbytes, 1 << 20), sectors_fn=s.read_sectors, ssize=512)
        out["events"] = rec.events
        return out
    finally:
        if wdir:
            shutil.rmtree(wdir, ignore_errors=True)


def make_trace_hdd(tid, rng, nops=30, **opt):
    """B: a Parallels HDD directory with several storages (plain / expanding) opened through HDD(path).open() (StorageStream)."""
    from dissect.hypervisor.disk.hdd import HDD

    cs = rng.choice([4096, 65536, 63 * 512])
    k = rng.randrange(2, 5)
    work = tempfile.mkdtemp(prefix="verif-c10b-")
    try:
        d = os.path.join(work, "x.hdd")
        g = enc_hds.DEFAULT_TOP
        storages, files, exts, bases = [], {}, [], []
        start = 0
        # snapshots: every storage holds one image per snapshot; the disk is read through the chain of the top snapshot
        depth = rng.choice([2, 3]) if opt.get("deep") else rng.choice([1, 1, 2, 3])
        guids = [g] + ["{%08x-1111-2222-3333-444444444444}" % (j + 1) for j in range(1, depth)]
        FM = 4
        for i in range(k):
            n = rng.randrange(1, 12)
            if depth > 1:
                chain, imgs = [], []
                for j in range(depth):
                    is_base = j == depth - 1
                    fid = i * FM + j
                    if is_base and rng.random() < 0.3:
                        vf = VirtualFile(n * cs, [(0, n * cs, "pat", fid)], fid=fid)
                        chain.append({"fmt": "flat", "img": {}})
                        fn, typ = f"s{i}-{j}.hdd", "Plain"
                    else:
                        pos = list(range(1, n + 3))
                        rng.shuffle(pos)
                        bat = [0 if rng.random() < 0.45 else pos.pop() for _ in range(n)]
                        vf, info = enc_hds.build({"ver": 2, "n": n, "cb": 1, "bat": {c: bat[c] for c in range(n)}, "size": n}, cluster_size=cs, file_id=fid, P=n + 3)
                        chain.append({"fmt": "hds", "img": {"kind": "hds", "ver": 2, "n": n, "cb": 1, "bat": bat, "size": n, "parent": not is_base}})
                        fn, typ = f"s{i}-{j}.hds", "Compressed"
                    files[fn] = vf
                    imgs.append((guids[j], typ, fn))
                exts.append({"fmt": "chain", "start": start, "n": n, "chain": chain, "img": {}})
                rng.shuffle(imgs)
                storages.append((start * cs // 512, (start + n) * cs // 512, imgs))
                start += n
                continue
            if rng.random() < 0.4:
                vf = VirtualFile(n * cs, [(0, n * cs, "pat", i)], fid=i)
                exts.append({"fmt": "flat", "start": start, "n": n, "img": {}})
                fn, typ = f"s{i}.hdd", "Plain"
            else:
                pos = list(range(1, n + 3))
                rng.shuffle(pos)
                bat = [0 if rng.random() < 0.3 else pos.pop() for _ in range(n)]
                vf, info = enc_hds.build({"ver": 2, "n": n, "cb": 1, "bat": {c: bat[c] for c in range(n)}, "size": n}, cluster_size=cs, file_id=i, P=n + 3)
                exts.append({"fmt": "hds", "start": start, "n": n, "img": {"kind": "hds", "ver": 2, "n": n, "cb": 1, "bat": bat, "size": n, "parent": False}})
                fn, typ = f"s{i}.hds", "Compressed"
            files[fn] = vf
            bases.append(0)
            storages.append((start * cs // 512, (start + n) * cs // 512, [(g, typ, fn)]))
            start += n
        rng.shuffle(storages)
        shots = [(guids[j], guids[j + 1] if j + 1 < depth else enc_hds.NULL_GUID) for j in range(depth)]
        rng.shuffle(shots)
        enc_hds.write_hdd_dir(d, storages, shots, files, top_guid=g)
        size_b = start * cs
        # one HDD object hands out several streams (what is opened earlier must not matter to what is opened later)
        hdd = HDD(Path(d))
        first = hdd.open(rng.choice(guids)) if rng.random() < 0.7 else hdd.open()     # another snapshot of the same disk, or the top one
        first.read(min(size_b, 4096))
        s = hdd.open() if rng.random() < 0.7 else HDD(Path(d)).open()
        fresh = hdd.open()
        rec = record.Recorder(s, size_b, probe=fresh.readoffset, align=opt.get("align"))
        record.random_ops(rec, rng, size_b, nops, unit=cs, big=min(6 * cs + 4096, 1 << 20))
        geo = {"cellB": cs, "cb": 1, "stride": cs, "bases": bases if depth == 1 else [0] * (k * FM), "pbase": 0}
        out = {"tid": tid, "fmt": "extents", "exts": exts, "sizeB": size_b, "sector": 512, "geo": geo, "events": rec.events}
        if depth > 1:
            out["fmul"] = FM
        return out
    finally:
        shutil.rmtree(work, ignore_errors=True)


def big_extents(ctx, rng):
    """Extents of 34-44 MiB behind one descriptor (raw and hosted sparse), read with single requests that take more than 32 MiB
    from one extent and run on into the next; extent file names in decomposed (NFD) unicode next to a composed look-alike."""
    import unicodedata
    from dissect.hypervisor.disk.vmdk import VMDK
    d = tempfile.mkdtemp(prefix="verif-c10big-")
    try:
        sizes = [rng.randrange(34, 45) << 20 for _ in range(3)]
        kinds = ["FLAT", "SPARSE", rng.choice(["FLAT", "VMFS"])]
        lines, parts = [], []
        for i, (sz, kind) in enumerate(zip(sizes, kinds)):
            nfd = unicodedata.normalize("NFD", f"dïsk é{i}")     # "i" + U+0308, "e" + U+0301: the name as a macOS host stores it
            name = f"{nfd}-{'flat' if kind != 'SPARSE' else 's001'}.vmdk"
            if kind == "SPARSE":
                ng = sz // (128 * 512)
                pos = list(range(1, ng + 1))
                rng.shuffle(pos)
                ents = [("D", pos[c]) if c % 7 else ("Z", 0) for c in range(ng)]
                vf, info = enc_vmdk.build_hosted(ents, [True] * (-(-ng // 512)), capacity=ng * 128, grain=128, gtes=512, file_id=i, max_pos=ng + 1)
                parts.append(("sparse", ents, info["data_base"], i))
            else:
                vf = VirtualFile(sz, [(0, sz, "pat", i)], fid=i)
                parts.append(("flat", sz, 0, i))
            vf.materialise(os.path.join(d, name))
            # the composed spelling of the same name is another file (of another disk)
            with open(os.path.join(d, unicodedata.normalize("NFC", name)), "wb") as f:
                f.write(b"not this one" * 100)
            lines.append(f'RW {sz // 512} {kind} "{name}"' + (" 0" if kind == "FLAT" else ""))
        with open(os.path.join(d, "big.vmdk"), "w", encoding="utf-8") as f:
            f.write(enc_vmdk.descriptor_text(lines, create_type="custom"))

        def expected(o, n):
            out, base = [], 0
            for (kind, a, db, fid), sz in zip(parts, sizes):
                lo, hi = max(o, base), min(o + n, base + sz)
                if lo < hi:
                    if kind == "flat":
                        out.append(patterns.pat(fid, lo - base, hi - lo))
                    else:
                        g0, g1 = (lo - base) // 65536, (hi - base - 1) // 65536
                        buf = []
                        for g in range(g0, g1 + 1):
                            k, p = a[g]
                            buf.append(patterns.pat(fid, db + p * 65536, 65536) if k == "D" else bytes(65536))
                        blob = b"".join(buf)
                        out.append(blob[(lo - base) - g0 * 65536:(lo - base) - g0 * 65536 + hi - lo])
                base += sz
            return b"".join(out)
        total = sum(sizes)
        v = VMDK(Path(d) / "big.vmdk")
        reqs = [(0, total), (4096, sizes[0] + sizes[1] - 8192), (sizes[0] - 512, sizes[1] + 1024), (sizes[0] + 65536 * 3 + 512, total - sizes[0] - 65536 * 3 - 512)]
        for o, n in reqs:
            ctx.case(key=("big-extents", o, n), nontrivial=True)
            try:
                v.seek(o)
                got = v.read(n)
            except Exception as e:  # noqa: BLE001
                ctx.violation({"format": "vmdk-descriptor", "fail": "read-raised", "sub": "big-extents", "exc": type(e).__name__}, {"read": [o, n], "sizes": sizes, "error": repr(e)[:300]})
                continue
            want = expected(o, n)
            if got != want:
                ctx.violation({"format": "vmdk-descriptor", "fail": "read-mismatch", "sub": "big-extents"}, {"read": [o, n], "sizes": sizes, "kinds": kinds, "diff": disk.first_diff(want, got)})
        if int(v.size) != total:
            ctx.violation({"format": "vmdk-descriptor", "fail": "size", "sub": "big-extents"}, {"want": total, "got": int(v.size)})
    finally:
        shutil.rmtree(d, ignore_errors=True)


def run(ctx):
    thorough = ctx.tier == "thorough"
    rng = random.Random(ctx.seed + 1010)
    ctx.rule = ("A: every extent list enumerated by TLC from spec/Extents.tla (1-2 extents x 5 types x 1-2 cells x hole yes/no x 3 file-name "
                "classes; thorough: up to 3 extents of up to 3 cells) realised as descriptor + extent files on disk and as a handle "
                "list; Parallels storages (plain / expanding, shuffled order); all cell-aligned and byte-jittered requests incl. "
                "extent-straddling and disk-tail ones, through read() and read_sectors(). Non-trivial = request crossing a source change.")
    ctx.assumptions = ["extent encoders as in C02/C06", "flat extents with non-zero start offsets and ZERO extents are outside the property's wording"]
    diskprop.tlc_check(ctx, "Extents", "Extents_small.cfg", need_actions=("Next",))
    sts = diskprop.dump_states(ctx, "Extents", "Extents_img.cfg")
    if thorough:
        sts3 = diskprop.dump_states(ctx, "Extents", "Extents_img3.cfg")
        sts = sts + rng.sample(sts3, min(len(sts3), 3000))
    else:
        sts = rng.sample(sts, min(len(sts), 700))
    direction_A(ctx, sts, "vmdk")
    direction_A(ctx, diskprop.dump_states(ctx, "Extents", "Extents_hdd.cfg"), "hdd")
    big_extents(ctx, rng)
    diskprop.traces(ctx, "extents", lambda tid, r: (make_trace if tid % 3 else make_trace_hdd)(tid, r, 40 if thorough else 25), 200 if thorough else 32,
                    "TraceDisk", "TraceDisk.cfg", lambda t: {"format": "extents", "n": len(t["exts"])}, label="random extent lists")


def replay(ctx, body):
    ctx.quiet = True
    d = body["detail"]
    if d.get("kind") == "tlc":
        r = tlc.run(d["module"], d["cfg"])
        print(r.output[-2000:])
        return not r.violated
    exts = d["img"]["exts"]
    hdd = any(e["type"] in ("PLAIN", "HDS") for e in exts)
    cfgs = ["Extents_hdd.cfg"] if hdd else ["Extents_img.cfg", "Extents_img3.cfg"]
    for cfg in cfgs:
        sts = [s for s in diskprop.dump_states(ctx, "Extents", cfg) if _exts_of(s) == exts]
        if sts:
            direction_A(ctx, sts, "hdd" if hdd else "vmdk")
            return not ctx.violations
    print("extent list not in the enumerated set")
    return True
