"""C16 - ESXi envelope and keystore: decrypt round-trips and is authenticated.

Spec: spec/Envelope.tla (symbolic crypto; ParseHeader -> KeyHashGate -> Decrypt/VerifyTag -> Return | Fail; RoundTrip,
NoPlaintextOnFailure, AuthFailsClosed).
A: every terminal state reached by TLC (payload length class x extra attributes x sealed-with-AAD x tamper site x given
   key / AAD) is realised as a real envelope built with AES-256-GCM by harness/enc_envelope.py (attribute sets of every
   type and order) and decrypted by the real Envelope; the CLI is run in-process on temp files; keystore texts in
   several styles derive the key via the real KeyStore.
B: the committed local.tgz.ve / encryption.info pair is re-decrypted and re-sealed (encoder self-check)."""
from __future__ import annotations

import io
import os
import random
import shutil
import sys
import tempfile
import uuid

from harness import core, diskprop, enc_envelope as E, tlaparse, tlc

LEVEL = "model_checking"

LENS = {"empty": 0, "one": 1, "block-1": 4095, "block": 4096, "block+1": 4097, "big": (4 << 20) + 5000, "multi": (12 << 20) + 77}
EXTRA_POOL = [
    (E.T_U8, "x.u8", 200, 0), (E.T_U16, "x.u16", 65000, 1), (E.T_U32, "x.u32", 0xDEADBEEF, 0), (E.T_U64, "x.u64", 2 ** 63 + 5, 0),
    (E.T_I8, "x.i8", -5, 0), (E.T_I16, "x.i16", -30000, 0), (E.T_I32, "x.i32", -2, 3), (E.T_I64, "x.i64", -(2 ** 62), 0),
    (E.T_DOUBLE, "x.double", 1.5, 0), (E.T_STRING, "x.string", "some text ✓", 0), (E.T_BYTES, "x.bytes", bytes(range(40)), 0),
    (E.T_STRING, "x.empty", "", 0), (E.T_BYTES, "x.nobytes", b"", 0), (E.T_FLOAT, "x.float", 0.25, 0),
]


def payload_of(n, salt):
    import hashlib
    return (hashlib.shake_128(b"payload-%d" % salt).digest(64) * (n // 64 + 1))[:n]


def find_attr(hdr, name):
    """-> (record_start, name_start, value_start, value_end) of attribute `name` in the header block"""
    i = 512
    import struct
    while hdr[i] != 0:
        start = i
        t = hdr[i]
        i += 4
        j = hdr.index(b"\0", i)
        nm = hdr[i:j].decode()
        ns = i
        i = j + 1
        if t == E.T_STRING:
            j = hdr.index(b"\0", i)
            vs, ve = i, j
            i = j + 1
        elif t == E.T_BYTES:
            n = struct.unpack("<Q", hdr[i:i + 8])[0]
            vs, ve = i + 8, i + 8 + n
            i = ve
        else:
            sz = struct.calcsize(E.FIXED[t])
            vs, ve = i, i + sz
            i = ve
        if nm == name:
            return start, ns, vs, ve
    raise KeyError(name)


def tamper(blob, info, site, rng, attrs):
    b = bytearray(blob)
    hl, cl = info["hdr_len"], info["ct_len"]

    def flip(pos):
        b[pos] ^= 1 << rng.randrange(8)

    if site in ("none", "aad"):
        return bytes(b)
    extra_names = [a[1] for a in attrs if a[1].startswith("x.")]
    target = rng.choice(extra_names) if extra_names and rng.random() < 0.6 else "vmware.keyInfo"
    if site == "attr-value":
        s, ns, vs, ve = find_attr(b, target)
        if ve == vs:
            s, ns, vs, ve = find_attr(b, "vmware.keyInfo")
        flip(rng.randrange(vs, ve))
    elif site == "attr-name":
        s, ns, vs, ve = find_attr(b, target)
        p = rng.randrange(ns, ns + 3)
        b[p] = b[p] ^ 0x01 if (b[p] ^ 0x01) != 0 else b[p] ^ 0x02
    elif site == "attr-type":
        s, ns, vs, ve = find_attr(b, target)
        b[s + 1] ^= 0x04  # the flag byte of the record (part of the authenticated header)
    elif site == "keyhash":
        s, ns, vs, ve = find_attr(b, "vmware.keyHash")
        flip(rng.randrange(vs, ve))
    elif site == "iv":
        s, ns, vs, ve = find_attr(b, "vmware.iv")
        flip(rng.randrange(vs, ve))
    elif site == "ct-first":
        flip(hl + 0)
    elif site == "ct-last":
        plen = cl - 4096 - info["padding"]
        flip(hl + max(0, plen - 1) if plen else hl + cl - 4096 - 1 if info["padding"] else hl + cl - 8)
    elif site == "ct-padding":
        if info["padding"]:
            flip(hl + cl - 4096 - rng.randrange(1, info["padding"] + 1))
        else:
            flip(hl + cl - 4096 + rng.randrange(0, 3584))  # filler of the crypto footer block
    elif site == "cryptofooter":
        flip(hl + cl - 8 + rng.randrange(0, 4))  # the padding field
    elif site == "tag":
        flip(len(b) - 4096 + 32 + rng.randrange(16))
    elif site == "tag-size":
        import struct
        b[len(b) - 8:len(b) - 4] = struct.pack("<I", rng.choice([0, 0, 1, 8, 15, 17, 32]))
    return bytes(b)


def run_case(ctx, st, rng, key, wrong_key, key_id):
    from dissect.hypervisor.util.envelope import Envelope

    s, g = st["sealed"], st["given"]
    n = LENS[s["len"]]
    payload = payload_of(n, rng.randrange(1 << 30))
    iv = bytes(rng.randrange(256) for _ in range(rng.choice([12, 12, 12, 16, 8, 32, 1])))   # GCM takes a nonce of any length
    extra = rng.sample(EXTRA_POOL, s["extra"])
    attrs = E.std_attrs(key, iv, key_id, extra=extra)
    order = list(range(len(attrs)))
    rng.shuffle(order)
    attrs = [attrs[i] for i in order]
    # fill level of the attribute area: a filler attribute sized so that header + attributes + terminator end exactly on a
    # block boundary (or one byte short of it), in one block or two
    if s.get("fill", "slack") != "slack":
        name = "x.fill"
        base = 512 + sum(len(E.attr_record(t, n_, v, f)) for t, n_, v, f in attrs) + 4 + len(E.attr_record(E.T_BYTES, name, b"", 0))
        blocks = 2 if s["fill"] == "two-blocks-exact" else 1
        spare = 1 if s["fill"] == "one-short" else 0
        flen = blocks * 4096 - base - spare
        if flen >= 0:
            attrs.insert(rng.randrange(len(attrs) + 1), (E.T_BYTES, name, bytes(rng.randrange(256) for _ in range(flen)), 0))
    aad = b"ESXConfiguration" if s["aad"] else None
    # padding: up to the block boundary (what ESXi writes), a block more, or any other amount (the encrypted section then does
    # not end on a block boundary - "every payload length, padding")
    padding = rng.choice([None, None, (-n) % 4096 + 4096, 0, 1, 16, rng.randrange(0, 4096), rng.randrange(0, 9000)]) if n < (1 << 20) else rng.choice([None, 0, 7])
    blob, info = E.seal(payload, key, iv, attrs, aad=aad, padding=padding)
    blob = tamper(blob, info, s["tamper"], rng, attrs)
    gaad = {"same": aad, "none": None, "other": b"SomethingElse"}[g["aad"]]
    if s["tamper"] == "aad":
        gaad = b"ESXConfiguratioN" if aad else b"unexpected"
    gkey = key if g["key"] == "right" else wrong_key
    # the state is the end of the third attempt on the same object: st["first"] is the specified outcome of the first
    # attempt (with `given`), st["second"] that of the second one (right key, the associated data it was sealed with),
    # st["phase"] that of the third (st["third"]: a wrong key, or other associated data)
    attrs_v = {"len": s["len"], "tamper": s["tamper"], "key": g["key"], "given_aad": g["aad"], "sealed_aad": s["aad"], "fill": s.get("fill", "slack"), "verify": g["verify"]}
    det = {"state": {"sealed": s, "given": g, "spec_first": st["first"], "spec_second": st["second"], "third": st["third"], "spec_third": st["phase"]}, "attr_names": [a[1] for a in attrs], "padding": info["padding"]}
    try:
        env = Envelope(io.BytesIO(blob), verify=g["verify"]) if not g["verify"] or rng.random() < 0.5 else Envelope(io.BytesIO(blob))
    except Exception as e:  # noqa: BLE001
        env = None
        det["error"] = f"{type(e).__name__}: {e}"[:200]
    garbles = s["tamper"] in ("iv", "ct-first", "ct-last", "ct-padding", "cryptofooter")     # Envelope!Garbles
    aad2 = (b"ESXConfiguratioN" if aad else b"unexpected") if s["tamper"] == "aad" else aad
    third = (3, st["phase"], wrong_key, aad2) if st["third"] == "wrong-key" else (3, st["phase"], key, b"SomethingElse")
    for attempt, want_phase, k_, a_ in ((1, st["first"], gkey, gaad), (2, st["second"], key, aad2), third):
        want_ok = want_phase == "returned"
        if not g["verify"] and garbles and k_ == key and s["tamper"] != "keyhash":
            continue     # tag verification off and the ciphertext / its trimming altered: the outcome is unspecified (Envelope!DecryptVerify)
        header_alt = not g["verify"] and k_ == key and s["tamper"] in ("attr-value", "attr-name", "attr-type")   # may be refused; if not, the payload
        got, ok = None, False
        if env is not None:
            try:
                got = env.decrypt(k_, aad=a_)
                ok = True
            except Exception as e:  # noqa: BLE001
                det["error"] = f"{type(e).__name__}: {e}"[:200]
        if header_alt:
            if ok and got != payload:
                ctx.violation({**attrs_v, "fail": "roundtrip", "attempt": attempt}, {**det, "attempt": attempt, "got_len": len(got), "want_len": n})
                return
            continue
        if want_ok and (not ok or got != payload):
            ctx.violation({**attrs_v, "fail": "roundtrip", "attempt": attempt}, {**det, "attempt": attempt, "got_len": (len(got) if got is not None else None), "want_len": n})
            return
        if not want_ok and ok:
            ctx.violation({**attrs_v, "fail": "accepted-tampered", "attempt": attempt}, {**det, "attempt": attempt, "got_len": len(got), "equals_payload": got == payload})
            return


def cli_cases(ctx, rng, key_text, key, key_id):
    """The command-line tool writes exactly the payload (envelopes sealed without AAD); on failure no plaintext is written."""
    from dissect.hypervisor.tools import envelope as tool

    work = tempfile.mkdtemp(prefix="verif-c16-")
    try:
        for i, (n, aad, bad, pre) in enumerate([(0, None, None, None), (1, None, None, None), (4096, None, None, None), (70000, None, None, None),
                                                (5000, b"ESXConfiguration", None, None), (5000, None, "tag", None), (5000, None, "ct-first", None),
                                                # the output path already exists (longer / shorter / equal): exactly the payload afterwards
                                                (3000, None, None, 9000), (3000, None, None, 10), (4096, None, None, 4096), (0, None, None, 77)]):
            payload = payload_of(n, 1000 + i)
            iv = bytes(rng.randrange(256) for _ in range(12))
            # vmware.keyInfo is a free-form string attribute: the tool decrypts with the keystore's key whatever its spelling
            kinfo = [key_id, key_id.upper(), "{" + key_id + "}", key_id.replace("-", ""), "urn:uuid:" + key_id, "some label ✓"][i % 6]
            attrs = E.std_attrs(key, iv, kinfo, extra=rng.sample(EXTRA_POOL, 2))
            blob, info = E.seal(payload, key, iv, attrs, aad=aad, padding=rng.choice([None, None, 0, 5, rng.randrange(0, 5000)]))
            if bad:
                blob = tamper(blob, info, bad, rng, attrs)
            ep, kp, op = (os.path.join(work, f"{i}.{x}") for x in ("ve", "info", "out"))
            open(ep, "wb").write(blob)
            open(kp, "w").write(key_text)
            if pre is not None:
                open(op, "wb").write(b"\xEE" * pre)
            argv = sys.argv
            sys.argv = ["envelope-decrypt", ep, "-ks", kp, "-o", op]
            rc, err = None, ""
            before = set(os.listdir(work))
            try:
                rc = tool.main()
            except SystemExit as e:
                rc = e.code
            except Exception as e:  # noqa: BLE001
                rc, err = "raised", repr(e)[:200]
            finally:
                sys.argv = argv
            out = open(op, "rb").read() if os.path.exists(op) else None
            new_files = sorted(set(os.listdir(work)) - before - {os.path.basename(op)})
            should_work = aad is None and bad is None
            ctx.case(key=("cli", i), nontrivial=True, sample={"cli": True, "payload_len": n, "aad": bool(aad), "tamper": bad} if i == 3 else None)
            if should_work and (rc != 0 or out != payload):
                ctx.violation({"fail": "cli-output", "sub": "cli"}, {"n": n, "rc": rc, "err": err, "out_len": None if out is None else len(out)})
            if not should_work and pre is None and (rc == 0 or (out is not None and len(out) > 0)):
                ctx.violation({"fail": "cli-wrote-on-failure", "sub": "cli"}, {"n": n, "rc": rc, "out_len": None if out is None else len(out)})
            if new_files:
                ctx.violation({"fail": "cli-extra-files", "sub": "cli"}, {"files": new_files})
    finally:
        shutil.rmtree(work, ignore_errors=True)


def keystore_cases(ctx, rng):
    from dissect.hypervisor.util.envelope import KeyStore

    import base64

    def rnd16(need=b"+/"):
        # values whose base64 form contains the characters that get percent-escaped ('+', '/' and the '=' padding)
        while True:
            b = bytes(rng.randrange(256) for _ in range(16))
            t = base64.b64encode(b)
            if all(bytes([c]) in t for c in need):
                return b

    d1 = [rnd16() for _ in range(2)]
    d2 = [rnd16() for _ in range(2)]
    kid = uuid.UUID(bytes=rnd16())
    want = {(a, b): E.derive_key(d1[a], d2[b]) for a, b in ((0, 0), (1, 0), (0, 1))}
    # same key id, different stored values; different styles; repeated parsing in one process
    seq = [(0, 0, 0), (1, 0, 1), (0, 1, 2), (0, 0, 1), (1, 0, 0)]
    import itertools
    orders = list(itertools.permutations(range(4)))
    for a, b, style in seq:
        for esc_case in ("esxi", "lower", "upper", "mixed", "none"):
            ctx.case(key=("ks", a, b, style, esc_case), nontrivial=True)
            try:
                # the name=value pairs of ConfigEncData in any order (they are looked up by name)
                ks = KeyStore.from_text(E.keystore_text(kid, d1[a], d2[b], style=style, esc_case=esc_case, order=rng.choice(orders)))
            except Exception as e:  # noqa: BLE001
                ctx.violation({"fail": "keystore-raised", "sub": "keystore", "esc_case": esc_case}, {"a": a, "b": b, "style": style, "error": repr(e)[:200]})
                continue
            if ks.key != want[(a, b)] or ks.id != str(kid):
                ctx.violation({"fail": "kdf", "sub": "keystore", "esc_case": esc_case}, {"a": a, "b": b, "style": style, "id": ks.id})
    for mode in ("TPM", "", "none"):
        try:
            KeyStore.from_text(E.keystore_text(kid, d1[0], d2[0], mode=mode))
            ctx.violation({"fail": "keystore-mode-accepted", "sub": "keystore"}, {"mode": mode})
        except Exception:  # noqa: BLE001
            pass
    return kid, d1[0], d2[0], want[(0, 0)]


def _fixture_selfcheck_body(ctx):
    """B: decrypt the committed pair with the real classes, re-seal with the encoder, decrypt again."""
    from dissect.hypervisor.util.envelope import Envelope, KeyStore

    base = os.path.join(core.repo_path(), "tests", "data")
    if not os.path.exists(os.path.join(base, "local.tgz.ve")):
        return
    ks = KeyStore.from_text(open(os.path.join(base, "encryption.info")).read())
    with open(os.path.join(base, "local.tgz.ve"), "rb") as fh:
        ev = Envelope(fh)
        plain = ev.decrypt(ks.key, aad=b"ESXConfiguration")
        attrs = [(a.type, name, a.value, a.flag) for name, a in ev.attributes.items()]
        iv = ev.iv
    blob, _ = E.seal(plain, ks.key, iv, attrs, aad=b"ESXConfiguration")
    again = Envelope(io.BytesIO(blob)).decrypt(ks.key, aad=b"ESXConfiguration")
    ctx.case(key="fixture", nontrivial=True)
    ctx.traces_validated += 1
    if again != plain:
        ctx.violation({"fail": "fixture-roundtrip"}, {"len": len(plain)})


def byte_sweep(ctx, rng, key, key_id):
    """thorough: every byte of every attribute record, of the tag, and a stride of ciphertext bytes is altered in turn."""
    from dissect.hypervisor.util.envelope import Envelope

    payload = payload_of(6000, 99)
    iv = bytes(range(12))
    attrs = E.std_attrs(key, iv, key_id, extra=EXTRA_POOL[:6])
    blob, info = E.seal(payload, key, iv, attrs, aad=b"A")
    import struct
    end_attrs = 512
    hdr = blob[:4096]
    i = 512
    # end of the attribute records (before the 4-byte terminator)
    s, ns, vs, ve = find_attr(hdr, attrs[-1][1])
    end_attrs = ve
    positions = []
    rec_starts = [find_attr(hdr, a[1])[0] for a in attrs]
    for p in range(512, end_attrs):
        if any(p in (rs + 2, rs + 3) for rs in rec_starts):
            continue  # the two reserved bytes of a record are not re-serialised (documented scope)
        positions.append(p)
    positions += list(range(len(blob) - 4096 + 32, len(blob) - 4096 + 48))
    positions += list(range(info["hdr_len"], info["hdr_len"] + info["ct_len"], 97))
    for p in positions:
        b = bytearray(blob)
        b[p] ^= 0x20
        ctx.case(key=("sweep", p), nontrivial=True)
        try:
            got = Envelope(io.BytesIO(bytes(b))).decrypt(key, aad=b"A")
            ctx.violation({"fail": "accepted-tampered", "sub": "byte-sweep"}, {"pos": p, "equals_payload": got == payload})
            if len(ctx.violations) > 10:
                return
        except Exception:  # noqa: BLE001
            pass


def run(ctx):
    thorough = ctx.tier == "thorough"
    rng = random.Random(ctx.seed + 16)
    ctx.rule = ("every terminal state of spec/Envelope.tla (7 payload length classes incl. 2 and 4 decryption chunks x 0-2 extra attributes x sealed AAD yes/no x 12 tamper "
                "sites x given key right/wrong x given AAD same/none/other) realised with real AES-256-GCM envelopes (random attribute "
                "types/order/flags, explicit extra padding), CLI runs on temp files, keystore texts in three styles; thorough: single-byte "
                "alteration of every attribute-record byte, tag byte and a stride of ciphertext bytes. Non-trivial = every case.")
    ctx.assumptions = ["pycryptodome AES-GCM, hashlib PBKDF2", "scope of 'altered': header attributes, AAD, ciphertext, tag (the reader "
                       "re-serialises the header: zero padding, the unused size field and reserved record bytes are outside the property)"]
    diskprop.tlc_check(ctx, "Envelope", "Envelope.cfg", min_states=1000, need_actions=("DecryptVerify",))
    rd = tlc.run("Envelope", "Envelope.cfg", dump=True)
    sts = [s for s in tlaparse.iter_dump(rd.dump) if s["phase"] in ("returned", "failed") and s["attempt"] == 3]
    tlc.cleanup(rd)
    kid, d1, d2, key = keystore_cases(ctx, rng)
    key_text = E.keystore_text(kid, d1, d2)
    wrong = bytes(32)
    if not thorough:
        big = [s for s in sts if s["sealed"]["len"] == "big"]
        multi = [s for s in sts if s["sealed"]["len"] == "multi"]
        sts = [s for s in sts if s["sealed"]["len"] not in ("big", "multi")]
        sts = rng.sample(sts, 900) + rng.sample(big, 12) + rng.sample([s for s in multi if s["second"] == "returned"], 6) + rng.sample(multi, 6)
    else:
        big = [s for s in sts if s["sealed"]["len"] == "big"]
        multi = [s for s in sts if s["sealed"]["len"] == "multi"]
        sts = [s for s in sts if s["sealed"]["len"] not in ("big", "multi")] + rng.sample(big, 60) + rng.sample(multi, 40)

    def work(sub, chunk, idx):
        r = random.Random(ctx.seed * 1600 + idx)
        for st in chunk:
            sub.case(key=repr((st["sealed"], st["given"])), nontrivial=True,
                     sample={"sealed": st["sealed"], "given": st["given"], "spec_phase": st["phase"]} if idx == 0 and st["sealed"]["tamper"] == "tag" else None)
            run_case(sub, st, r, key, wrong, str(kid))
            if len(sub.violations) >= sub.max_violations:
                return

    core.parallel(ctx, work, sts)
    cli_cases(ctx, rng, key_text, key, str(kid))
    fixture_selfcheck(ctx)
    if thorough:
        byte_sweep(ctx, rng, key, str(kid))


def replay(ctx, body):
    ctx.quiet = True
    run(ctx)
    return not ctx.violations


def fixture_selfcheck(ctx):
    try:
        _fixture_selfcheck_body(ctx)
    except core.MachineryError:
        raise
    except Exception as e:  # noqa: BLE001  (the code under test raised on the committed sample)
        import traceback
        ctx.violation({"fail": "fixture-raised", "sub": "fixture", "exc": type(e).__name__}, {"error": repr(e)[:300], "tb": traceback.format_exc()[-1200:]})
