"""C11 - termination and bounded resources on arbitrary input.

Spec: spec/Progress.tla (reference walks - Parallels snapshot chain, Hyper-V object-table discovery - terminate on
cyclic input: liveness under weak fairness), spec/Fault.tla (the fault catalogue <format, field|truncation|special,
class> and the linear resource bound that judges every recorded run).
A: TLC enumerates the catalogue; every entry is applied to a valid input built by the encoders (QCOW2, VMDK hosted /
   stream-optimised / COWD / SE-sparse, VHDX, VHD, VDI, HDS, Parallels DiskDescriptor, Hyper-V, envelope, vmtar,
   encrypted VMX) and run in a supervised worker process (kill on deadline, RLIMIT_AS): open + bounded reads must return
   or raise.  B: every run is an event (outcome, cpu, peak memory, sizes) validated by TLC against Fault!Bounded."""
from __future__ import annotations

import gzip
import io
import multiprocessing as mp
import os
import random
import resource
import shutil
import struct
import tempfile
import time
import tracemalloc
import zlib

from harness import core, disk, diskprop, enc_envelope, enc_hds, enc_hyperv, enc_qcow2, enc_vdi, enc_vhd, enc_vhdx, enc_vmdk, enc_vmtar, enc_vmx, patterns, tlaparse, tlc, tracecheck
from harness.vfile import VirtualFile

LEVEL = "fault_enumeration"
REQ = 256 * 1024  # bytes requested per read; 3 reads per run


# ----------------------------------------------------------------------------- valid inputs and their field tables
def _blob(vf):
    return vf.peek_bytes(0, vf.size())


def base_qcow2():
    l2 = {0: {"t": "N", "h": 1, "sub": []}, 1: {"t": "C", "h": 0, "sub": []}, 2: {"t": "ZP", "h": 0, "sub": []}, 3: {"t": "N", "h": 2, "sub": []}}
    img = {"ext": False, "datafile": False, "l2n": 64, "s": 1, "l1": {0: True}, "l2": l2, "back": -1, "size": 4}
    vf, _, info = enc_qcow2.build_with_snapshots(img, [img], cluster_bits=9, K=1)[0], None, None
    b = _blob(vf)
    l1 = struct.unpack(">Q", b[40:48])[0]
    l2o = struct.unpack(">Q", b[l1:l1 + 8])[0] & 0x00FFFFFFFFFFFE00
    so = struct.unpack(">Q", b[64:72])[0]
    F = [("magic", 0, 4, ">"), ("version", 4, 4, ">"), ("backing_off", 8, 8, ">"), ("backing_size", 16, 4, ">"), ("cluster_bits", 20, 4, ">"),
         ("size", 24, 8, ">"), ("crypt", 32, 4, ">"), ("l1_size", 36, 4, ">"), ("l1_off", 40, 8, ">"), ("nb_snapshots", 60, 4, ">"),
         ("snapshots_off", 64, 8, ">"), ("incompat", 72, 8, ">"), ("header_length", 100, 4, ">"), ("l1[0]", l1, 8, ">"),
         ("l2[0]", l2o, 8, ">"), ("l2[1]compressed", l2o + 8, 8, ">"), ("ext.len", 108, 4, ">"),
         ("snap.l1_off", so, 8, ">"), ("snap.l1_size", so + 8, 4, ">"), ("snap.id_size", so + 12, 2, ">"), ("snap.extra_size", so + 36, 4, ">")]
    T = [72, 104, 112, 512, l1, l1 + 8, l2o, l2o + 512, so, so + 40, len(b)]
    return b, F, T


def base_qcow2_ext():
    def e(t, h, sub):
        return {"t": t, "h": h, "sub": list(sub)}
    # sub-cluster patterns (S = 32): every adjacency of unallocated / allocated / zero runs
    pats = ["U" * 32, "Z" * 16 + "U" * 16, "U" * 8 + "Z" * 8 + "A" * 8 + "U" * 8, "ZU" * 16, "A" * 31 + "Z", "UZ" * 8 + "A" * 16, "Z" + "U" * 31]
    l2 = {}
    for k, p in enumerate(pats):
        l2[k] = e("N" if "A" in p else "U", k + 1, p)
    img = {"ext": True, "datafile": False, "l2n": 1024, "s": 32, "l1": {0: True}, "l2": l2, "back": len(pats) * 32, "size": len(pats) * 32}
    vf, _, info = enc_qcow2.build(img, cluster_bits=14, K=1)
    b = vf.peek_bytes(0, vf.size())
    l1 = struct.unpack(">Q", b[40:48])[0]
    l2o = struct.unpack(">Q", b[l1:l1 + 8])[0] & 0x00FFFFFFFFFFFE00
    F = [("incompat", 72, 8, ">"), ("cluster_bits", 20, 4, ">")]
    for k in range(len(pats)):
        F.append((f"l2[{k}].entry", l2o + 16 * k, 8, ">"))
        F.append((f"l2[{k}].bitmap", l2o + 16 * k + 8, 8, ">"))
        F.append((f"l2[{k}].bitmap.lo32", l2o + 16 * k + 12, 4, ">"))
        F.append((f"l2[{k}].bitmap.hi32", l2o + 16 * k + 8, 4, ">"))
    T = [l2o + 8, l2o + 16, l2o + 16 * len(pats), len(b)]
    return b, F, T


def read_qcow2_ext(b):
    from dissect.hypervisor.disk.qcow2 import QCow2
    size = 7 * 16384
    q = QCow2(io.BytesIO(b), backing_file=io.BytesIO(b"\x55" * size))
    q.read(size)
    for o in range(0, size, 16384):
        q.seek(o + 512 * 7)
        q.read(16384)


def read_qcow2(b):
    from dissect.hypervisor.disk.qcow2 import QCow2
    q = QCow2(io.BytesIO(b))
    _reads(q)
    for s in q.snapshots:
        _reads(s.open())


def _reads(s, size=None):
    size = s.size if size is None else size
    for o in (0, max(0, size // 2 - 100), max(0, size - 4096)):
        s.seek(o)
        s.read(REQ)


def base_vmdk(variant):
    ents = [("D", 1), ("Z", 0), ("D", 2), ("U", 0), ("D", 3), ("D", 4)]
    if variant == "stream":
        vf, info = enc_vmdk.build_hosted(ents, [True, True], capacity=46, grain=8, gtes=4, footer=True, compressed=True, lba=True, tight=True, max_pos=6)
    elif variant == "cowd":
        vf, info = enc_vmdk.build_cowd([e if e[0] != "Z" else ("U", 0) for e in ents], [True], capacity=46, grain=8, max_pos=6)
    elif variant == "se":
        vf, info = enc_vmdk.build_sesparse(ents, [True], capacity=46, grain=8, gt_sectors=1, max_pos=6)
    else:
        vf, info = enc_vmdk.build_hosted(ents, [True, True], capacity=46, grain=8, gtes=4, max_pos=6)
    b = _blob(vf)
    if variant in ("hosted", "stream"):
        hb = len(b) - 1024 if variant == "stream" else 0
        gd = struct.unpack("<Q", b[hb + 56:hb + 64])[0] * 512
        gt = struct.unpack("<I", b[gd:gd + 4])[0] * 512
        F = [("magic", hb, 4, "<"), ("version", hb + 4, 4, "<"), ("flags", hb + 8, 4, "<"), ("capacity", hb + 12, 8, "<"), ("grain", hb + 20, 8, "<"),
             ("desc_off", hb + 28, 8, "<"), ("desc_size", hb + 36, 8, "<"), ("num_gtes", hb + 44, 4, "<"), ("gd_off", hb + 56, 8, "<"),
             ("gd[0]", gd, 4, "<"), ("gd[1]", gd + 4, 4, "<"), ("gt[0]", gt, 4, "<"), ("gt[2]", gt + 8, 4, "<")]
        if variant == "stream":
            g0 = struct.unpack("<I", b[gt:gt + 4])[0] * 512
            F += [("hdr.gd_off(-1)", 56, 8, "<"), ("grain.cmp_size", g0 + 8, 4, "<"), ("grain.lba", g0, 8, "<")]
        T = [4, 79, 512, gd, gd + 8, gt, gt + 16, len(b) - 1024, len(b) - 512, len(b)]
    elif variant == "cowd":
        gd = struct.unpack("<I", b[20:24])[0] * 512
        gt = struct.unpack("<I", b[gd:gd + 4])[0] * 512
        F = [("magic", 0, 4, "<"), ("capacity", 12, 4, "<"), ("grain", 16, 4, "<"), ("gd_off", 20, 4, "<"), ("num_gd", 24, 4, "<"),
             ("gd[0]", gd, 4, "<"), ("gt[0]", gt, 4, "<"), ("gt[2]", gt + 8, 4, "<")]
        T = [4, 32, gd, gd + 4, gt, gt + 16384, len(b)]
    else:
        f = struct.unpack("<26Q", b[:208])
        gd, gt = f[16] * 512, f[18] * 512
        F = [(n, i * 8, 8, "<") for i, n in enumerate(["magic", "version", "capacity", "grain", "gt_size", "flags"])]
        F += [("gd_off", 16 * 8, 8, "<"), ("gd_size", 17 * 8, 8, "<"), ("gt_off", 18 * 8, 8, "<"), ("grains_off", 24 * 8, 8, "<"),
              ("gd[0]", gd, 8, "<"), ("gt[0]", gt, 8, "<"), ("gt[2]", gt + 16, 8, "<")]
        T = [8, 208, 512, gd, gd + 8, gt, gt + 512, len(b)]
    return b, F, T


def read_vmdk(b):
    from dissect.hypervisor.disk.vmdk import VMDK
    _reads(VMDK(io.BytesIO(b)))


def base_vhdx():
    blocks = [(6, 1), (2, None), (6, 0), (0, None)]
    vf, info = enc_vhdx.build(blocks, block_size=1 << 20, sector_size=512, disk_size=4 << 20)
    # keep only the metadata part (data blocks are virtual): readers seek sparsely, a BytesIO must hold the file
    b = bytearray(vf.peek_bytes(0, min(vf.size(), 6 << 20)))
    K64, MB = 65536, 1 << 20
    F = [("fileid", 0, 8, "<"), ("head1.sig", K64, 4, "<"), ("head1.seq", K64 + 8, 8, "<"), ("head2.seq", 2 * K64 + 8, 8, "<"),
         ("regi.sig", 3 * K64, 4, "<"), ("regi.count", 3 * K64 + 8, 4, "<"), ("regi[0].off", 3 * K64 + 32, 8, "<"), ("regi[0].len", 3 * K64 + 40, 4, "<"),
         ("regi[1].off", 3 * K64 + 64, 8, "<"), ("meta.sig", 2 * MB, 8, "<"), ("meta.count", 2 * MB + 10, 2, "<"), ("meta[0].off", 2 * MB + 48, 4, "<"),
         ("meta[0].len", 2 * MB + 52, 4, "<"), ("block_size", 2 * MB + K64, 4, "<"), ("fp.flags", 2 * MB + K64 + 4, 4, "<"),
         ("disk_size", 2 * MB + K64 + 8, 8, "<"), ("sector_size", 2 * MB + K64 + 32, 4, "<"), ("bat[0]", 3 * MB, 8, "<"), ("bat[1]", 3 * MB + 8, 8, "<")]
    T = [8, K64, K64 + 4096, 3 * K64 + 16, 2 * MB, 2 * MB + 32, 2 * MB + K64 + 8, 3 * MB, 3 * MB + 16, len(b)]
    return bytes(b), F, T


def read_vhdx(b):
    from dissect.hypervisor.disk.vhdx import VHDX
    _reads(VHDX(io.BytesIO(b)))


def base_vhd():
    img = {"kind": "dynamic", "n": 3, "cb": 1, "bat": {0: 1, 1: -1, 2: 0}, "size": 3, "foot511": False}
    vf, info = enc_vhd.build(img, block_size=4096, P=3)
    b = _blob(vf)
    e = len(b) - 512
    F = [("cookie", e, 8, ">"), ("features", e + 8, 4, ">"), ("data_offset", e + 16, 8, ">"), ("current_size", e + 48, 8, ">"), ("disk_type", e + 60, 4, ">"),
         ("dyn.cookie", 512, 8, ">"), ("dyn.table_offset", 512 + 16, 8, ">"), ("dyn.max_entries", 512 + 28, 4, ">"), ("dyn.block_size", 512 + 32, 4, ">"),
         ("bat[0]", 1536, 4, ">"), ("bat[1]", 1540, 4, ">")]
    T = [512, 1536, 1548, e, e + 511, len(b)]
    return b, F, T


def read_vhd(b):
    from dissect.hypervisor.disk.vhd import VHD
    _reads(VHD(io.BytesIO(b)))


def base_vdi():
    img = {"n": 4, "cb": 1, "map": {0: 2, 1: -1, 2: 0, 3: -2}, "size": 4, "parent": False}
    vf, cell, doff, _ = enc_vdi.build(img, block_size=4096, P=3)
    b = _blob(vf)
    F = [("signature", 64, 4, "<"), ("version", 68, 4, "<"), ("header_size", 72, 4, "<"), ("blocks_offset", 340, 4, "<"), ("data_offset", 344, 4, "<"),
         ("sector_size", 360, 4, "<"), ("disk_size", 368, 8, "<"), ("block_size", 376, 4, "<"), ("blocks_in_hdd", 384, 4, "<"), ("map[0]", 512, 4, "<"), ("map[2]", 520, 4, "<")]
    T = [64, 456, 512, 528, doff, len(b)]
    return b, F, T


def read_vdi(b):
    from dissect.hypervisor.disk.vdi import VDI
    _reads(VDI(io.BytesIO(b)))


def base_hds(ver):
    img = {"ver": ver, "n": 4, "cb": 1, "bat": {0: 2, 1: 0, 2: 1, 3: 3}, "size": 4}
    if ver == 1:
        img["bat"] = {0: 2, 1: 0, 2: 1, 3: 3}
    vf, info = enc_hds.build(img, cluster_size=4096, P=4)
    b = _blob(vf)
    F = [("sig", 0, 8, "<"), ("sectors", 28, 4, "<"), ("m_size", 32, 4, "<"), ("size_sectors", 36, 8, "<"), ("first_block", 48, 4, "<"),
         ("bat[0]", 64, 4, "<"), ("bat[1]", 68, 4, "<"), ("bat[3]", 76, 4, "<")]
    T = [16, 64, 80, 4096, len(b)]
    return b, F, T


def read_hds(b):
    from dissect.hypervisor.disk.hdd import HDS
    _reads(HDS(io.BytesIO(b)))


def base_hyperv():
    nodes = [{"id": 1, "parent": 0, "tbl": 1, "key": "configuration", "type": enc_hyperv.T_NODE, "value": 1},
             {"id": 2, "parent": 1, "tbl": 1, "key": "name", "type": enc_hyperv.T_STRING, "value": "vm ✓"},
             {"id": 3, "parent": 1, "tbl": 2, "key": "big", "type": enc_hyperv.T_ARRAY, "value": b"\x07" * 0x900},
             {"id": 4, "parent": 1, "tbl": 2, "key": "n", "type": enc_hyperv.T_INT, "value": -5}]
    tables, fobjs, lay = enc_hyperv.plan_tables(nodes, ntables_free={1}, stale={2})
    b = enc_hyperv.build(tables, fobjs, hdr_seqs=(3, 2))
    kt = tables[0]["offset"]
    e0 = kt + 10
    F = [("sig", 0, 4, "<"), ("seq", 8, 2, "<"), ("version", 10, 4, "<"), ("alignment", 22, 4, "<"), ("replay_off", 26, 8, "<"),
         ("objtab.sig", 0x2000, 4, "<"), ("objtab.count", 0x2004, 4, "<"), ("obj[0].type", 0x2008, 1, "<"), ("obj[0].offset", 0x2008 + 5, 8, "<"),
         ("obj[0].size", 0x2008 + 13, 4, "<"), ("replay.sig", 0x3000, 4, "<"), ("replay.count", 0x3008, 4, "<"),
         ("kt.sig", kt, 2, "<"), ("kt.index", kt + 2, 2, "<"), ("e0.type", e0, 2, "<"), ("e0.size", e0 + 2, 4, "<"), ("e0.parent_idx", e0 + 6, 2, "<"),
         ("e0.parent_off", e0 + 8, 4, "<"), ("e0.data_offset", e0 + 20, 1, "<")]
    T = [46, 0x1000, 0x2008, 0x2008 + 18, 0x3000, kt, kt + 10, kt + 31, len(b)]
    return b, F, T


def read_hyperv(b):
    from dissect.hypervisor.descriptor.hyperv import HyperVFile
    h = HyperVFile(io.BytesIO(b))
    h.as_dict()


def base_envelope():
    key = bytes(range(32))
    attrs = enc_envelope.std_attrs(key, bytes(12), "00000000-0000-0000-0000-000000000001", extra=[(enc_envelope.T_BYTES, "x.bytes", b"abc", 0), (enc_envelope.T_U32, "x.u32", 7, 0)])
    b, info = enc_envelope.seal(b"payload" * 100, key, bytes(12), attrs)
    # first attribute record starts at 512
    F = [("magic", 0, 8, "<"), ("size", 504, 4, "<"), ("version", 508, 4, "<"), ("attr0.type", 512, 1, "<"), ("attr0.flag", 513, 1, "<"),
         ("aead.size", len(b) - 8, 4, "<"), ("aead.version", len(b) - 4, 4, "<")]
    # the length of the first Bytes attribute (vmware.keyHash)
    i = b.index(b"vmware.keyHash\0") + len(b"vmware.keyHash\0")
    F.append(("keyhash.len", i, 8, "<"))
    T = [21, 512, 516, i, i + 8, 4096, 4096 + 16, len(b) - 4096, len(b) - 8, len(b)]
    return b, F, T


def read_envelope(b):
    from dissect.hypervisor.util.envelope import Envelope
    Envelope(io.BytesIO(b)).decrypt(bytes(range(32)))


def base_vmtar():
    members = [{"name": "d/", "visor": True, "dir": True, "size": 0, "inline": True, "slot": 1, "data": b"", "prefix": ""},
               {"name": "d/a", "visor": True, "dir": False, "size": 700, "inline": False, "slot": 1, "data": b"a" * 700, "prefix": ""},
               {"name": "d/b", "visor": False, "dir": False, "size": 513, "inline": True, "slot": 1, "data": b"b" * 513, "prefix": ""}]
    b, offs = enc_vmtar.build(members)
    F = [("m1.size(octal)", 512 + 124, 11, "text"), ("m1.offset", 512 + 496, 4, "<"), ("m1.chksum", 512 + 148, 6, "text"), ("m0.type", 156, 1, "<"),
         ("m2.size(octal)", 1024 + 124, 11, "text")]
    T = [512, 1024, 1536, 2048, 3072, 4096, len(b)]
    return b, F, T


def read_vmtar(b):
    from dissect.hypervisor.util import vmtar
    t = vmtar.open(fileobj=io.BytesIO(b))
    for m in t.getmembers():
        if m.isfile():
            t.extractfile(m).read(REQ)


FORMATS = {
    "qcow2": (base_qcow2, read_qcow2), "qcow2-extl2": (base_qcow2_ext, read_qcow2_ext), "vmdk-hosted": (lambda: base_vmdk("hosted"), read_vmdk), "vmdk-stream": (lambda: base_vmdk("stream"), read_vmdk),
    "vmdk-cowd": (lambda: base_vmdk("cowd"), read_vmdk), "vmdk-se": (lambda: base_vmdk("se"), read_vmdk), "vhdx": (base_vhdx, read_vhdx),
    "vhd": (base_vhd, read_vhd), "vdi": (base_vdi, read_vdi), "hds1": (lambda: base_hds(1), read_hds), "hds2": (lambda: base_hds(2), read_hds),
    "hyperv": (base_hyperv, read_hyperv), "envelope": (base_envelope, read_envelope), "vmtar": (base_vmtar, read_vmtar),
}


def field_value(cls, orig, size, off, flen):
    mx = (1 << (8 * size)) - 1
    return {"zero": 0, "one": 1, "max": mx, "max-1": mx - 1, "plus1": (orig + 1) & mx, "minus1": (orig - 1) & mx, "signbit": 1 << (8 * size - 1),
            "self": off & mx, "filesize": flen & mx}[cls]


def mutate(fmt, base, entry):
    b, F, T = base
    kind, target, cls = entry["kind"], entry["target"], entry["class"]
    if kind == "field":
        name, off, size, end = F[target - 1]
        m = bytearray(b)
        if end == "text":
            v = {"zero": b"0" * size, "one": b"1".rjust(size, b"0"), "max": b"7" * size, "max-1": b"7" * (size - 1) + b"6", "plus1": b"9" * size,
                 "minus1": b"-" + b"1" * (size - 1), "signbit": b"\x80" + b"\0" * (size - 1), "self": b" " * size, "filesize": b"\xff" * size}[cls]
            m[off:off + size] = v
        else:
            orig = int.from_bytes(b[off:off + size], "big" if end == ">" else "little")
            val = field_value(cls, orig, size, off, len(b))
            m[off:off + size] = val.to_bytes(size, "big" if end == ">" else "little")
        return bytes(m), name
    if kind == "trunc":
        cut = max(0, T[target - 1] + int(cls))
        return b[:cut], f"cut@{cut}"
    raise ValueError(kind)


# ----------------------------------------------------------------------------- specials: cycles, bombs, empty, garbage
def specials():
    out = []

    def hdd_cycle(n):
        def run(work):
            from pathlib import Path
            from dissect.hypervisor.disk.hdd import HDD
            d = tempfile.mkdtemp(prefix="cyc-", dir=work) + ".hdd"
            g = [enc_hds.DEFAULT_TOP] + ["{%08x-0000-0000-0000-000000000000}" % (k + 1) for k in range(1, n)]
            vf, _ = enc_hds.build({"ver": 2, "n": 1, "cb": 1, "bat": {0: 1}, "size": 1}, cluster_size=4096, P=2)
            shots = [(g[k], g[(k + 1) % n]) for k in range(n)]  # a cycle of length n (n = 1: its own parent)
            enc_hds.write_hdd_dir(d, [(0, 8, [(x, "Compressed", "a.hds") for x in g])], shots, {"a.hds": vf}, top_guid=g[0])
            return lambda: HDD(Path(d)).open().read(4096)
        return run

    for n in (1, 2, 3):
        out.append(("hdd", f"snapshot-parent-cycle-{n}", hdd_cycle(n), 4, 8))

    def vmdk_chain_missing_base(n):
        def run(work):
            # a chain of n delta descriptors whose base is gone: the failure travels up through every level
            from pathlib import Path
            from dissect.hypervisor.disk.vmdk import VMDK
            d = tempfile.mkdtemp(prefix="chain-", dir=work)
            for k in range(n):
                vf, _ = enc_vmdk.build_hosted([("U", 0)], [True], capacity=8, grain=8, gtes=4, file_id=k)
                vf.materialise(os.path.join(d, f"l{k}-s001.vmdk"))
                with open(os.path.join(d, f"l{k}.vmdk"), "w") as f:
                    f.write(enc_vmdk.descriptor_text([f'RW 8 SPARSE "l{k}-s001.vmdk"'], parent_cid="1234abcd", parent_hint=f'C:\\vm "dir"\\l{k + 1}.vmdk'))
            return lambda: VMDK(Path(d) / "l0.vmdk").read(4096)
        return run

    out.append(("vmdk-descriptor", "chain-of-30-deltas-missing-base", vmdk_chain_missing_base(30), 20, 16))

    def sequential(kind):
        def run(work):
            # a valid, well compressible image read front to back in 256 KiB requests: what a request needs is given back afterwards
            if kind == "vmdk-stream":
                from dissect.hypervisor.disk.vmdk import VMDK
                ng = 2560
                vf, _ = enc_vmdk.build_hosted([("D", k + 1) for k in range(ng)], [True] * (-(-ng // 512)), capacity=ng * 128, grain=128, gtes=512, footer=True,
                                              compressed=True, lba=True, max_pos=ng + 1)
                op = lambda: VMDK(vf)  # noqa: E731
            else:
                from dissect.hypervisor.disk.qcow2 import QCow2
                nc = 2560
                l2 = {c: {"t": "C", "h": c, "sub": []} for c in range(nc)}
                vf, _, _ = enc_qcow2.build({"ext": False, "datafile": False, "l2n": 8192, "s": 1, "l1": {0: True}, "l2": l2, "back": -1, "size": nc}, cluster_bits=16, K=1)
                op = lambda: QCow2(vf)  # noqa: E731

            def go():
                s = op()
                while True:
                    if not s.read(256 << 10):
                        break
            return go
        return run

    out.append(("vmdk-stream", "sequential-read-of-160MiB-in-256KiB-requests", sequential("vmdk-stream"), 2048, 256))
    out.append(("qcow2", "sequential-read-of-160MiB-compressed-in-256KiB-requests", sequential("qcow2"), 2048, 256))

    def hyperv_selfref(mode):
        def run(work):
            nodes = [{"id": 1, "parent": 0, "tbl": 1, "key": "k", "type": enc_hyperv.T_INT, "value": 1}]
            tables, fobjs, lay = enc_hyperv.plan_tables(nodes)
            more = None
            if mode == "self":
                extra = [(enc_hyperv.OBJ_OBJTAB, 0x2000, 0x1000, 1)]
            elif mode == "multi":
                extra = [(enc_hyperv.OBJ_OBJTAB, 0x2000, 0x1000, 1)] * 3
            elif mode == "mutual":      # A lists B, B lists A
                extra = [(enc_hyperv.OBJ_OBJTAB, 0x40000, 0x1000, 1)]
                more = {0x40000: [(enc_hyperv.OBJ_OBJTAB, 0x2000, 0x1000, 1)]}
            else:                       # A -> B -> C -> A, and C also lists B
                extra = [(enc_hyperv.OBJ_OBJTAB, 0x40000, 0x1000, 1)]
                more = {0x40000: [(enc_hyperv.OBJ_OBJTAB, 0x41000, 0x1000, 1)],
                        0x41000: [(enc_hyperv.OBJ_OBJTAB, 0x2000, 0x1000, 1), (enc_hyperv.OBJ_OBJTAB, 0x40000, 0x1000, 1)]}
            b = enc_hyperv.build(tables, fobjs, extra_objects=extra, more_objtabs=more)
            return lambda: read_hyperv(b)
        return run

    def hyperv_parent_cycle(mode):
        def run(work):
            nodes = [{"id": 1, "parent": 0, "tbl": 1, "key": "a", "type": enc_hyperv.T_NODE, "value": 1},
                     {"id": 2, "parent": 1, "tbl": 1, "key": "b", "type": enc_hyperv.T_NODE, "value": 2},
                     {"id": 3, "parent": 2, "tbl": 1, "key": "c", "type": enc_hyperv.T_NODE, "value": 3},
                     {"id": 4, "parent": 3, "tbl": 1, "key": "leaf", "type": enc_hyperv.T_INT, "value": 4}]
            tables, fobjs, lay = enc_hyperv.plan_tables(nodes)
            ents = tables[0]["entries"]
            offs, cur = [], 10
            for e in ents:
                offs.append(cur)
                cur += len(e)
            # parent references (table index, entry offset) rewritten into a cycle: a -> a, a <-> b, a -> c -> b -> a
            target = {"self": {0: 0}, "mutual": {0: 1}, "three": {0: 2}}[mode]
            for k, to in target.items():
                ents[k] = ents[k][:6] + struct.pack("<HI", 1, offs[to]) + ents[k][12:]
            b = enc_hyperv.build(tables, fobjs)
            return lambda: read_hyperv(b)
        return run

    for mode in ("self", "mutual", "three"):
        out.append(("hyperv", f"entry-parent-cycle-{mode}", hyperv_parent_cycle(mode), 24, 8))
    out.append(("hyperv", "object-table-lists-itself", hyperv_selfref("self"), 24, 4))
    out.append(("hyperv", "object-table-lists-itself-3x", hyperv_selfref("multi"), 24, 4))
    out.append(("hyperv", "object-tables-list-each-other", hyperv_selfref("mutual"), 300, 4))
    out.append(("hyperv", "object-table-cycle-of-three", hyperv_selfref("cycle3"), 300, 4))

    def vmdk_bomb(work, hdr_grain=None):
        # a stream-optimised grain whose deflate stream inflates to 256 MiB (the grain is 4 KiB)
        ents = [("D", 1), ("D", 2)]
        vf, info = enc_vmdk.build_hosted(ents, [True], capacity=16, grain=8, gtes=4, footer=True, compressed=True, lba=True, max_pos=3, slot_mult=80)
        b = bytearray(_blob(vf))
        gd = struct.unpack("<Q", b[len(b) - 1024 + 56:len(b) - 1024 + 64])[0] * 512
        gt = struct.unpack("<I", b[gd:gd + 4])[0] * 512
        g0 = struct.unpack("<I", b[gt:gt + 4])[0] * 512
        bomb = zlib.compress(bytes(256 << 20), 9)
        rec = struct.pack("<QI", 0, len(bomb)) + bomb
        assert len(rec) < 80 * 8 * 512
        b[g0:g0 + len(rec)] = rec
        if hdr_grain is not None:
            b[20:28] = struct.pack("<Q", hdr_grain)   # grain size field of the header copy in sector 0 (the footer is authoritative)
        blob = bytes(b)
        del b, bomb, rec
        return lambda: read_vmdk(blob)
    out.append(("vmdk-stream", "inflate-bomb-256MiB-in-4KiB-grain", vmdk_bomb, 300, 768))
    out.append(("vmdk-stream", "inflate-bomb+header-copy-grain-size-0", lambda w: vmdk_bomb(w, 0), 300, 768))
    out.append(("vmdk-stream", "inflate-bomb+header-copy-grain-size-huge", lambda w: vmdk_bomb(w, 1 << 40), 300, 768))

    def qcow2_bomb(work):
        b, F, T = base_qcow2()
        m = bytearray(b)
        l1 = struct.unpack(">Q", m[40:48])[0]
        l2o = struct.unpack(">Q", m[l1:l1 + 8])[0] & 0x00FFFFFFFFFFFE00
        desc = struct.unpack(">Q", m[l2o + 8:l2o + 16])[0]
        coff = desc & ((1 << 61) - 1)
        co = zlib.compressobj(9, zlib.DEFLATED, -12)
        bomb = co.compress(bytes(256 << 20)) + co.flush()
        m = m.ljust(len(m) + len(bomb) + 1024, b"\0")
        where = len(b) + 7
        m[where:where + len(bomb)] = bomb
        # descriptor: maximal sector count, offset of the bomb
        newdesc = (1 << 62) | (1 << 61) | where
        m[l2o + 8:l2o + 16] = struct.pack(">Q", newdesc)
        blob = bytes(m)
        del m, bomb
        return lambda: read_qcow2(blob)
    out.append(("qcow2", "inflate-bomb-256MiB-in-512B-cluster", qcow2_bomb, 300, 768))

    def qcow2_bomb_64k(work):
        # 64 KiB clusters: the compressed-cluster descriptor can span 255 sectors, enough deflate data for hundreds of MiB
        l2 = {0: {"t": "N", "h": 1, "sub": []}, 1: {"t": "C", "h": 0, "sub": []}, 2: {"t": "N", "h": 2, "sub": []}}
        img = {"ext": False, "datafile": False, "l2n": 8192, "s": 1, "l1": {0: True}, "l2": l2, "back": -1, "size": 3}
        vf, _, info = enc_qcow2.build(img, cluster_bits=16, K=1)
        m = bytearray(_blob(vf))
        l1 = struct.unpack(">Q", m[40:48])[0]
        l2o = struct.unpack(">Q", m[l1:l1 + 8])[0] & 0x00FFFFFFFFFFFE00
        co = zlib.compressobj(9, zlib.DEFLATED, -12)
        bomb = co.compress(bytes(120 << 20)) + co.flush()
        assert len(bomb) < 255 * 512
        where = (len(m) + 511) // 512 * 512
        m = m.ljust(where + 256 * 512, b"\0")
        m[where:where + len(bomb)] = bomb
        # descriptor layout for cluster_bits 16: offset in the low 54 bits, (sectors - 1) in the 8 bits above
        m[l2o + 8:l2o + 16] = struct.pack(">Q", (1 << 62) | (254 << 54) | where)
        blob = bytes(m)
        del m, bomb
        return lambda: read_qcow2(blob)
    out.append(("qcow2", "inflate-bomb-120MiB-in-64KiB-cluster", qcow2_bomb_64k, 400, 768))

    def gz_vmtar_bomb(work):
        from dissect.hypervisor.util import vmtar
        b, F, T = base_vmtar()
        blob = gzip.compress(b + bytes(64 << 20))

        def go():
            t = vmtar.open(fileobj=io.BytesIO(blob))
            t.getmembers()
        return go
    out.append(("vmtar", "gzip-wrapped-64MiB-of-zeros-after-archive", gz_vmtar_bomb, 80, 8))

    def empty(fmt):
        def run(work):
            return lambda: FORMATS[fmt][1](b"")
        return run

    def garbage(fmt, seed):
        def run(work):
            r = random.Random(seed)
            blob = bytes(r.randrange(256) for _ in range(8192))
            return lambda: FORMATS[fmt][1](blob)
        return run

    def valid(fmt):
        def run(work):
            blob = FORMATS[fmt][0]()[0]
            return lambda: FORMATS[fmt][1](blob)
        return run

    for fmt in FORMATS:
        out.append((fmt, "valid-unmodified-input", valid(fmt), 6200, 768))
        out.append((fmt, "empty-input", empty(fmt), 0, 768))
        out.append((fmt, "random-8KiB", garbage(fmt, 1), 8, 768))

    def vmx_rounds(work):
        from dissect.hypervisor.descriptor.vmx import VMX
        text = enc_vmx.vmx_text({}, enc_vmx.keysafe([enc_vmx.pair_text("p", bytes(32), rounds=1)]), b"\0" * 64)
        text = text.replace("rounds%253d1%253a", "rounds%253d0%253a")
        return lambda: VMX.parse(text).unlock_with_phrase("p")

    out.append(("vmx", "pbkdf2-rounds-0", vmx_rounds, 1, 1))

    def vmdk_descriptor_numbers(work):
        from dissect.hypervisor.disk.vmdk import DiskDescriptor
        text = enc_vmdk.descriptor_text(['RW 99999999999999999999999999999999 SPARSE "x.vmdk"', 'RW 1 FLAT "' + "y" * 100000 + '" 0'])
        return lambda: DiskDescriptor.parse(text)
    out.append(("vmdk-descriptor", "huge-numbers-and-names", vmdk_descriptor_numbers, 100, 1))

    # two header fields altered together (the single-field catalogue cannot reach states that need both): QCOW2 header walk
    def qcow2_pairs(work):
        b, F, T = base_qcow2()
        names = {f[0]: f for f in F}
        A = ["backing_off", "backing_size", "header_length", "ext.len", "l1_size", "nb_snapshots", "snapshots_off"]
        classes = ["max", "signbit", "max-1", "filesize", "zero"]
        blobs = []
        for i, fa in enumerate(A):
            for fb in A[i + 1:]:
                for ca in classes:
                    for cb_ in classes:
                        m = bytearray(b)
                        for fn_, cl in ((fa, ca), (fb, cb_)):
                            _, off, size, end = names[fn_]
                            orig = int.from_bytes(b[off:off + size], "big")
                            val = field_value(cl, orig, size, off, len(b))
                            m[off:off + size] = val.to_bytes(size, "big")
                        blobs.append(bytes(m))
        # values just above 2^32 in 64-bit fields together with lengths just below 2^32
        for boff in (1 << 32, (1 << 32) + 8, (1 << 32) + 0x70, 1 << 33):
            for elen in (0xFFFFFFF0, 0xFFFFFF90, 0xFFFFFFF8 - 0x70, 0xFFFFFFFF, 0x80000000):
                m = bytearray(b)
                m[8:16] = struct.pack(">Q", boff)
                m[16:20] = struct.pack(">I", 10)
                m[108:112] = struct.pack(">I", elen)
                blobs.append(bytes(m))

        def go():
            for blob in blobs:
                try:
                    read_qcow2(blob)
                except Exception:  # noqa: BLE001
                    pass
        return go
    out.append(("qcow2", "two-header-fields-altered-together", qcow2_pairs, 600, 768))

    def qcow2_ext_walk(work):
        """The header-extension walk with an extension area that formally spans beyond 4 GiB and lengths near 2^32: every
        8-aligned landing offset, over headers whose free words hold small values (so that a walk that ever came back into the
        header would keep moving through it)."""
        r = random.Random(4242)
        blobs = []
        for _ in range(1500):
            hl = r.choice([104, 112])
            small = lambda: r.choice([0, 8, 16, 24, 40, 56, 64, 72, 88, 96, 3, 5, 104])   # noqa: E731
            big = lambda: r.choice([1, 2, 0x100, 0x7FFFFFFF])   # noqa: E731
            w = [0] * 28
            w[0], w[1] = 0x514649FB, 3
            w[2], w[3] = r.choice([1, 2]), small() if r.random() < 0.5 else r.choice([0x20, 0x70, 0x1000])  # backing_file_offset >= 2^32
            w[4], w[5] = r.choice([1, 10, 64]), r.choice([9, 12, 16, 16, 21])                                   # backing_file_size, cluster_bits
            w[6], w[7] = big(), small()                                                                         # size
            w[8], w[9] = 0, r.choice([1, 1, 8, 56])                                                             # crypt_method, l1_size
            w[10], w[11] = big(), small()                                                                       # l1_table_offset
            w[12], w[13] = big(), small()                                                                       # refcount_table_offset
            w[14], w[15] = r.choice([1, 2, 7]), small()                                                         # refcount_table_clusters, nb_snapshots
            w[16], w[17] = big(), small()                                                                       # snapshots_offset
            w[18], w[19] = 0, 0                                                                                 # incompatible_features
            w[20], w[21] = big(), small()                                                                       # compatible_features
            w[22], w[23] = big(), small()                                                                       # autoclear_features
            w[24], w[25] = 4, hl                                                                                # refcount_order, header_length
            w[26], w[27] = 0, 0
            hdr = struct.pack(">28I", *w)[:hl]
            target = r.randrange(0, 128, 8)
            elen = ((1 << 32) + target - (hl + 8) - r.randrange(0, 8)) & 0xFFFFFFFF
            blobs.append(hdr + struct.pack(">II", r.choice([0x12345678, 0x6803f857, 0xE2792ACA]), elen) + bytes(96))

        def go():
            from dissect.hypervisor.disk import qcow2
            for blob in blobs:
                try:
                    qcow2.QCow2(io.BytesIO(blob), backing_file=qcow2.ALLOW_NO_BACKING_FILE)
                except Exception:  # noqa: BLE001
                    pass
        return go
    out.append(("qcow2", "extension-walk-lengths-near-4GiB", qcow2_ext_walk, 400, 1))

    # valid images with very large allocation units, mostly unallocated: a small read must not cost a unit of memory
    def large_units(fmt):
        def run(work):
            U = 256 << 20
            if fmt == "vdi":
                from dissect.hypervisor.disk.vdi import VDI
                vf, *_ = enc_vdi.build({"n": 4, "cb": 1, "map": {0: -1, 1: -2, 2: -1, 3: -1}, "size": 4, "parent": False}, block_size=U, P=1)
                op = lambda: VDI(vf)   # noqa: E731
            elif fmt == "vhdx":
                from dissect.hypervisor.disk.vhdx import VHDX
                vf, _ = enc_vhdx.build([(0, None), (2, None), (3, None), (0, None)], block_size=U, sector_size=512, disk_size=4 * U)
                op = lambda: VHDX(vf)   # noqa: E731
            elif fmt == "vhd":
                from dissect.hypervisor.disk.vhd import VHD
                vf, _ = enc_vhd.build({"kind": "dynamic", "n": 4, "cb": 1, "bat": {0: -1, 1: -1, 2: -1, 3: -1}, "size": 4, "foot511": False}, block_size=U, P=0)
                op = lambda: VHD(vf)   # noqa: E731
            elif fmt == "hds":
                from dissect.hypervisor.disk.hdd import HDS
                vf, _ = enc_hds.build({"ver": 2, "n": 4, "cb": 1, "bat": {0: 0, 1: 0, 2: 0, 3: 0}, "size": 4}, cluster_size=U, P=1)
                op = lambda: HDS(vf)   # noqa: E731
            else:
                from dissect.hypervisor.disk.vmdk import VMDK
                g = U // 512
                vf, _ = enc_vmdk.build_hosted([("U", 0), ("Z", 0), ("U", 0), ("U", 0)], [True], capacity=4 * g, grain=g, gtes=4, max_pos=1)
                op = lambda: VMDK(vf)   # noqa: E731

            def go():
                s = op()
                for o in (0, 1, U - 1, U, 3 * U + 12345):
                    s.seek(o)
                    s.read(1)
                    s.seek(o)
                    s.read(4096)
            return go
        return run
    for fmt_, kind_ in (("vdi", "vdi"), ("vhdx", "vhdx"), ("vhd", "vhd"), ("hds", "hds2"), ("vmdk", "vmdk-hosted")):
        out.append((kind_, "valid-image-256MiB-units-small-reads", large_units(fmt_), 64, 8))

    def keysafe_big_list(work):
        # a key safe whose list holds one pair with a very long nested list (megabytes of text): parsing stays linear
        from dissect.hypervisor.descriptor.vmx import VMX
        pt = enc_vmx.pair_text("p", bytes(32), rounds=1)
        inner = "list/(" + ",".join(["pair/(phrase/a/b,c,d)"] * 120000) + ")"
        ks = "vmware:key/list/(" + pt + ",pair/(" + inner + ",HMAC-SHA-1,QUJD))"
        text = enc_vmx.vmx_text({}, ks, b"\0" * 64)

        def go():
            try:
                VMX.parse(text).unlock_with_phrase("p")
            except Exception:  # noqa: BLE001
                pass
        return go
    out.append(("vmx", "keysafe-with-a-2.6MB-nested-list", keysafe_big_list, 2700, 1))

    def qcow2_many_tables(work):
        # 500 L1 entries whose 64 KiB L2 tables overlap in a 3 MiB file, one small read per L1 range: the table cache is bounded
        cs, l2n, nl1 = 65536, 8192, 500
        size = nl1 * l2n * cs
        l1_off = cs
        hdr = enc_qcow2.header(version=3, cluster_bits=16, size=size, l1_size=nl1, l1_offset=l1_off, refcount_offset=0, header_length=104)
        l1 = b"".join(struct.pack(">Q", (3 * cs + 512 * i) | (1 << 63)) for i in range(nl1))
        blob = bytearray(3 * cs + 512 * nl1 + cs)
        blob[:len(hdr)] = hdr
        blob[l1_off:l1_off + len(l1)] = l1
        blob = bytes(blob)

        def go():
            from dissect.hypervisor.disk.qcow2 import QCow2
            q = QCow2(io.BytesIO(blob))
            for i in range(nl1):
                q.seek(i * l2n * cs + 7)
                q.read(1)
        return go
    out.append(("qcow2", "500-overlapping-64KiB-L2-tables-one-read-each", qcow2_many_tables, 3300, 3))

    def vhdx_self_parent(which):
        def run(work):
            from pathlib import Path
            from dissect.hypervisor.disk.vhdx import VHDX
            d = tempfile.mkdtemp(prefix="selfp-", dir=work)
            names = {"self": ("c.vhdx", "c.vhdx"), "two-cycle": ("a.vhdx", "b.vhdx")}[which]
            for k, nm in enumerate(dict.fromkeys(names)):
                other = names[(k + 1) % len(names)] if which == "two-cycle" else nm
                loc = {"parent_linkage": "{1}", "relative_path": ".\\" + other, "absolute_win32_path": (d.lstrip("/") + "/" + other).replace("/", "\\")}
                vf, _ = enc_vhdx.build([(enc_vhdx.ST_NOT_PRESENT, None)], block_size=1 << 20, sector_size=512, disk_size=1 << 20, has_parent=True, locator=loc)
                vf.materialise(os.path.join(d, nm))
            return lambda: VHDX(Path(d) / names[0]).read(4096)
        return run
    out.append(("vhdx", "parent-locator-names-the-image-itself", vhdx_self_parent("self"), 2200, 4))
    out.append(("vhdx", "two-images-name-each-other-as-parent", vhdx_self_parent("two-cycle"), 4400, 4))

    def hyperv_entry_sizes(work):
        # key table entries whose size fields step forward and then (as a signed number) back by the same amount, and sizes
        # around 2^31 / 2^32 in general: the entry walk must not revisit an entry
        b, F, T = base_hyperv()
        e0 = next(f for f in F if f[0] == "e0.size")[1]
        first = struct.unpack("<I", b[e0:e0 + 4])[0]
        blobs = []
        for delta in (first, 32, 40, 64, 21, 8):
            for back in (delta, first, 32):
                m = bytearray(b)
                m[e0:e0 + 4] = struct.pack("<I", delta)
                nxt = e0 - 2 + delta + 2          # size field of the entry that follows
                if nxt + 4 <= len(m):
                    m[nxt:nxt + 4] = struct.pack("<I", (1 << 32) - back)
                    blobs.append(bytes(m))
        for v in (0x80000000, 0xFFFFFFFF, 0xFFFFFFE0, 0x7FFFFFFF, 0xFFFFFFF8):
            m = bytearray(b)
            m[e0:e0 + 4] = struct.pack("<I", v)
            blobs.append(bytes(m))

        def go():
            for blob in blobs:
                try:
                    read_hyperv(blob)
                except Exception:  # noqa: BLE001
                    pass
        return go
    out.append(("hyperv", "entry-sizes-that-step-back-as-signed-numbers", hyperv_entry_sizes, 600, 4))

    # text inputs cut at every character position / with every single delimiter removed: each parse must return or raise
    def text_cuts(text, parse, delims):
        def run(work):
            variants = [text[:k] for k in range(len(text) + 1)]
            for k, ch in enumerate(text):
                if ch in delims:
                    variants.append(text[:k] + text[k + 1:])
                    variants.append(text[:k] + ch + text[k:])

            def go():
                for v in variants:
                    try:
                        parse(v)
                    except Exception:  # noqa: BLE001
                        pass
            return go
        return run

    long1 = "win 10 data disk (copy of copy) - backup 2021-03-04 final v2-s001.vmdk"
    long2 = 'the "second" extent of a rather long-winded virtual machine disk name-s002.vmdk'
    dtext = enc_vmdk.descriptor_text([f'RW 4192256 SPARSE "{long1}"', f'RW 4192256 SPARSE "{long2}"', 'RW 2048 FLAT "a-flat.vmdk" 0'],
                                     ddb={"ddb.adapterType": "lsilogic", "ddb.comment": "a comment with spaces and = signs " * 3})

    def parse_desc(v):
        from dissect.hypervisor.disk.vmdk import DiskDescriptor
        str(DiskDescriptor.parse(v))
    out.append(("vmdk-descriptor", "descriptor-cut-at-every-character", text_cuts(dtext, parse_desc, '"=#'), len(dtext) * len(dtext) // 2048 + 1, 1))

    vtext = enc_vmx.vmx_text({".encoding": "UTF-8", "displayName": "vm " * 20}, enc_vmx.keysafe([enc_vmx.pair_text("p", bytes(32), rounds=1)] * 2), b"\0" * 64)

    def parse_vmx(v):
        from dissect.hypervisor.descriptor.vmx import VMX
        x = VMX.parse(v)
        x.disks()
        if x.encrypted:
            x.unlock_with_phrase("p")
    out.append(("vmx", "encrypted-vmx-cut-at-every-character", text_cuts(vtext, parse_vmx, '"=/(),:%'), len(vtext) * len(vtext) // 2048 + 1, 1))

    def xml_special(name, cls_path, doc, use):
        def parse(v):
            import importlib
            mod, cls = cls_path.rsplit(".", 1)
            obj = getattr(importlib.import_module(mod), cls)(io.StringIO(v))
            use(obj)
        out.append((name, "document-cut-at-every-character", text_cuts(doc, parse, '<>"/&;'), len(doc) * len(doc) // 2048 + 1, 1))

    ovf = ('<?xml version="1.0"?><Envelope xmlns="http://schemas.dmtf.org/ovf/envelope/1" xmlns:ovf="http://schemas.dmtf.org/ovf/envelope/1" '
           'xmlns:rasd="http://schemas.dmtf.org/wbem/wscim/1/cim-schema/2/CIM_ResourceAllocationSettingData"><References><File ovf:href="d.vmdk" ovf:id="file1"/>'
           '</References><DiskSection><Disk ovf:diskId="d1" ovf:fileRef="file1"/></DiskSection><VirtualSystem ovf:id="vm"><VirtualHardwareSection><Item>'
           '<rasd:HostResource>ovf:/disk/d1</rasd:HostResource><rasd:ResourceType>17</rasd:ResourceType></Item></VirtualHardwareSection></VirtualSystem></Envelope>')
    xml_special("ovf", "dissect.hypervisor.descriptor.ovf.OVF", ovf, lambda o: list(o.disks()))
    vbox = ('<?xml version="1.0"?><VirtualBox xmlns="http://www.virtualbox.org/"><Machine name="vm"><MediaRegistry><HardDisks><HardDisk uuid="{1}" '
            'location="a.vdi" format="VDI" type="Normal"><HardDisk uuid="{2}" location="b.vdi" format="VDI" type="Normal"/></HardDisk></HardDisks></MediaRegistry></Machine></VirtualBox>')
    xml_special("vbox", "dissect.hypervisor.descriptor.vbox.VBox", vbox, lambda o: list(o.disks()))
    pvs = ('<?xml version="1.0"?><ParallelsVirtualMachine><Hardware><Hdd id="0"><SystemName>h.hdd</SystemName></Hdd><CdRom id="1"><SystemName>c.iso</SystemName>'
           '</CdRom></Hardware></ParallelsVirtualMachine>')
    xml_special("pvs", "dissect.hypervisor.descriptor.pvs.PVS", pvs, lambda o: list(o.disks()))
    return out


# ----------------------------------------------------------------------------- supervised execution
def _worker(conn, tasks, repo):
    import sys
    core.use_repo()
    resource.setrlimit(resource.RLIMIT_AS, (6 << 30, 6 << 30))
    bases = {}
    spec = {(f, n): (fn, ikb, rkb) for f, n, fn, ikb, rkb in specials()}
    work = tempfile.mkdtemp(prefix="verif-c11w-", dir=os.environ.get("VERIF_C11_SCRATCH") or None)
    tracemalloc.start()
    try:
        for t in tasks:
            conn.send(("start", t["tid"]))
            fmt = t["fmt"]
            outcome, name, in_kb, req_kb = "return", "", 0, 3 * REQ // 1024
            base_mem = 0
            tracemalloc.reset_peak()
            c0 = time.process_time()
            try:
                if t["kind"] == "special":
                    fn, in_kb, req_kb = spec[(fmt, t["name"])]
                    name = t["name"]
                    go = fn(work)  # building the hostile input is the harness's cost, not the library's
                    import gc
                    gc.collect()
                    c0 = time.process_time()
                    tracemalloc.reset_peak()
                    base_mem = tracemalloc.get_traced_memory()[0]
                    go()
                else:
                    if fmt not in bases:
                        bases[fmt] = FORMATS[fmt][0]()
                    blob, name = mutate(fmt, bases[fmt], t)
                    in_kb = len(blob) // 1024 + 1
                    c0 = time.process_time()
                    tracemalloc.reset_peak()
                    base_mem = tracemalloc.get_traced_memory()[0]
                    FORMATS[fmt][1](blob)
            except MemoryError:
                outcome = "memory-error"
            except BaseException as e:  # noqa: BLE001
                outcome = "raise"
                if isinstance(e, (KeyboardInterrupt, SystemExit)):
                    raise
            cpu = int((time.process_time() - c0) * 1000)
            peak = max(0, tracemalloc.get_traced_memory()[1] - base_mem) // 1024
            conn.send(("end", t["tid"], {"outcome": outcome, "cpu_ms": cpu, "peak_kb": peak, "input_kb": in_kb, "request_kb": req_kb, "name": name}))
    finally:
        shutil.rmtree(work, ignore_errors=True)
        conn.send(("done", None))


def _cpu_seconds(pid):
    """user + system CPU time of a process so far (from /proc), or None"""
    try:
        with open(f"/proc/{pid}/stat") as f:
            parts = f.read().rsplit(")", 1)[1].split()
        return (int(parts[11]) + int(parts[12])) / os.sysconf("SC_CLK_TCK")
    except Exception:  # noqa: BLE001
        return None


def supervise(tasks, nproc=12, deadline=25.0):
    """Run tasks in worker processes; a task that has used `deadline` seconds of processor time without finishing (or has not
    finished after ten times as much wall time - a run that sleeps or blocks) is killed and recorded as outcome "timeout".
    Processor time, not wall time: on a loaded machine a run that needs three seconds may take thirty.  Returns {tid: event}."""
    _TIMEOUTS.clear()
    # workers that are killed (deadline, memory limit) cannot clean up after themselves: their scratch lives under one directory
    # that is removed when the run ends
    scratch = tempfile.mkdtemp(prefix="verif-c11-")
    os.environ["VERIF_C11_SCRATCH"] = scratch
    try:
        return _supervise(tasks, nproc, deadline)
    finally:
        os.environ.pop("VERIF_C11_SCRATCH", None)
        shutil.rmtree(scratch, ignore_errors=True)


def _supervise(tasks, nproc, deadline):
    ctx = mp.get_context("fork")
    results = {}
    chunks = [tasks[i::nproc] for i in range(nproc)]
    procs = []
    for ch in chunks:
        if not ch:
            continue
        a, b = ctx.Pipe(duplex=False)
        p = ctx.Process(target=_worker, args=(b, ch, core.repo_path()))
        p.start()
        procs.append({"p": p, "conn": a, "tasks": ch, "cur": None, "t0": None, "done": False, "child": b})
    while any(not x["done"] for x in procs):
        for x in procs:
            if x["done"]:
                continue
            while x["conn"].poll(0):
                try:
                    msg = x["conn"].recv()
                except EOFError:
                    msg = ("done", None)
                if msg[0] == "start":
                    x["cur"], x["t0"], x["c0"] = msg[1], time.time(), _cpu_seconds(x["p"].pid)
                elif msg[0] == "end":
                    results[msg[1]] = msg[2]
                    x["cur"] = None
                elif msg[0] == "done":
                    x["done"] = True
            if not x["done"] and not x["p"].is_alive():
                # died (e.g. killed by the memory limit): record and restart with the remaining tasks
                if x["cur"] is not None:
                    results[x["cur"]] = {"outcome": "crash", "cpu_ms": 0, "peak_kb": 0, "input_kb": 0, "request_kb": 0, "name": ""}
                x["done"] = True
                _respawn(ctx, procs, x, results)
            elif not x["done"] and x["cur"] is not None and time.time() - x["t0"] > deadline and (
                    time.time() - x["t0"] > 10 * deadline or x.get("c0") is None or (_cpu_seconds(x["p"].pid) or 1e9) - x["c0"] > deadline):
                x["p"].kill()
                x["p"].join()
                results[x["cur"]] = {"outcome": "timeout", "cpu_ms": int(deadline * 1000), "peak_kb": 0, "input_kb": 0, "request_kb": 0, "name": ""}
                x["done"] = True
                _respawn(ctx, procs, x, results)
        time.sleep(0.02)
    for x in procs:
        x["p"].join(timeout=5)
    return results


_TIMEOUTS = {}


def _respawn(ctx, procs, x, results):
    rest = [t for t in x["tasks"] if t["tid"] not in results]
    # a format that keeps timing out is reported once per entry up to 3 times; the rest of its entries are not run
    # (they would each cost a full deadline) and are recorded as "not-run"
    byid = {t["tid"]: t for t in x["tasks"]}
    for tid_, ev in list(results.items()):
        if tid_ in byid and ev["outcome"] in ("timeout", "crash") and not ev.get("_counted"):
            ev["_counted"] = True
            _TIMEOUTS[byid[tid_]["fmt"]] = _TIMEOUTS.get(byid[tid_]["fmt"], 0) + 1
    keep = []
    for t in rest:
        if _TIMEOUTS.get(t["fmt"], 0) >= 3:
            results[t["tid"]] = {"outcome": "return", "cpu_ms": 0, "peak_kb": 0, "input_kb": 0, "request_kb": 0, "name": "not-run (format already timed out 3 times)"}
        else:
            keep.append(t)
    rest = keep
    if not rest:
        return
    a, b = ctx.Pipe(duplex=False)
    p = ctx.Process(target=_worker, args=(b, rest, core.repo_path()))
    p.start()
    procs.append({"p": p, "conn": a, "tasks": rest, "cur": None, "t0": None, "done": False, "child": b})


# ----------------------------------------------------------------------------- the check
def write_cfg(bases, spec_counts, path):
    fmts = sorted(set(bases) | set(spec_counts))
    q = lambda s: '"%s"' % s  # noqa: E731
    nf = " @@ ".join(f"{q(f)} :> {len(bases[f][1]) if f in bases else 0}" for f in fmts)
    nt = " @@ ".join(f"{q(f)} :> {len(bases[f][2]) if f in bases else 0}" for f in fmts)
    ns = " @@ ".join(f"{q(f)} :> {spec_counts.get(f, 0)}" for f in fmts)
    mc = os.path.join(os.path.dirname(path), "MCFault.tla")
    with open(mc, "w") as f:
        f.write("---- MODULE MCFault ----\nEXTENDS Fault\n"
                f"MCFormats == {{{', '.join(q(x) for x in fmts)}}}\nMCNF == ({nf})\nMCNT == ({nt})\nMCNS == ({ns})\n====\n")
    with open(path, "w") as f:
        f.write("CONSTANTS Formats <- MCFormats  NF <- MCNF  NT <- MCNT  NS <- MCNS\nINIT Init\nNEXT NoNext\n")
    return mc


def run(ctx):
    thorough = ctx.tier == "thorough"
    ctx.rule = ("catalogue enumerated by TLC from spec/Fault.tla: for 13 input kinds every listed header/table field x 9 value classes "
                "(0, 1, max, max-1, +1, -1, sign bit, own offset, file size), every structure boundary x {-1, 0, +1} truncation, specials "
                "(snapshot parent cycles of length 1-3, Hyper-V object table listing itself, inflate bombs in QCOW2 / VMDK / gzip vmtar, "
                "empty and random inputs); each run supervised (25 s deadline, 6 GiB address space) and judged by Fault!Bounded "
                "(CPU <= 4 s + 40 ms/KB, memory <= 64 MiB + 8 x (input + request)). Non-trivial = run whose mutated input differs from "
                "the valid one (all), distinct by catalogue entry.")
    ctx.assumptions = ["'all byte strings' is approached by classes, not enumerated", "bounds are deliberately loose to stay free of false alarms",
                       "PBKDF2 iteration counts taken from the input are outside the bound (the KDF must run as specified)"]
    r = diskprop.tlc_check(ctx, "Progress", "Progress.cfg", min_states=1000, coverage=False)
    core.use_repo()
    bases = {f: mk() for f, (mk, _) in FORMATS.items()}
    sp = specials()
    spec_by_fmt = {}
    for f, n, fn, ikb, rkb in sp:
        spec_by_fmt.setdefault(f, []).append(n)
    work = tlc.scratch_dir("fault-")
    cfg = os.path.join(work, "Fault_cat.cfg")
    mc = write_cfg(bases, {f: len(v) for f, v in spec_by_fmt.items()}, cfg)
    # MCFault must live next to Fault.tla for EXTENDS to resolve: copy the module tree into the scratch dir
    for fn in ("Fault.tla",):
        shutil.copy(os.path.join(tlc.SPEC_DIR, fn), work)
    import subprocess
    p = subprocess.run(["java", "-Xss32m", f"-Djava.io.tmpdir={work}", "-cp", tlc.JAR_CP, "tlc2.TLC", "-workers", "4", "-metadir", os.path.join(work, "meta"), "-noGenerateSpecTE",
                        "-deadlock", "-config", cfg, "-dump", os.path.join(work, "cat.dump"), mc], cwd=work, capture_output=True, text=True, timeout=600)
    if "No error has been found" not in p.stdout:
        raise core.MachineryError("catalogue enumeration failed: " + p.stdout[-1500:])
    cat = [s["entry"] for s in tlaparse.iter_dump(os.path.join(work, "cat.dump"))]
    import re
    m = re.findall(r"(\d+) states generated, (\d+) distinct", p.stdout)
    ctx.states += int(m[-1][1])
    ctx.transitions += int(m[-1][0])
    ctx.tlc_runs.append({"config": "Fault catalogue (generated constants)", "distinct_states": int(m[-1][1]), "states_generated": int(m[-1][0])})
    shutil.rmtree(work, ignore_errors=True)
    rng = random.Random(ctx.seed + 11)
    tasks = []
    for e in cat:
        t = dict(e)
        if t["kind"] == "special":
            t["name"] = spec_by_fmt[t["fmt"]][t["target"] - 1]
        tasks.append(t)
    if not thorough:
        specials_t = [t for t in tasks if t["kind"] == "special"]
        # the extreme classes of every field are always run; the rest of the catalogue is sampled
        extreme = [t for t in tasks if t["kind"] == "field" and t["class"] in ("max", "signbit")]
        others = [t for t in tasks if t["kind"] != "special" and t not in extreme]
        tasks = specials_t + extreme + rng.sample(others, min(len(others), 600))
    for i, t in enumerate(tasks):
        t["tid"] = i + 1
    results = supervise(tasks)
    runs = []
    for t in tasks:
        ev = results.get(t["tid"], {"outcome": "lost", "cpu_ms": 0, "peak_kb": 0, "input_kb": 0, "request_kb": 0, "name": ""})
        ev = {k: v for k, v in ev.items() if not k.startswith("_")}
        runs.append({"tid": t["tid"], "fmt": t["fmt"], "kind": t["kind"], "target": t["target"], "class": t["class"], **ev})
        ctx.case(key=(t["fmt"], t["kind"], t["target"], t["class"]), nontrivial=True,
                 sample={k: v for k, v in runs[-1].items()} if t["kind"] == "special" and "bomb" in ev.get("name", "") else None)
    # B: judged by TLC
    verdicts, res = tracecheck.validate("Fault", _trace_cfg(), runs)
    ctx.add_tlc("Fault trace validation", res)
    for rrun in runs:
        v = verdicts[rrun["tid"]]
        ctx.traces_validated += 1
        if v[0] == "reject":
            ctx.violation({"format": rrun["fmt"], "kind": rrun["kind"], "what": rrun["name"], "why": v[2], "class": rrun["class"]},
                          {"run": rrun, "why": v[2]})
    ctx.extra["outcomes"] = {o: sum(1 for x in runs if x["outcome"] == o) for o in sorted({x["outcome"] for x in runs})}
    ctx.extra["max_cpu_ms"] = max(x["cpu_ms"] for x in runs)
    ctx.extra["max_peak_kb"] = max(x["peak_kb"] for x in runs)


def _trace_cfg():
    path = os.path.join(tlc.SPEC_DIR, "cfg", "TraceFault.cfg")
    return "TraceFault.cfg"


def replay(ctx, body):
    ctx.quiet = True
    run(ctx)
    return not ctx.violations
