"""C14 - exposed image metadata and parent references equal what the file stores.

Spec: spec/Meta.tla - byte layouts of QCOW2 header extensions (8-byte padding, end marker, v2/v3 start) and of the
snapshot table (extra data of any size, id/name strings, 8-byte padding) with a transcription of the walks
(ExposedEqualsStored); structures stored twice with sequence numbers (HighestSeqWins).
A: every TLC-enumerated record list is encoded into a real QCOW2 image (unknown / feature-table / data-file / backing-
   format extensions; snapshots with multi-byte ids and names) and the exposed attributes compared; VHDX header pairs.
B: for every format, stored values of every exposed field are drawn from boundary classes and alphabets (UTF-8, UTF-16
   surrogate pairs, quotes, spaces), written by the encoders, read back through the public attributes and the recorded
   (field, stored, exposed) facts validated by TLC (Meta!TraceSpec)."""
from __future__ import annotations

import io
import os
import random
import shutil
import struct
import tempfile
import uuid
from pathlib import Path

from harness import core, diskprop, enc_hds, enc_qcow2, enc_vdi, enc_vhd, enc_vhdx, enc_vmdk, tlaparse, tlc, tracecheck

LEVEL = "model_checking"
UNKNOWN = [0x12345678, 0x0BADF00D, 0x7FFFFFFF]


def _base_img(back=False):
    return {"ext": False, "datafile": False, "l2n": 64, "s": 1, "l1": {0: True}, "l2": {0: {"t": "N", "h": 1, "sub": []}}, "back": (1 if back else -1), "size": 1}


def utf8_of_len(n, rng):
    """a string whose UTF-8 encoding is exactly n bytes, with multi-byte characters where they fit"""
    out, left = "", n
    while left > 0:
        c = rng.choice(["a", "Z", "7", "é", "✓", "😀"])
        b = len(c.encode())
        if b <= left:
            out += c
            left -= b
        else:
            out += "x"
            left -= 1
    return out


def check_ext(ctx, lens, rng):
    from dissect.hypervisor.disk.qcow2 import QCow2
    for version, hlen, back in ((3, 104, False), (3, 112, True), (2, 72, True), (2, 72, False)):
        recs = []
        for k, n in enumerate(lens):
            recs.append((UNKNOWN[k % len(UNKNOWN)], bytes((17 * k + j) % 251 + 1 for j in range(n))))
        vf, _, _ = enc_qcow2.build(_base_img(back), cluster_bits=9 if sum(lens) < 200 else 12, K=1 if sum(lens) < 200 else 1, version=version, header_length=hlen, extra_ext=recs,
                                   backing_fmt_ext=False, backing_name="bäse ✓.img") if True else None
        q = QCow2(vf, backing_file=(io.BytesIO(b"") if back else None))
        got = [(e.magic, d) for e, d in q.unknown_extensions]
        ctx.case(key=("ext", tuple(lens), version, hlen, back), nontrivial=len(lens) > 0)
        if got != recs or (back and q.auto_backing_file != "bäse ✓.img") or q.size != 512:
            ctx.violation({"sub": "qcow2-extensions", "fail": "exposed-differs", "version": version},
                          {"lens": list(lens), "version": version, "header_length": hlen, "backing": back, "got": [(m, len(d)) for m, d in got], "backing_name": q.auto_backing_file})
            return


def check_snap(ctx, recs, rng):
    from dissect.hypervisor.disk.qcow2 import QCow2
    meta = []
    for k, r in enumerate(recs):
        meta.append((utf8_of_len(r["idlen"], rng), utf8_of_len(r["namelen"], rng), r["extra"]))
    if not recs:
        return
    # the active image has been resized since the snapshots were taken: its stored size differs from theirs
    active = _base_img()
    if rng.random() < 0.6:
        active = dict(active, size=2, l2={0: {"t": "N", "h": 1, "sub": []}, 1: {"t": "ZP", "h": 0, "sub": []}})
    vf, infos = enc_qcow2.build_with_snapshots(active, [_base_img() for _ in recs], cluster_bits=9, K=1, snap_meta=meta)
    q = QCow2(vf)
    ctx.case(key=("snap", repr(recs)), nontrivial=True)
    try:
        snaps = q.snapshots
        got = [(s.id_str, s.name, s.header.extra_data_size, s.header.l1_table_offset, s.header.l1_size) for s in snaps]
    except Exception as e:  # noqa: BLE001
        ctx.violation({"sub": "qcow2-snapshots", "fail": "raised", "exc": type(e).__name__}, {"recs": recs, "error": repr(e)[:200]})
        return
    want = [(m[0], m[1], m[2], infos[k + 1]["l1_offset"], infos[k + 1]["l1_size"]) for k, m in enumerate(meta)]
    ok = got == want
    for s, m in zip(snaps, meta):
        if m[2] >= 16 and s.extra.disk_size != 512:
            ok = False
        if m[2] > 24 and s.unknown_extra != b"\xEE" * (m[2] - 24):
            ok = False
    if not ok:
        ctx.violation({"sub": "qcow2-snapshots", "fail": "exposed-differs"}, {"recs": recs, "want": [w[:3] for w in want], "got": [g[:3] for g in got]})
        return
    # opening (and reading) the snapshots leaves what the active image exposes as it is stored
    before = (int(q.size), int(q.header.size), int(q.header.l1_table_offset), int(q.header.l1_size), int(q.header.nb_snapshots))
    for s in snaps:
        try:
            o = s.open()
            o.read(512)
        except Exception:  # noqa: BLE001   (what a snapshot stream serves is C07's business)
            pass
    after = (int(q.size), int(q.header.size), int(q.header.l1_table_offset), int(q.header.l1_size), int(q.header.nb_snapshots))
    stored = (active["size"] * 512, active["size"] * 512, infos[0]["l1_offset"], infos[0]["l1_size"], len(recs))
    if before != stored or after != stored:
        ctx.violation({"sub": "qcow2-snapshots", "fail": "exposed-differs", "field": "active-image-after-opening-snapshots"},
                      {"recs": recs, "stored": stored, "before": before, "after": after})


# order-preserving embeddings of the abstract sequence numbers into the 64-bit unsigned field
SEQ_EMBEDDINGS = [lambda s: s + (1 << 33 if s == 7 else 0), lambda s: s + (1 << 63), lambda s: (1 << 64) - 1 - (7 - s), lambda s: s << 60,
                  lambda s: ((1 << 63) - 4 + s) if s else 0]


def check_seq(ctx, seqs):
    from dissect.hypervisor.disk.vhdx import VHDX
    for k, emb in enumerate(SEQ_EMBEDDINGS):
        real = [emb(s) for s in seqs]
        vf, _ = enc_vhdx.build([(enc_vhdx.ST_FULL, 0)], block_size=1 << 20, sector_size=512, disk_size=1 << 20, seqs=tuple(real))
        b = bytearray(vf.peek_bytes(0, 3 << 20))
        b[65536 + 48:65536 + 64] = b"\x01" * 16      # log guid of copy 1
        b[131072 + 48:131072 + 64] = b"\x02" * 16    # log guid of copy 2
        v = VHDX(io.BytesIO(bytes(b)))
        used = 1 if bytes(v.header.log_guid) == b"\x01" * 16 else 2
        ctx.case(key=("seq", tuple(seqs), k), nontrivial=True)
        if real[used - 1] != max(real):
            ctx.violation({"sub": "vhdx-header-pair", "fail": "stale-copy-used"}, {"seqs": real, "used": used})
        if int(v.header.sequence_number) != max(real):
            ctx.violation({"sub": "vhdx-header-pair", "fail": "exposed-differs", "field": "sequence_number"}, {"seqs": real, "exposed": int(v.header.sequence_number)})


# ---------------------------------------------------------------------------- B: field sweeps, facts judged by TLC
def facts_vdi(rng):
    from dissect.hypervisor.disk.vdi import VDI
    n = rng.choice([1, 3, 70])
    bs = rng.choice([4096, 1 << 20, 2 << 20])
    size = n * bs - rng.choice([0, 512, bs // 2])
    u = [bytes(rng.randrange(256) for _ in range(16)) for _ in range(4)]
    vf, _, doff, _ = enc_vdi.build({"n": n, "cb": 1, "map": {i: i for i in range(n)}, "size": n, "parent": False}, block_size=bs, P=n,
                                   blocks_offset=rng.choice([512, 4096]), hdr_kw={"uuid": u[0], "uuid_snap": u[1], "uuid_link": u[2], "uuid_parent": u[3], "sector_size": 512})
    hdr = enc_vdi.header(struct.unpack("<I", vf.peek_bytes(340, 4))[0], doff, size, bs, n, n, uuid=u[0], uuid_snap=u[1], uuid_link=u[2], uuid_parent=u[3])
    vf._ext[0] = (0, len(hdr), "bytes", hdr)
    v = VDI(vf)
    return [["size", size, v.size], ["block_size", bs, v.block_size], ["data_offset", doff, v.data_offset], ["sector_size", 512, v.sector_size],
            ["uuid", u[0].hex(), bytes(v.header.UUIDVDI).hex()], ["uuid_parent", u[3].hex(), bytes(v.header.UUIDParent).hex()],
            ["blocks", n, v.header.BlocksInHDD]]


def facts_vhd(rng):
    from dissect.hypervisor.disk.vhd import VHD
    kind = rng.choice(["fixed", "dynamic"])
    bs = rng.choice([4096, 512 << 10, 2 << 20])
    n = rng.choice([1, 2, 5])
    size = n * bs - rng.choice([0, 512])
    orig = size + rng.choice([0, bs, -512 if size > 512 else 0])
    img = {"kind": kind, "n": n, "cb": 1, "bat": {i: (i if kind == "dynamic" else -1) for i in range(n)}, "size": n, "foot511": rng.random() < 0.3}
    vf, info = enc_vhd.build(img, block_size=bs, P=n, size_bytes=size, original_size=orig,
                             footer_kw={"creator_app": rng.choice([b"vpc ", b"win ", b"qemu", b"vbox", b"d2v "]), "geometry": rng.choice([0x03FF103F, 0xFFFF10FF, 0]),
                                        "timestamp": rng.getrandbits(32), "uid": bytes(rng.randrange(256) for _ in range(16))})
    if kind == "fixed" and rng.random() < 0.5:
        # the guest's first sector holds the footer of some other disk (a nested image written raw): not this file's metadata
        from harness.vfile import VirtualFile
        foreign = enc_vhd.footer(size * 3 + 512, 3, 512, uid=b"\x77" * 16)
        flen = 511 if img["foot511"] else 512
        own = vf.peek_bytes(size, flen)
        vf = VirtualFile(size + flen, [(0, 512, "bytes", foreign), (512, size - 512, "pat", 0), (size, flen, "bytes", own)]) if size > 512 else vf
    v = VHD(vf)
    f = [["size", size, v.size], ["current_size", size, v.disk.footer.current_size], ["original_size", orig, v.disk.footer.original_size],
         ["kind", kind, "dynamic" if hasattr(v.disk, "bat") else "fixed"]]
    if kind == "dynamic":
        f += [["block_size", bs, v.disk.header.block_size], ["max_table_entries", n, v.disk.header.max_table_entries]]
    return f


def facts_hds(rng):
    from dissect.hypervisor.disk.hdd import HDS
    ver = rng.choice([1, 2])
    cs = rng.choice([4096, 63 * 512, 1 << 20])
    n = rng.choice([1, 4, 9])
    size = n * cs - rng.choice([0, 512])
    in_use = rng.random() < 0.5
    vf, info = enc_hds.build({"ver": ver, "n": n, "cb": 1, "bat": {i: i + 1 for i in range(n)}, "size": n}, cluster_size=cs, P=n + 1, size_bytes=size,
                             hdr_kw={"in_use": 0x746F6E59 if in_use else 0, "v1_unused": rng.choice([0, 1, 0xFFFFFFFF, 0x200]), "heads": rng.choice([16, 255]),
                                     "cyl": rng.choice([1024, 0xFFFF]), "flags": rng.choice([0, 1, 0x80000000])})
    first = struct.unpack("<I", vf.peek_bytes(48, 4))[0]
    v = HDS(vf)
    return [["size", size, v.size], ["cluster_size", cs, v.cluster_size], ["in_use", in_use, v.in_use], ["first_block", first, v.data_offset],
            ["bat_len", n, len(v.bat)]]


STRS = ["plain", "with space", "quo'te", "ünï", "日本語", "😀𝄞", "a" * 300, "", "C:\\dir\\file.vhdx", "..\\rel\\p.avhdx"]


def facts_vhdx(rng):
    from dissect.hypervisor.disk.vhdx import VHDX
    bs = rng.choice([1 << 20, 32 << 20, 256 << 20])
    sector = rng.choice([512, 4096])
    nb = rng.choice([1, 3])
    size = nb * bs - rng.choice([0, sector])
    did = uuid.UUID(int=rng.getrandbits(128))
    nent = rng.choice([0, 1, 2, 4])
    entries = {}
    keys = ["parent_linkage", "relative_path", "absolute_win32_path", "volume_path", "pärent_ke¥"]
    for k in range(nent):
        entries[keys[k]] = rng.choice(STRS) or "x"
    d = tempfile.mkdtemp(prefix="verif-c14-")
    try:
        has_parent = nent > 0 and "relative_path" in entries
        loc = dict(entries)
        if has_parent:
            loc["relative_path"] = ".\\parent.vhdx"
            pv, _ = enc_vhdx.build([(enc_vhdx.ST_FULL, 0)] * nb, block_size=bs, sector_size=sector, disk_size=size, file_id=2)
            pv.materialise(os.path.join(d, "parent.vhdx"))
        vf, _ = enc_vhdx.build([(enc_vhdx.ST_NOT_PRESENT if has_parent else enc_vhdx.ST_FULL, None if has_parent else k) for k in range(nb)], block_size=bs,
                               sector_size=sector, disk_size=size, disk_id=did, has_parent=has_parent, locator=loc if has_parent else None,
                               phys_sector=rng.choice([512, 4096]), locator_layout=rng.choice(["pairs", "keys-first", "values-first", "aligned", "shared"]))
        vf.materialise(os.path.join(d, "c.vhdx"))
        v = VHDX(Path(d) / "c.vhdx")
        f = [["size", size, v.size], ["block_size", bs, v.block_size], ["sector_size", sector, v.sector_size], ["id", str(did), str(v.id)],
             ["has_parent", int(has_parent), int(v.has_parent)]]
        if has_parent:
            f.append(["locator", repr(sorted(loc.items())), repr(sorted(v.parent_locator.entries.items()))])
        # the metadata table object stays exposed after opening (also after a parent has been opened)
        f.append(["metadata.size", size, v.metadata.get(enc_vhdx.G_DISK_SIZE)])
        f.append(["metadata.sector", sector, v.metadata.get(enc_vhdx.G_LSS)])
        f.append(["metadata.id", did.bytes_le.hex(), bytes(v.metadata.get(enc_vhdx.G_DISK_ID).virtual_disk_id).hex()])
        f.append(["metadata.block_size", bs, v.metadata.get(enc_vhdx.G_FILE_PARAMS).block_size])
        return f
    finally:
        shutil.rmtree(d, ignore_errors=True)


def facts_vmdk(rng):
    from dissect.hypervisor.disk.vmdk import VMDK, DiskDescriptor
    import importlib
    gen = importlib.import_module("props.c10").random_name   # words / numbers / keywords joined by spaces, quotes, dashes, control characters
    names = [rng.choice(["disk-s001.vmdk", "my disk (2)-s001.vmdk", "dïsk ✓ 😀.vmdk", "a b c d e.vmdk", "data disk #2-flat.vmdk", "x=y;z.vmdk", "we'ird.vmdk",
                         'my "old" disk-flat.vmdk', 'say "hi"-flat.vmdk', '"quoted".vmdk', 'a" 0'])
             if rng.random() < 0.5 else gen(rng, k).replace("\r", " ") for k in range(rng.choice([1, 2, 3]))]
    types = [rng.choice(["SPARSE", "FLAT", "VMFS", "VMFSSPARSE", "SESPARSE"]) for _ in names]
    secs = [rng.choice([1, 8, 4192256, 2 ** 33 + 5]) for _ in names]
    modes = [rng.choice(["RW", "RDONLY", "NOACCESS"]) for _ in names]
    lines = [f'{m} {s} {t} "{n}"' + (" 0" if t == "FLAT" else "") for m, s, t, n in zip(modes, secs, types, names)]
    ddb = {"ddb.adapterType": rng.choice(["ide", "lsilogic"]), "ddb.geometry.cylinders": str(rng.randrange(1, 99999)), "ddb.longContentID": "%032x" % rng.getrandbits(128),
           "ddb.comment": rng.choice(["plain", "two words", "ünï ✓", "disk #3 of 4", "a=b"])}
    cid = "%08x" % rng.getrandbits(32)
    ctype = rng.choice(["monolithicSparse", "twoGbMaxExtentSparse", "vmfs", "seSparse"])
    text = enc_vmdk.descriptor_text(lines, cid=cid, create_type=ctype, ddb=ddb, extra={"encoding": '"UTF-8"'})
    d = DiskDescriptor.parse(text)
    f = [["CID", cid, d.attr.get("CID")], ["parentCID", "ffffffff", d.attr.get("parentCID")], ["createType", ctype, d.attr.get("createType")],
         ["ddb", repr(sorted(ddb.items())), repr(sorted(d.ddb.items()))], ["n_extents", len(lines), len(d.extents)],
         ["sectors_total", sum(secs), d.sectors]]
    for k, e in enumerate(d.extents):
        f.append([f"extent{k}", repr((modes[k], secs[k], types[k], names[k])), repr((e.access_mode, e.sectors, e.type, e.filename))])
        f.append([f"extent{k}.tail", repr((0 if types[k] == "FLAT" else None, None, None)), repr((e.start_sector, e.partition_uuid, e.device_identifier))])
    # DiskDescriptor.__str__ re-renders what was parsed: parsing it again must expose the same values
    d2 = DiskDescriptor.parse(str(d))
    f.append(["str-roundtrip", repr((sorted(d.attr.items()), sorted(d.ddb.items()), [(e.access_mode, e.sectors, e.type, e.filename) for e in d.extents])),
              repr((sorted(d2.attr.items()), sorted(d2.ddb.items()), [(e.access_mode, e.sectors, e.type, e.filename) for e in d2.extents]))])
    # embedded descriptor of a hosted sparse extent (descriptor_offset / descriptor_size); it may fill its sectors to the last byte
    exact = rng.random() < 0.5
    if exact:
        # the CID line goes last, unquoted and without a line end: the descriptor's last byte is the last digit of the CID
        lines_ = [ln for ln in text.rstrip("\n").split("\n") if not ln.startswith("CID=")]
        body = "\n".join(lines_ + [f"CID={cid}"])
        padn = (-len(body.encode("utf-8")) - 1) % 512
        head, rest = body.split("\n", 1)
        text = head + "\n" + "#" * padn + "\n" + rest     # (a comment line takes up the slack)
        assert len(text.encode("utf-8")) % 512 == 0 and text.endswith(cid)
    vf, info = enc_vmdk.build_hosted([("D", 1)], [True], capacity=8, grain=8, gtes=4, desc=text, max_pos=2, desc_slack=0 if exact else 1)
    v = VMDK(vf)
    emb = v.disks[0].descriptor
    f.append(["embedded.CID", cid, emb.attr.get("CID") if emb else None])
    f.append(["embedded.ddb", repr(sorted(ddb.items())), repr(sorted(emb.ddb.items())) if emb else None])
    f.append(["size", 8 * 512, v.size])
    return f


def facts_vmdk_file(rng):
    """A descriptor *file* of any length (a few lines to several hundred KiB: many extents with long names, many / long ddb
    entries) opened by path and as a handle: what VMDK exposes equals the text."""
    import shutil
    import tempfile
    from pathlib import Path
    from dissect.hypervisor.disk.vmdk import VMDK
    n = rng.choice([1, 3, 40, 120, 300])
    pad = rng.choice([0, 0, 60, 180])
    d = tempfile.mkdtemp(prefix="verif-c14-")
    try:
        names = [f"disk {'x' * pad}-f{k + 1:03d}.vmdk" for k in range(n)]
        secs = [rng.choice([1, 2, 8]) for _ in names]
        types = [rng.choice(["FLAT", "VMFS"]) for _ in names]
        for nm, s in zip(names, secs):
            with open(os.path.join(d, nm), "wb") as fh:
                fh.write(bytes(s * 512))
        lines = [f'RW {s} {t} "{nm}"' + (" 0" if t == "FLAT" else "") for s, t, nm in zip(secs, types, names)]
        ddb = {"ddb.adapterType": "lsilogic", "ddb.uuid": "%032x" % rng.getrandbits(128)}
        for k in range(rng.choice([0, 5, 200, 2000])):
            ddb[f"ddb.custom.{k}"] = "v%d-" % k + "y" * rng.choice([0, 10, 300])
        ddb["ddb.last"] = "the last entry"
        cid = "%08x" % rng.getrandbits(32)
        text = enc_vmdk.descriptor_text(lines, cid=cid, create_type="twoGbMaxExtentFlat", ddb=ddb)
        p = os.path.join(d, "big.vmdk")
        with open(p, "w", encoding="utf-8") as fh:
            fh.write(text)
        f = [["descriptor_bytes", len(text), len(text)]]
        for via in ("path", "handle"):
            if via == "path":
                v = VMDK(Path(p))
            else:
                fh = open(p, "rb")   # noqa: SIM115
                v = VMDK(fh)
            try:
                dd = v.descriptor
                f += [[f"{via}.CID", cid, dd.attr.get("CID")], [f"{via}.n_extents", n, len(dd.extents)], [f"{via}.sectors", sum(secs), dd.sectors],
                      [f"{via}.size", sum(secs) * 512, v.size], [f"{via}.n_ddb", len(ddb), len(dd.ddb)], [f"{via}.ddb.last", "the last entry", dd.ddb.get("ddb.last")],
                      [f"{via}.ddb", hash(repr(sorted(ddb.items()))), hash(repr(sorted(dd.ddb.items())))],
                      [f"{via}.extents", hash(repr(list(zip(secs, types, names)))), hash(repr([(e.sectors, e.type, e.filename) for e in dd.extents]))]]
            finally:
                for dk in getattr(v, "disks", []):
                    try:
                        dk.fh.close()
                    except Exception:  # noqa: BLE001
                        pass
                if via == "handle":
                    fh.close()
        return f
    finally:
        shutil.rmtree(d, ignore_errors=True)


def facts_parents(rng):
    """The stored parent reference leads to the parent it names: locator paths with `..\\` and sibling directories (VHDX), hints in
    Windows spelling (`C:\\vms\\dir\\name`) for descriptor and monolithic VMDK children, absolute paths of moved Parallels disks."""
    import importlib
    c07 = importlib.import_module("props.c07")
    work = tempfile.mkdtemp(prefix="verif-c14r-")
    f = []
    try:
        for fmt, fn, ncand, kw in (("vhdx", c07.res_vhdx, 2, {"via": rng.choice(["path", "str", "named-handle"])}), ("vmdk", c07.res_vmdk, 2, {}),
                                   ("vmdk-embedded", c07.res_vmdk_embedded, 2, {"via": "path"}), ("hdd", c07.res_hdd, 4, {})):
            k = rng.randrange(ncand)
            fs = [j == k for j in range(ncand)]          # exactly one candidate location holds the parent
            try:
                got = fn(fs, work, **kw)
            except Exception as e:  # noqa: BLE001
                got = f"raised {type(e).__name__}"
            f.append([f"{fmt}.parent-found-at-candidate", k + 1, got])
        return f
    finally:
        shutil.rmtree(work, ignore_errors=True)


def facts_parallels(rng):
    from dissect.hypervisor.disk.hdd import Descriptor
    d = tempfile.mkdtemp(prefix="verif-c14p-")
    try:
        ns = rng.choice([1, 2, 3])
        nsnap = rng.choice([1, 2, 3])
        guids = ["{%s}" % uuid.UUID(int=rng.getrandbits(128)) for _ in range(nsnap)]
        storages, start = [], 0
        for s in range(ns):
            end = start + rng.choice([8, 2048, 2 ** 33])
            storages.append((start, end, [(g, rng.choice(["Compressed", "Plain"]), rng.choice(["d.hds", "my disk ✓.hds", "/abs/p.pvm/x.hdd/y.hds"])) for g in guids]))
            start = end
        shots = [(guids[k], guids[k + 1] if k + 1 < nsnap else enc_hds.NULL_GUID) for k in range(nsnap)]
        top = rng.choice(guids)
        p = os.path.join(d, "DiskDescriptor.xml")
        # the <Storage> elements may be listed in any order; the exposed disk size is the end of the last one by position
        listed = list(storages)
        rng.shuffle(listed)
        with open(p, "w") as fh:
            fh.write(enc_hds.descriptor_xml(listed, shots, top_guid=top))
        desc = Descriptor(Path(p))
        storages = listed
        f = [["top_guid", top.strip("{}"), str(desc.snapshots.top_guid)], ["n_storages", ns, len(desc.storage_data.storages)],
             ["shots", repr([(a.strip("{}"), b.strip("{}")) for a, b in shots]), repr([(str(s.guid), str(s.parent)) for s in desc.snapshots.shots])]]
        for k, (st, want) in enumerate(zip(desc.storage_data.storages, storages)):
            f.append([f"storage{k}", repr((want[0], want[1], [(g.strip("{}"), t, fn) for g, t, fn in want[2]])),
                      repr((st.start, st.end, [(str(i.guid), i.type, i.file) for i in st.images]))])
        # the chain of every snapshot (it up to the base), asked twice, and again after the directory object was asked to open the disk
        # (the image files are not there: the attempts fail, what the descriptor exposes stays)
        from dissect.hypervisor.disk.hdd import HDD
        want_chain = {g: [x.strip("{}") for x in guids[k:]] for k, g in enumerate(guids)}
        for rnd in (1, 2):
            f.append([f"chains.{rnd}", repr(want_chain), repr({g: [str(x) for x in desc.get_snapshot_chain(uuid.UUID(g.strip("{}")))] for g in guids})])
        hobj = HDD(Path(p))
        for g in [None] + guids + guids[:1]:
            try:
                hobj.open(g.strip("{}") if g else None)
            except Exception:  # noqa: BLE001
                pass
        f.append(["chains.after-open", repr(want_chain), repr({g: [str(x) for x in hobj.descriptor.get_snapshot_chain(uuid.UUID(g.strip("{}")))] for g in guids})])
        f.append(["shots.after-open", repr([(a.strip("{}"), b.strip("{}")) for a, b in shots]), repr([(str(s.guid), str(s.parent)) for s in hobj.descriptor.snapshots.shots])])
        # the assembled stream of a small split plain disk listed out of order reports the sum of its storages
        hd = os.path.join(d, "s.hdd")
        os.makedirs(hd)
        sizes = [rng.choice([8, 16, 24]) for _ in range(rng.choice([2, 3, 4]))]
        sts, pos = [], 0
        for k, n in enumerate(sizes):
            with open(os.path.join(hd, f"p{k}.hdd"), "wb") as fh:
                fh.write(bytes([k + 1]) * (n * 512))
            sts.append((pos, pos + n, [(enc_hds.DEFAULT_TOP, "Plain", f"p{k}.hdd")]))
            pos += n
        rng.shuffle(sts)
        with open(os.path.join(hd, "DiskDescriptor.xml"), "w") as fh:
            fh.write(enc_hds.descriptor_xml(sts, [(enc_hds.DEFAULT_TOP, enc_hds.NULL_GUID)]))
        f.append(["split.size", pos * 512, HDD(Path(hd)).open().size])
        return f
    finally:
        shutil.rmtree(d, ignore_errors=True)


def facts_qcow2(rng):
    from dissect.hypervisor.disk.qcow2 import QCow2
    cb = rng.choice([9, 12, 16, 21])
    back = rng.random() < 0.5
    name = rng.choice(["base.img", "bäse ✓ image.qcow2", "/abs/path/to/b.img", "x" * 200])
    img = _base_img(back)
    img["datafile"] = rng.random() < 0.3
    nc = rng.choice([1, 3])
    size = nc * (1 << cb) - rng.choice([0, 512])
    img["l2n"] = (1 << cb) // 8
    hlen = rng.choice([104, 104, 112])
    bfe = rng.random() < 0.6
    nbm, bm_size, bm_off = rng.randrange(1, 65535), rng.choice([24, 4096, 1 << 33]), rng.choice([0x30000, (1 << 40) + 512, 7 << 16])
    cr_off, cr_len = rng.choice([0x50000, 1 << 41]), rng.choice([512, 0x100000])
    ctype = 0 if hlen > 104 else None   # (zstd, type 1, needs a module that is not installed here)
    vf, dvf, info = enc_qcow2.build(img, cluster_bits=cb, K=1, backing_name=name, size_bytes=size, header_length=hlen, compression_type=ctype,
                                    incompat_extra=(8 if ctype else 0),
                                    # typed header extensions: feature table, bitmaps (nb, reserved, directory size, directory offset), crypto header (offset, length)
                                    extra_ext=[(enc_qcow2.EXT_FEATURE_TABLE, bytes(range(48))), (0x23852875, struct.pack(">IIQQ", nbm, 0, bm_size, bm_off)),
                                               (0x0537BE77, struct.pack(">QQ", cr_off, cr_len))],
                                    datafile_ext=True, backing_fmt_ext=bfe, end_marker=rng.random() < 0.8)
    q = QCow2(vf, data_file=dvf, backing_file=io.BytesIO(b"") if back else None)
    f = [["size", size, q.size], ["cluster_size", 1 << cb, q.cluster_size], ["backing_name", name if back else None, q.auto_backing_file],
         ["backing_format", ("RAW" if back and bfe else None), (q.backing_format.upper() if q.backing_format else None)],
         ["feature_table", bytes(range(48)).hex(), (q.feature_table or b"").hex()], ["data_file_name", "data file.raw" if img["datafile"] else None, q.image_data_file]]
    # the compression method: stored in the byte behind a 104-byte header only if the header is longer than that
    f.append(["compression_type", ctype or 0, int(q.compression_type)])
    bh, ch = q.bitmap_header, q.crypto_header
    f.append(["bitmaps_ext", repr((nbm, bm_size, bm_off)), repr((int(bh.nb_bitmaps), int(bh.bitmap_directory_size), int(bh.bitmap_directory_offset))) if bh is not None else "None"])
    f.append(["crypto_ext", repr((cr_off, cr_len)), repr((int(ch.offset), int(ch.length))) if ch is not None else "None"])
    return f


FACTS = {"vdi": facts_vdi, "vhd": facts_vhd, "hds": facts_hds, "vhdx": facts_vhdx, "vmdk": facts_vmdk, "vmdk-file": facts_vmdk_file, "parents": facts_parents, "parallels": facts_parallels,
         "qcow2": facts_qcow2}


def run(ctx):
    thorough = ctx.tier == "thorough"
    rng = random.Random(ctx.seed + 14)
    ctx.rule = ("A: every record list enumerated by TLC from spec/Meta.tla (0-2/3 header extensions x data lengths mod 8; 0-2/3 snapshots x extra "
                "sizes {0,16,24,40} x id/name byte lengths; sequence pairs) encoded into real QCOW2 / VHDX files (v2 and v3 headers, with and "
                "without a backing name closing the extension area); B: per format random stored values for every exposed field (sizes, "
                "units, identifiers, locator entries in UTF-16 with surrogate pairs, descriptor key/values and extent lines with spaces / "
                "unicode, Parallels storages / images / snapshots) recorded as (field, stored, exposed) facts and judged by TLC. "
                "Non-trivial = every case with at least one record / fact.")
    ctx.assumptions = ["QCOW2 backing *format* is upper-cased by the reader: compared case-insensitively", "values are rendered as text for TLC (sizes exceed 32 bits)"]
    cfg = "Meta.cfg" if thorough else "Meta_q.cfg"
    sts = diskprop.dump_states(ctx, "Meta", cfg)
    if thorough:
        snap = [s for s in sts if s["kind"] == "snap"]
        sts = [s for s in sts if s["kind"] != "snap"] + rng.sample(snap, 6000)
    core.use_repo()

    def work(sub, chunk, idx):
        r = random.Random(ctx.seed * 1400 + idx)
        for st in chunk:
            stored = st["stored"]
            try:
                if st["kind"] == "ext":
                    check_ext(sub, list(stored), r)
                elif st["kind"] == "snap":
                    check_snap(sub, [dict(x) for x in stored], r)
                elif st["kind"] == "seq":
                    check_seq(sub, list(stored))
            except core.MachineryError:
                raise
            except Exception as e:  # noqa: BLE001
                import traceback
                sub.violation({"sub": st["kind"], "fail": "raised", "exc": type(e).__name__}, {"stored": stored, "error": repr(e)[:200], "tb": traceback.format_exc()[-1200:]})
            if len(sub.violations) >= sub.max_violations:
                return

    core.parallel(ctx, work, sts)
    # B
    traces = []
    tid = 0
    for fmt, fn in FACTS.items():
        for _ in range(40 if thorough else 10):
            tid += 1
            try:
                facts = fn(rng)
            except Exception as e:  # noqa: BLE001
                import traceback
                ctx.violation({"format": fmt, "fail": "raised", "exc": type(e).__name__}, {"error": repr(e)[:300], "tb": traceback.format_exc()[-1200:]})
                continue
            traces.append({"tid": tid, "fmt": fmt, "facts": [[n, str(a), str(b)] for n, a, b in facts]})
            ctx.case(key=(fmt, repr(facts)), nontrivial=True, sample={"format": fmt, "facts": traces[-1]["facts"][:4]} if len(ctx.samples) < 4 else None)
    if traces:
        verdicts, res = tracecheck.validate("Meta", "TraceMeta.cfg", traces)
        ctx.add_tlc("TraceMeta.cfg (recorded facts)", res)
        for t in traces:
            ctx.traces_validated += 1
            v = verdicts[t["tid"]]
            if v[0] == "reject":
                bad = [f for f in t["facts"] if f[1] != f[2]]
                ctx.violation({"format": t["fmt"], "fail": "exposed-differs", "field": v[2]}, {"format": t["fmt"], "differing": bad[:4]})


def replay(ctx, body):
    ctx.quiet = True
    run(ctx)
    return not ctx.violations
