"""C19 - XML descriptors are parsed without entity expansion or external fetches.

Spec: spec/XmlGuard.tla (truth table: entity declarations refused, nothing fetched, benign documents parse).
A: every (entry point, feature subset) state reached by TLC is rendered as a real document (internal entities, nested
   entity bombs, external general entities file:/http:, parameter entities, external DTD subsets; UTF-8 / UTF-16,
   DOCTYPE pushed far into the file, depth-1 entities, entities used in attributes and text) and fed to the real entry
   point under an audit hook (open / socket events) and a watchdog; verdict and fetch set must equal the specification's."""
from __future__ import annotations

import io
import os
import random
import shutil
import signal
import sys
import tempfile
import tracemalloc
from pathlib import Path

from harness import core, diskcheck, diskprop, tlc

LEVEL = "fault_enumeration"

EVENTS = []
SECRET = [""]
_ARMED = {"on": False, "secret": None}


def _audit(event, args):
    if not _ARMED["on"]:
        return
    if event == "open":
        p = str(args[0])
        if _ARMED["secret"] and (_ARMED["secret"] in p):
            EVENTS.append(("open", p))
    elif event.startswith("socket.") or event.startswith("urllib.") or event in ("http.client.connect", "ftplib.connect"):
        EVENTS.append((event, repr(args)[:100]))


_HOOKED = False


def arm(secret):
    global _HOOKED
    if not _HOOKED:
        sys.addaudithook(_audit)
        _HOOKED = True
    EVENTS.clear()
    _ARMED["secret"] = secret
    _ARMED["on"] = True


def disarm():
    _ARMED["on"] = False


def doctype(feats, secret, rng, root):
    """Internal DTD subset (and external id) for the feature set; returns (doctype text, entity reference to use or '')."""
    decls, ref = [], ""
    ext_id = ""
    empty = rng.random() < 0.3      # a declaration is a declaration, whatever it declares: empty replacement text, empty system literal
    if "internal" in feats:
        decls.append('<!ENTITY ival "">' if empty else '<!ENTITY ival "expanded-internal-value">')
        ref = "&ival;"
    if "nested" in feats:
        depth = rng.choice([2, 3, 5, 7, 8])
        decls.append('<!ENTITY l0 "lol">')
        for k in range(1, depth + 1):
            decls.append(f'<!ENTITY l{k} "{("&l%d;" % (k - 1)) * 8}">')
        ref = ref or f"&l{depth};"
        if rng.random() < 0.5:
            # used inside the DTD itself, as an attribute default: expanded (if at all) while the declarations are still being read
            decls.append(f'<!ATTLIST {root} boom CDATA "&l{depth};">')
    if "extfile" in feats:
        decls.append('<!ENTITY xfile SYSTEM "">' if empty else f'<!ENTITY xfile SYSTEM "file://{secret}">')
        ref = ref or "&xfile;"
    if "exthttp" in feats:
        decls.append('<!ENTITY xhttp SYSTEM "http://127.0.0.1:9/verif-xxe">')
        ref = ref or "&xhttp;"
    if "param" in feats:
        if empty:
            decls.append('<!ENTITY % pe "">')
        else:
            decls.append(f'<!ENTITY % pe SYSTEM "file://{secret}.dtd">')
        decls.append("%pe;")
    if "elemdecl" in feats:
        decls.append(f"<!ELEMENT {root} ANY>")
        decls.append(f"<!ATTLIST {root} verif CDATA #IMPLIED>")
    if "extdtd" in feats:
        ext_id = f' SYSTEM "file://{secret}.ext.dtd"'
    if not decls and not ext_id:
        return (f"<!DOCTYPE {root}>\n" if "doctype" in feats else ""), ""
    body = (" [\n" + "\n".join(decls) + "\n]") if decls else ""
    return f"<!DOCTYPE {root}{ext_id}{body}>\n", ref


def render(entry, feats, secret, rng, style):
    """-> (document text, checker(result) -> bool for the benign case)"""
    if entry == "ovf":
        root = "Envelope"
    elif entry == "vbox":
        root = "VirtualBox"
    elif entry == "pvs":
        root = "ParallelsVirtualMachine"
    else:
        root = "Parallels_disk_image"
    dt, ref = doctype(feats, secret, rng, root)
    use_attr = ref if style.get("in_attr") else ""
    use_text = ref if not style.get("in_attr") else ""
    pad = ("<!-- " + "x" * style["pad"] + " -->\n") if style.get("pad") else ""
    head = '<?xml version="1.0"?>\n' + pad + dt
    if entry == "ovf":
        ns = 'xmlns="http://schemas.dmtf.org/ovf/envelope/1" xmlns:ovf="http://schemas.dmtf.org/ovf/envelope/1" xmlns:rasd="http://schemas.dmtf.org/wbem/wscim/1/cim-schema/2/CIM_ResourceAllocationSettingData"'
        doc = (f'{head}<Envelope {ns}><References><File ovf:href="disk{use_attr}.vmdk" ovf:id="file1"/></References>'
               f'<DiskSection><Info>x{use_text}</Info><Disk ovf:diskId="d1" ovf:fileRef="file1"/></DiskSection>'
               f'<VirtualSystem ovf:id="vm"><VirtualHardwareSection><Item><rasd:HostResource>ovf:/disk/d1</rasd:HostResource>'
               f'<rasd:ResourceType>17</rasd:ResourceType></Item></VirtualHardwareSection></VirtualSystem></Envelope>')
        return doc, lambda r: r == ["disk.vmdk"]
    if entry == "vbox":
        doc = (f'{head}<VirtualBox xmlns="http://www.virtualbox.org/"><Machine name="vm{use_text}"><MediaRegistry><HardDisks>'
               f'<HardDisk uuid="{{1}}" location="a{use_attr}.vdi" format="VDI" type="Normal"/></HardDisks></MediaRegistry>'
               f'<Description>d{use_text}</Description></Machine></VirtualBox>')
        return doc, lambda r: r == ["a.vdi"]
    if entry == "pvs":
        doc = (f'{head}<ParallelsVirtualMachine><Hardware><Hdd id="0"><SystemName>h{use_text}.hdd</SystemName></Hdd></Hardware></ParallelsVirtualMachine>')
        return doc, lambda r: r == ["h.hdd"]
    doc = (f'{head}<Parallels_disk_image Version="1.0"><StorageData><Storage><Start>0</Start><End>8</End><Image>'
           f'<GUID>{{5fbaabe3-6958-40ff-92a7-860e329aab41}}</GUID><Type>Compressed</Type><File>d{use_text}.hds</File></Image></Storage></StorageData>'
           f'<Snapshots><Shot><GUID>{{5fbaabe3-6958-40ff-92a7-860e329aab41}}</GUID><ParentGUID>{{00000000-0000-0000-0000-000000000000}}</ParentGUID></Shot></Snapshots>'
           f'</Parallels_disk_image>')
    return doc, lambda r: r == ["d.hds"]


_OPENED = []


def _handle(text, how, work=None):
    """The document as a caller hands it over: a text stream, or a binary one (a file opened "rb", a tar member), a real file opened
    for reading as text, or a stream the caller has already looked at (sniffed the first line, read to the end)."""
    if how in ("text-file", "text-file-sniffed"):
        p = os.path.join(work, "handed-over.xml")
        with open(p, "w", encoding="utf-8") as f:
            f.write(text)
        fh = open(p, "r", encoding="utf-8")   # noqa: SIM115
        _OPENED.append(fh)
        if how == "text-file-sniffed":
            fh.readline()
        return fh
    if how in ("consumed", "sniffed"):
        fh = io.StringIO(text)
        fh.read() if how == "consumed" else fh.readline()
        return fh
    if how == "binary":
        return io.BytesIO(text.encode("utf-8"))
    if how == "binary-buffered":
        return io.BufferedReader(io.BytesIO(text.encode("utf-8")))
    return io.StringIO(text)


def consume(entry, text, work, encoding, how="text", preopen=None, backup=None):
    if entry == "ovf":
        from dissect.hypervisor.descriptor.ovf import OVF
        return list(OVF(_handle(text, how, work)).disks())
    if entry == "vbox":
        from dissect.hypervisor.descriptor.vbox import VBox
        return list(VBox(_handle(text, how, work)).disks())
    if entry == "pvs":
        from dissect.hypervisor.descriptor.pvs import PVS
        return list(PVS(_handle(text, how, work)).disks())
    from dissect.hypervisor.disk.hdd import Descriptor
    p = Path(work) / "DiskDescriptor.xml"
    if preopen is not None:
        # the same path held a benign descriptor of exactly the same size a moment ago, and it was opened
        pad = len(text.encode(encoding)) - len(preopen.encode(encoding))
        if pad >= 7:
            p.write_bytes((preopen + "<!--" + "x" * (pad - 7) + "-->").encode(encoding))
            try:
                Descriptor(p)
            except Exception:  # noqa: BLE001
                pass
    if encoding == "utf-8":
        p.write_text(text, encoding="utf-8")
    else:
        p.write_bytes(text.replace('<?xml version="1.0"?>', f'<?xml version="1.0" encoding="{encoding}"?>').encode(encoding))
    if backup is not None:
        # the disk directory is opened as a whole; an older, entity-free copy of the descriptor lies next to the current one
        from dissect.hypervisor.disk.hdd import HDD
        bp = Path(work) / "DiskDescriptor.xml.Backup"
        bp.write_text(backup, encoding="utf-8")
        try:
            d = HDD(rng_choice_path(work, p)).descriptor
        finally:
            bp.unlink()
    else:
        d = Descriptor(p)
    return [im.file for st in d.storage_data.storages for im in st.images]


def rng_choice_path(work, p):
    """HDD() takes the directory or a file inside it."""
    return Path(work) if len(str(p)) % 2 else p


STYLES = [{"in_attr": False}, {"in_attr": True}, {"in_attr": False, "pad": 3000}, {"in_attr": True, "pad": 70000},
          {"in_attr": False, "how": "text-file"}, {"in_attr": True, "how": "text-file"}]     # a real file opened as text (it has an .encoding, a .name)
# off-standard document shapes (still "any document" in the property's sense): for these only the refusal of entity
# declarations and the absence of fetches / hangs is asserted - what a benign document of that shape parses to is not
SHAPES = [{"shape": "charrefs"}, {"shape": "leading-blank-lines"}, {"shape": "declared-utf16"}, {"shape": "declared-latin1", "in_attr": True}, {"shape": "xinclude"}, {"shape": "xinclude-xml", "in_attr": True}, {"shape": "binary-handle", "how": "binary"}, {"shape": "binary-buffered-handle", "how": "binary-buffered", "in_attr": True},
          {"shape": "same-path-same-size-after-benign", "preopen": True}, {"shape": "same-path-same-size-after-benign-attr", "preopen": True, "in_attr": True},
          {"shape": "no-namespace"}, {"shape": "legacy-namespace", "in_attr": True}, {"shape": "nul-tail"}, {"shape": "nul-tail-sector", "in_attr": True},
          {"shape": "nul-mid"}, {"shape": "bom"}, {"shape": "ws-tail", "in_attr": True}, {"shape": "pad-64k-1", "pad": 65536 - 60},
          {"shape": "pad-64k+1", "pad": 65536 + 1, "in_attr": True}, {"shape": "pad-1m", "pad": 1 << 20}, {"shape": "version-1.1"},
          {"shape": "standalone"}, {"shape": "crlf", "in_attr": True}, {"shape": "upper-root-comment"},
          # the words of an entity declaration in places where they are character data: a comment, a CDATA section, escaped text
          {"shape": "mentions-entity"}, {"shape": "mentions-entity-attr", "in_attr": True},
          # the Parallels disk directory opened as a whole, an entity-free backup descriptor next to the current one
          {"shape": "dir-with-backup", "backup": True}, {"shape": "dir-with-backup-attr", "backup": True, "in_attr": True},
          # a handle the caller has already read from (what is left parses or not - entities must not come through either way)
          {"shape": "handle-consumed", "how": "consumed"}, {"shape": "handle-sniffed", "how": "sniffed", "in_attr": True}, {"shape": "file-sniffed", "how": "text-file-sniffed"}]


# what an entity-free document of these shapes must parse to, per entry point
SHAPE_RESULTS = {
    "charrefs": {"ovf": "Café & disk.vmdk", "vbox": "Café & a.vdi", "pvs": "Café & a&b h.hdd", "hdd": "Café & <&> d.hds"},
    "declared-utf16": {"ovf": "diskü✓.vmdk", "vbox": "aü✓.vdi", "pvs": "hü✓.hdd", "hdd": "dü✓.hds"},
    "declared-latin1": {"ovf": "diskü✓.vmdk", "vbox": "aü✓.vdi", "pvs": "hü✓.hdd", "hdd": "dü✓.hds"},
    "mentions-entity": {"ovf": "<!ENTITY e 'v'> disk.vmdk", "vbox": "<!ENTITY e 'v'> a.vdi", "pvs": '<!ENTITY e "v"> h.hdd', "hdd": '<!ENTITY e SYSTEM "file:///x"> d.hds'},
    "mentions-entity-attr": {"ovf": "<!ENTITY e 'v'> disk.vmdk", "vbox": "<!ENTITY e 'v'> a.vdi", "pvs": '<!ENTITY e "v"> h.hdd', "hdd": '<!ENTITY e SYSTEM "file:///x"> d.hds'},
    "dir-with-backup": {"ovf": "disk.vmdk", "vbox": "a.vdi", "pvs": "h.hdd", "hdd": "d.hds"},
    "dir-with-backup-attr": {"ovf": "disk.vmdk", "vbox": "a.vdi", "pvs": "h.hdd", "hdd": "d.hds"},
}


def reshape(text, shape, rng):
    if shape == "charrefs":
        # numeric character references, the predefined &amp; and a CDATA section are not entity declarations: they decode
        for a, b in (("<SystemName>h", "<SystemName>Caf&#233; &amp; <![CDATA[a&b]]> h"), ('location="a', 'location="Caf&#xE9; &amp; a'),
                     ('href="disk', 'href="Caf&#233; &amp; disk'), ("<File>d", "<File>Caf&#233; &amp; <![CDATA[<&>]]> d")):
            text = text.replace(a, b)
        return text
    if shape.startswith("mentions-entity"):
        text = text.replace('<?xml version="1.0"?>\n', '<?xml version="1.0"?>\n<!-- <!DOCTYPE x [ <!ENTITY a "b"> <!ENTITY c SYSTEM "file:///etc/passwd"> ]> -->\n', 1)
        for a, b in (("<SystemName>h", '<SystemName><![CDATA[<!ENTITY e "v">]]> h'), ('location="a', "location=\"&lt;!ENTITY e 'v'&gt; a"),
                     ('href="disk', "href=\"&lt;!ENTITY e 'v'&gt; disk"), ("<File>d", '<File><![CDATA[<!ENTITY e SYSTEM "file:///x">]]> d')):
            text = text.replace(a, b)
        return text
    if shape == "leading-blank-lines":
        return "\n\n  \n" + text
    if shape in ("declared-utf16", "declared-latin1"):
        # a text handle: the declaration's encoding is irrelevant (the characters are already decoded)
        return text.replace('<?xml version="1.0"?>', '<?xml version="1.0" encoding="%s"?>' % ("UTF-16" if shape == "declared-utf16" else "ISO-8859-1")).replace(
            "<SystemName>h", "<SystemName>hü✓").replace('location="a', 'location="aü✓').replace('href="disk', 'href="diskü✓').replace("<File>d", "<File>dü✓")
    if shape in ("xinclude", "xinclude-xml"):
        # XInclude elements are ordinary elements to a parser that is not asked to process them: nothing may be read
        inc = (f'<xi:include xmlns:xi="http://www.w3.org/2001/XInclude" href="{SECRET[0]}" parse="text"/>' if shape == "xinclude"
               else f'<xi:include xmlns:xi="http://www.w3.org/2001/XInclude" href="{SECRET[0]}.dtd"/>')
        k = text.rindex("</")
        return text[:k] + inc + text[k:]
    if shape == "no-namespace":
        return text.replace(' xmlns="http://www.virtualbox.org/"', "").replace('xmlns="http://schemas.dmtf.org/ovf/envelope/1" ', "")
    if shape == "legacy-namespace":
        return text.replace("http://www.virtualbox.org/", "http://www.innotek.de/VirtualBox-settings").replace(
            'xmlns="http://schemas.dmtf.org/ovf/envelope/1"', 'xmlns="http://schemas.dmtf.org/ovf/envelope/2"')
    if shape == "nul-tail":
        return text + "\x00" * rng.choice([1, 2, 7])
    if shape == "nul-tail-sector":
        return text + "\x00" * (-len(text.encode()) % 4096 or 4096)
    if shape == "nul-mid":
        k = text.rindex("</")
        return text[:k] + "\x00" + text[k:]
    if shape == "bom":
        return "\ufeff" + text
    if shape == "ws-tail":
        return text + "\n\n  \t\n"
    if shape == "version-1.1":
        return text.replace('<?xml version="1.0"?>', '<?xml version="1.1"?>')
    if shape == "standalone":
        return text.replace('<?xml version="1.0"?>', '<?xml version="1.0" encoding="UTF-8" standalone="no"?>')
    if shape == "crlf":
        return text.replace("\n", "\r\n")
    if shape == "upper-root-comment":
        return text.replace("<!DOCTYPE", "<!-- <!DOCTYPE x> -->\n<!DOCTYPE", 1)
    return text


def run(ctx):
    thorough = ctx.tier == "thorough"
    ctx.rule = ("all (entry point, feature subset) states of spec/XmlGuard.tla (4 x 2^6) x document styles (entity used in text / attribute, "
                "DOCTYPE after 3 KB / 70 KB of comments, UTF-8 and UTF-16/Latin-1 files for the descriptor) rendered as real documents; "
                "non-trivial = document declaring at least one entity or external id")
    ctx.assumptions = ["defusedxml is the mechanism; the audit hook sees open() and socket events", "an external DTD subset without entity "
                       "declarations may parse (only NoFetch is asserted for it)"]
    r = diskprop.tlc_check(ctx, "XmlGuard", "XmlGuard.cfg", min_states=256, need_actions=("Parse",))
    rd = tlc.run("XmlGuard", "XmlGuard.cfg", dump=True)
    from harness import tlaparse
    sts = [s for s in tlaparse.iter_dump(rd.dump) if s["verdict"] != "pending"]
    tlc.cleanup(rd)
    rng = random.Random(ctx.seed + 19)
    work = tempfile.mkdtemp(prefix="verif-c19-")
    secret = os.path.join(work, "secret-verif-xxe.txt")
    SECRET[0] = secret
    with open(secret, "w") as f:
        f.write("TOP-SECRET-CONTENT")
    for suffix in (".dtd", ".ext.dtd"):
        with open(secret + suffix, "w") as f:
            f.write('<!ENTITY fromdtd "dtd-entity-value">')
    # one benign parse per entry point first: what importing the parser modules allocates is not charged to a document
    for entry in ("ovf", "vbox", "pvs", "hdd"):
        try:
            consume(entry, render(entry, set(), secret, rng, {"in_attr": False})[0], work, "utf-8")
        except Exception:  # noqa: BLE001
            pass
    tracemalloc.start()
    try:
        for st in sts:
            feats = set(st["feats"])
            for style in ((STYLES + SHAPES) if thorough else rng.sample(STYLES, 2) + rng.sample(SHAPES, 9)):
                encs = ["utf-8"] + (["utf-16", "latin-1"] if st["entry"] == "hdd" else [])
                for enc in (encs if thorough else [rng.choice(encs)]):
                    text, benign_ok = render(st["entry"], feats, secret, rng, style)
                    shaped = "shape" in style
                    if shaped:
                        text = reshape(text, style["shape"], rng)
                        if enc != "utf-8" and "nul" in style["shape"]:
                            enc = "utf-8"
                    ctx.case(key=(st["entry"], tuple(sorted(feats)), repr(style), enc), nontrivial=bool(feats - {"doctype", "elemdecl"}) or bool(feats),
                             sample={"entry": st["entry"], "features": sorted(feats), "style": style, "spec_verdict": st["verdict"]}
                             if feats == {"extfile", "nested"} else None)
                    arm("secret-verif-xxe")
                    disarm_wd = diskcheck.arm_watchdog(20)
                    tracemalloc.reset_peak()
                    mem0 = tracemalloc.get_traced_memory()[0]
                    verdict, res, err = "parsed", None, ""
                    try:
                        pre = None
                        if style.get("preopen") and st["entry"] == "hdd":
                            pre = render(st["entry"], set(), secret, rng, {"in_attr": False})[0]
                        bak = render(st["entry"], set(), secret, rng, {"in_attr": False})[0] if (style.get("backup") and st["entry"] == "hdd") else None
                        res = consume(st["entry"], text, work, enc, how=style.get("how", "text"), preopen=pre, backup=bak)
                    except diskcheck.Hang:
                        verdict = "hang"
                    except Exception as e:  # noqa: BLE001
                        verdict = "refused"
                        err = f"{type(e).__name__}: {e}"[:200]
                    finally:
                        disarm_wd()
                        disarm()
                        while _OPENED:
                            _OPENED.pop().close()
                    peak = max(0, tracemalloc.get_traced_memory()[1] - mem0)     # what this one call added at its worst
                    fetched = [e for e in EVENTS]
                    a = {"entry": st["entry"], "features": "+".join(sorted(feats))}
                    det = {"entry": st["entry"], "features": sorted(feats), "style": style, "encoding": enc, "result": res, "error": err, "doc": text[-800:]}
                    if fetched:
                        ctx.violation({**a, "fail": "fetched"}, {**det, "events": fetched[:5]})
                    # memory: a refused or parsed document costs a small multiple of its size; expansion shows as a multiple of the
                    # expanded text (8^depth * 3 bytes)
                    if verdict == "hang" or peak > min(64 << 20, 24 * len(text) + (6 << 20)):
                        ctx.violation({**a, "fail": "resources"}, {**det, "peak": peak, "verdict": verdict})
                    elif st["verdict"] == "refused" and verdict != "refused":
                        ctx.violation({**a, "fail": "entity-accepted"}, det)
                    elif shaped and style["shape"] in SHAPE_RESULTS and not feats and enc == "utf-8":
                        want = SHAPE_RESULTS[style["shape"]][st["entry"]]
                        if verdict != "parsed" or res != [want]:
                            ctx.violation({**a, "fail": "benign-misparsed", "shape": style["shape"]}, {**det, "want": want})
                    elif shaped:
                        pass  # benign documents of off-standard shapes: nothing further asserted
                    elif enc != "utf-8" and verdict == "refused":
                        pass  # the descriptor reader only promises UTF-8 text; refusing other encodings is not an entity issue
                    elif st["verdict"] == "parsed" and "extdtd" not in feats and (verdict != "parsed" or not benign_ok(res)):
                        ctx.violation({**a, "fail": "benign-rejected"}, det)
                    elif st["verdict"] == "parsed" and "extdtd" in feats and verdict == "parsed" and not benign_ok(res):
                        ctx.violation({**a, "fail": "benign-misparsed"}, det)
        # a declaration that follows a reference to an undeclared parameter entity: a non-validating processor stops
        # processing declarations there (XML 1.0, 5.1), so the guard's declaration hook never fires.  The document still
        # "declares an entity" in the property's words (known finding, see known_findings.json).
        for entry in ("ovf", "vbox", "pvs", "hdd"):
            text, benign_ok = render(entry, set(), secret, rng, {"in_attr": False})
            root = {"ovf": "Envelope", "vbox": "VirtualBox", "pvs": "ParallelsVirtualMachine", "hdd": "Parallels_disk_image"}[entry]
            text = text.replace('<?xml version="1.0"?>\n', f'<?xml version="1.0"?>\n<!DOCTYPE {root} [ %undeclared; <!ENTITY late "declared-after-an-unread-parameter-entity"> ]>\n', 1)
            ctx.case(key=(entry, "undeclared-pe+entity"), nontrivial=True)
            arm("secret-verif-xxe")
            try:
                consume(entry, text, work, "utf-8")
                verdict = "parsed"
            except Exception:  # noqa: BLE001
                verdict = "refused"
            finally:
                disarm()
            if EVENTS:
                ctx.violation({"entry": entry, "features": "undeclared-pe+entity", "fail": "fetched"}, {"events": EVENTS[:5]})
            if verdict != "refused":
                ctx.violation({"entry": entry, "features": "undeclared-pe+entity", "fail": "entity-accepted"}, {"entry": entry, "doc": text[:300]})
    finally:
        tracemalloc.stop()
        shutil.rmtree(work, ignore_errors=True)


def replay(ctx, body):
    ctx.quiet = True
    run(ctx)
    return not ctx.violations
