"""C17 - Hyper-V VMCX/VMRS: the decoded tree equals the stored key/value tree.

Spec: spec/HyperV.tla (stored tree, distribution over key tables, stale lower-sequence copies, free entries, header
sequence numbers; decoder = highest sequence wins, free ignored, parents resolved in the active copy).
A: every TLC-enumerated file description is written by harness/enc_hyperv.py as a real file with values of all
   seven types (negative / 2^63+ integers, doubles, empty and non-BMP strings, arrays, strings/arrays >= 0x800 stored as
   file objects, long UTF-8 keys) and decoded by the real HyperVFile; as_dict() and item lookups compared.
B: the two committed samples are decoded, re-encoded by the independent writer and decoded again (round trip);
   random larger trees are recorded and the decoded structure validated by TLC (TraceHyperV)."""
from __future__ import annotations

import io
import math
import os
import random

from harness import core, diskprop, enc_hyperv as E, tlaparse, tlc

LEVEL = "model_checking"

LEAF_VALUES = [
    (E.T_INT, -1), (E.T_INT, -(2 ** 63)), (E.T_INT, 2 ** 63 - 1), (E.T_UINT, 2 ** 64 - 1), (E.T_UINT, 2 ** 63), (E.T_UINT, 0),
    (E.T_DOUBLE, -0.5), (E.T_DOUBLE, 1e300), (E.T_BOOL, True), (E.T_BOOL, False), (E.T_STRING, ""), (E.T_STRING, "plain"),
    (E.T_BOOL, ("raw", 0x100)), (E.T_BOOL, ("raw", 0x80000000)), (E.T_BOOL, ("raw", 0xFFFFFF00)), (E.T_BOOL, ("raw", 0x10000)), (E.T_BOOL, ("raw", 0)),
    (E.T_STRING, "ünï-😀-𝄞"), (E.T_STRING, "\ufeffstarts with U+FEFF"), (E.T_STRING, "\ufffestarts with U+FFFE"), (E.T_STRING, "s" * 0x3FF), (E.T_STRING, "L" * 0x400), (E.T_STRING, "B😀" * 0x300),
    (E.T_ARRAY, b""), (E.T_ARRAY, bytes(range(256))), (E.T_ARRAY, bytes(range(256)) * 8), (E.T_ARRAY, b"\xff" * 0x7FF), (E.T_ARRAY, b"\x01" * 5000),
]
KEYS = ["k", "configuration", "_197f74e3-b84b-46de-8ae6-82f1cd181cdc_", "ключ-✓", "鍵" * 60, "x" * 200, "with space", "K"]


def make_nodes(x, rng):
    K = len(x["parent"])
    par = x["parent"] if isinstance(x["parent"], dict) else {i + 1: v for i, v in enumerate(x["parent"])}
    tbl = x["tbl"] if isinstance(x["tbl"], dict) else {i + 1: v for i, v in enumerate(x["tbl"])}
    inner = set(x["inner"])
    nodes = []
    for n in range(1, K + 1):
        key = f"{rng.choice(KEYS)}{n}"
        if n in inner:
            nodes.append({"id": n, "parent": par[n], "tbl": tbl[n], "key": key, "type": E.T_NODE, "value": n})
        else:
            t, v = rng.choice(LEAF_VALUES)
            nd = {"id": n, "parent": par[n], "tbl": tbl[n], "key": key, "type": t, "value": v}
            if isinstance(v, tuple):   # a boolean stored as an arbitrary 32-bit word: true iff non-zero
                nd["value"], nd["stored"] = v[1] != 0, v
            nodes.append(nd)
    return nodes


def expected_tree(nodes):
    kids = {}
    for n in nodes:
        kids.setdefault(n["parent"], []).append(n)

    def sub(p):
        out = {}
        for n in kids.get(p, []):
            out[n["key"]] = sub(n["id"]) if n["type"] == E.T_NODE else n["value"]
        return out

    return kids, sub


def decode_real(blob):
    from dissect.hypervisor.descriptor.hyperv import HyperVFile
    return HyperVFile(io.BytesIO(blob) if isinstance(blob, (bytes, bytearray)) else blob)


def compare(ctx, x, nodes, hf, attrs, det):
    kids, sub = expected_tree(nodes)
    ok = True
    # top level: non-node entries at the root cannot be dumped by as_dict (Node only): compare per entry
    want_root = {n["key"]: n for n in kids.get(0, [])}
    if set(hf.keys()) != set(want_root):
        ctx.violation({**attrs, "fail": "root-keys"}, {**det, "want": sorted(want_root), "got": sorted(hf.keys())})
        return False
    for key, n in want_root.items():
        e = hf[key]
        try:
            got = e.as_dict() if n["type"] == E.T_NODE else e.value
        except Exception as ex:  # noqa: BLE001
            ctx.violation({**attrs, "fail": "decode-raised", "exc": type(ex).__name__}, {**det, "key": key, "error": repr(ex)[:200]})
            return False
        want = sub(n["id"]) if n["type"] == E.T_NODE else n["value"]
        if n["type"] in (E.T_STRING, E.T_ARRAY) and e.is_file_object_pointer:
            # values held in separate file objects are also reachable as a stream over the object
            raw = n["value"].encode("utf-16-le") if n["type"] == E.T_STRING else bytes(n["value"])
            fo = e.get_file_object()
            off, size = e.file_object_pointer
            if fo.open(size).read() != raw or fo.read(size) != raw or fo.open(size).read(7) != raw[:7]:
                ctx.violation({**attrs, "fail": "file-object-stream"}, {**det, "key": key, "size": size})
                return False
        if not same(got, want):
            ctx.violation({**attrs, "fail": "tree-mismatch"}, {**det, "key": key, "want": short(want), "got": short(got)})
            ok = False
            break
    if ok:
        # values held in separate file objects are also reachable as a stream over the object (every entry of the tree)
        def walk(entry):
            for ch in entry.children.values():
                if ch.is_file_object_pointer:
                    v = ch.value
                    raw = v.encode("utf-16-le") if isinstance(v, str) else bytes(v)
                    off, size = ch.file_object_pointer
                    fo = ch.get_file_object()
                    if fo.open(size).read() != raw or fo.read(size) != raw or fo.open(size).read(7) != raw[:7]:
                        ctx.violation({**attrs, "fail": "file-object-stream"}, {**det, "key": ch.key, "size": size})
                        return False
                if not walk(ch):
                    return False
            return True
        for e in hf.root.values():
            if not walk(e):
                return False
    return ok


def same(a, b):
    if isinstance(b, dict):
        return isinstance(a, dict) and set(a) == set(b) and all(same(a[k], b[k]) for k in b)
    if isinstance(b, float):
        return isinstance(a, float) and (a == b or (math.isnan(a) and math.isnan(b)))
    if isinstance(b, bool):
        return isinstance(a, bool) and a == b
    return type(a) is type(b) and a == b or (isinstance(a, int) and isinstance(b, int) and not isinstance(a, bool) and a == b)


def short(v):
    s = repr(v)
    return s if len(s) < 300 else s[:300] + "..."


def build_file(x, nodes, rng, wide=False):
    tables, fobjs, lay = E.plan_tables(nodes, ntables_free=set(x["free"]), stale=set(x["stale"]), newer_first=x["newerFirst"],
                                       pad_rng=rng if rng.random() < 0.5 else None, flag_rng=rng if rng.random() < 0.6 else None,
                                       far=rng.choice([0x20000, (1 << 32) + 0x5000] if wide else [0, 0, 0, (1 << 32) + 0x5000, (3 << 32) + 0x1000]),   # objects beyond 4 GiB
                                       emptied=rng.choice([(), (), (900,), (901, 902)]))
    hi, lo = rng.choice([(9, 4), (0x9000, 5), (0xFFFF, 1), (0x8001, 0), (2, 1)])
    seqs = (hi, lo) if x["hdr"] == 1 else (lo, hi)
    # key tables and file objects may be listed in a chain of object tables (any distribution, any order)
    return E.build(tables, fobjs, hdr_seqs=seqs, chain=rng.choice([1, 1, 2, 3]), chain_rng=rng if rng.random() < 0.7 else None,
                   alignment=rng.choice([0x1000, 0x1000, 0x200, 0x10000, 0x100, 0x800]),
                   stale_header=rng.choice([None, None, "blank", "old-version", "other-signature"]))


def run(ctx):
    thorough = ctx.tier == "thorough"
    ctx.rule = ("every file description enumerated by TLC from spec/HyperV.tla (all forests of 3 nodes x inner/leaf x distribution over 2 "
                "key tables x stale copies x free entries x header sequence order x object-table order) x value/keys drawn from a table of "
                "all seven types incl. extreme integers, non-BMP strings and >= 0x800-byte values in file objects; non-trivial = file "
                "with a stale copy, a free entry, a child in another table than its parent, or a file object")
    ctx.assumptions = ["independent writer harness/enc_hyperv.py; checksums are not verified by the reader", "values are compared in Python; "
                       "structure (tree shape, table choice) is decided by the TLA+ decoder"]
    diskprop.tlc_check(ctx, "HyperV", "HyperV_img.cfg", min_states=1000, coverage=False)
    sts = diskprop.dump_states(ctx, "HyperV", "HyperV_img.cfg")
    rng0 = random.Random(ctx.seed + 17)
    if not thorough:
        sts = rng0.sample(sts, 2500)

    def work(sub, chunk, idx):
        rng = random.Random(ctx.seed * 1700 + idx)
        for st in chunk:
            x = st["file"]
            # the TLC-decoded structure is the oracle for the shape
            want_shape = sorted(tuple(t) for t in st["decoded"])
            nodes = make_nodes(x, rng)
            par = {n["id"]: n["parent"] for n in nodes}
            tb = {n["id"]: n["tbl"] for n in nodes}
            nt = bool(x["stale"]) or bool(x["free"]) or any(p and tb[p] != tb[c] for c, p in par.items()) or \
                any(n["type"] in (E.T_STRING, E.T_ARRAY) and len(E.value_bytes(n["type"], n["value"])) - 4 >= 0x800 for n in nodes)
            sub.case(key=repr(x) + repr([(n["type"], n["key"]) for n in nodes]), nontrivial=nt,
                     sample={"file": x, "nodes": [{k: short(v) for k, v in n.items()} for n in nodes]} if nt and idx == 0 else None)
            shape = sorted((n["id"], n["parent"], "node" if n["type"] == E.T_NODE else "leaf") for n in nodes)
            if shape != want_shape:
                raise core.MachineryError(f"harness shape {shape} differs from the TLC-decoded shape {want_shape}")
            attrs = {"stale": bool(x["stale"]), "free": bool(x["free"]), "hdr": x["hdr"], "newerFirst": x["newerFirst"]}
            det = {"file": x, "nodes": [{k: short(v) for k, v in n.items()} for n in nodes]}
            try:
                blob = build_file(x, nodes, rng)
                hf = decode_real(blob)
            except Exception as e:  # noqa: BLE001
                sub.violation({**attrs, "fail": "open-raised", "exc": type(e).__name__}, {**det, "error": repr(e)[:300]})
                continue
            try:
                compare(sub, x, nodes, hf, attrs, det)
            except core.MachineryError:
                raise
            except Exception as e:  # noqa: BLE001   (walking what the reader built: a cycle or a broken entry is the reader's)
                sub.violation({**attrs, "fail": "decode-raised", "exc": type(e).__name__}, {**det, "error": repr(e)[:300]})
            if len(sub.violations) >= sub.max_violations:
                return

    core.parallel(ctx, work, sts)
    random_trees(ctx, rng0, 400 if thorough else 60)
    deep_trees(ctx, rng0)
    fixtures_roundtrip(ctx)


def random_trees(ctx, rng, n):
    """B: random larger trees (up to 14 nodes over 3 key tables, stale copies, free entries); the structure decoded by the real
    reader is recorded and validated by TLC (HyperV!TraceSpec: Got = Decode(file), no ghost entry visible)."""
    from harness import tracecheck
    runs = []
    for tid in range(1, n + 1):
        wide = tid % 10 == 0    # several hundred key tables: the object table(s) list more objects than one page holds
        K = rng.randrange(240, 420) if wide else rng.randrange(4, 15)
        NT = rng.randrange(230, K) if wide else 3
        parent = [0] + [rng.choice([0] + list(range(1, k))) for k in range(2, K + 1)]
        inner = sorted({p for p in parent if p})
        inner += [k for k in range(1, K + 1) if k not in inner and rng.random() < 0.15]
        x = {"parent": parent, "inner": sorted(set(inner)), "tbl": [rng.randrange(1, NT + 1) for _ in range(K)], "stale": sorted(rng.sample(range(1, NT + 1), rng.randrange(0, 3))),
             "free": sorted(rng.sample(range(1, NT + 1), rng.randrange(0, 3))), "hdr": rng.choice([1, 2]), "newerFirst": rng.random() < 0.5}
        nodes = make_nodes({**x, "parent": {i + 1: p for i, p in enumerate(parent)}, "tbl": {i + 1: t for i, t in enumerate(x["tbl"])}}, rng)
        for nd in nodes:
            nd["key"] = f"n{nd['id']}-" + nd["key"]
        try:
            hf = decode_real(build_file(x, nodes, rng, wide=wide))
            decoded, ghost = [], False

            def walk(entries, pid):
                nonlocal ghost
                for key, e in entries.items():
                    if key.startswith("ghost"):
                        ghost = True
                        continue
                    nid = int(key[1:key.index("-")])
                    decoded.append([nid, pid, 1 if e.type.name == "Node" else 0])
                    walk(e.children, nid)
            walk(hf.root, 0)
        except Exception as e:  # noqa: BLE001
            ctx.violation({"fail": "open-raised", "sub": "random-trees", "exc": type(e).__name__}, {"file": x, "error": repr(e)[:300]})
            continue
        ctx.case(key=("tree", repr(x)), nontrivial=True)
        runs.append({"tid": tid, **x, "decoded": decoded, "ghost_seen": ghost})
    if runs:
        verdicts, res = tracecheck.validate("HyperV", "TraceHyperV.cfg", runs)
        ctx.add_tlc("TraceHyperV.cfg (random trees)", res)
        for r in runs:
            ctx.traces_validated += 1
            if verdicts[r["tid"]][0] == "reject":
                ctx.violation({"fail": "decoded-structure", "sub": "random-trees"}, {"file": {k: r[k] for k in ("parent", "inner", "tbl", "stale", "free", "hdr", "newerFirst")}, "decoded": r["decoded"][:20]})


def deep_trees(ctx, rng):
    """Trees of any depth: a single line of 70-150 nested nodes (over one or three key tables) with a leaf at the bottom, decoded
    with as_dict() and by walking the children."""
    for D in (70, 100, 150):
        parent = [0] + list(range(1, D))
        x = {"parent": parent, "inner": list(range(1, D)), "tbl": [rng.choice([1, 1, 2, 3]) for _ in range(D)], "stale": [], "free": [], "hdr": 1, "newerFirst": True}
        nodes = make_nodes({**x, "parent": {i + 1: p for i, p in enumerate(parent)}, "tbl": {i + 1: t for i, t in enumerate(x["tbl"])}}, rng)
        for nd in nodes:
            nd["key"] = f"n{nd['id']}"
        ctx.case(key=("deep", D), nontrivial=True)
        try:
            hf = decode_real(build_file(x, nodes, rng))
            d, depth = hf.as_dict(), 0
            while isinstance(d, dict) and len(d) == 1 and f"n{depth + 1}" in d:
                depth += 1
                d = d[f"n{depth}"]
            e, walked = hf[f"n1"], 1
            while e.children:
                e = next(iter(e.children.values()))
                walked += 1
        except Exception as ex:  # noqa: BLE001
            ctx.violation({"fail": "decode-raised", "sub": "deep-trees", "exc": type(ex).__name__}, {"depth": D, "error": repr(ex)[:300]})
            continue
        leaf = nodes[-1]
        if depth != D or walked != D or not same(d, leaf["value"]):
            ctx.violation({"fail": "tree-mismatch", "sub": "deep-trees"}, {"depth": D, "as_dict_depth": depth, "walked": walked, "bottom": short(d)})


def fixtures_roundtrip(ctx):
    """B: decode the committed samples with the real reader, re-encode their trees with the independent writer, decode again."""
    from dissect.hypervisor.descriptor.hyperv import HyperVFile
    from dissect.hypervisor.descriptor.c_hyperv import KeyDataType

    tmap = {KeyDataType.Int: E.T_INT, KeyDataType.UInt: E.T_UINT, KeyDataType.Double: E.T_DOUBLE, KeyDataType.String: E.T_STRING,
            KeyDataType.Array: E.T_ARRAY, KeyDataType.Bool: E.T_BOOL, KeyDataType.Node: E.T_NODE}
    for name in ("test.vmcx", "test.VMRS"):
        p = os.path.join(core.repo_path(), "tests", "data", name)
        if not os.path.exists(p):
            continue
        with open(p, "rb") as fh:
            hf = HyperVFile(fh)
            nodes = []

            def walk(entry, parent_id, depth):
                nid = len(nodes) + 1
                t = tmap[entry.type]
                nodes.append({"id": nid, "parent": parent_id, "tbl": 1 + (depth % 3), "key": entry.key, "type": t,
                              "value": (nid if t == E.T_NODE else entry.value)})
                if t == E.T_NODE:
                    for ch in entry.children.values():
                        walk(ch, nid, depth + 1)

            for e in hf.root.values():
                walk(e, 0, 0)
            want = hf.as_dict()
        x = {"free": [1, 2], "stale": [2], "newerFirst": False, "hdr": 2}
        # key tables of the re-encoded file may need more than one page: the planner sizes them
        blob = build_file(x, nodes, random.Random(5))
        ctx.case(key=("fixture", name), nontrivial=True, sample={"fixture": name, "entries": len(nodes)})
        ctx.traces_validated += 1
        try:
            got2 = decode_real(blob).as_dict()
        except Exception as e:  # noqa: BLE001
            ctx.violation({"fail": "fixture-roundtrip", "fixture": name, "exc": type(e).__name__}, {"fixture": name, "error": repr(e)[:300]})
            continue
        if not same(got2, want):
            ctx.violation({"fail": "fixture-roundtrip", "fixture": name}, {"fixture": name, "entries": len(nodes)})


def replay(ctx, body):
    ctx.quiet = True
    run(ctx)
    return not ctx.violations
