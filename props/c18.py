"""C18 - VM configuration files: the disk list is exactly the VM's hard disks.

Spec: spec/VmConfig.tla (device sets for VMX, OVF reference graphs, VirtualBox media registries, PVS hardware lists and
the specified disk list of each).
A: every TLC-enumerated configuration is rendered to text in several styles (key casing, quoting, spacing, CRLF,
   comments, unrelated keys/devices, duplicate assignments, namespace prefixes, identifier alphabets) and parsed by the
   real VMX / OVF / VBox / PVS classes; the reported disk list must equal the specification's.
B: random larger configurations are recorded (configuration + reported list) and validated by TLC (TraceConfig)."""
from __future__ import annotations

import io
import random

from harness import core, diskprop, tlaparse, tlc

LEVEL = "model_checking"


# ------------------------------------------------------------------ renderers (independent of the package)
def _case(s, rng, style):
    if style == "lower":
        return s.lower()
    if style == "upper":
        return s.upper()
    if style == "mixed":
        return "".join(c.upper() if rng.random() < 0.5 else c.lower() for c in s)
    return s


def render_vmx(devs, rng, style):
    """devs: list of {"slot": {cls,bus,unit}, "type", "file", "dup"} -> (text, expected file names keyed by slot)."""
    busmap = {0: rng.choice([0, 1, 3])}
    unitmap = {0: rng.choice([0, 1]), 1: rng.choice([2, 8, 15])}
    lines = ['.encoding = "UTF-8"', 'config.version = "8"', 'virtualHW.version = "19"', 'displayName = "scsi test vm"',
             'floppy0.fileName = "floppy.flp"', 'floppy0.present = "TRUE"', 'ethernet0.present = "TRUE"', 'ethernet0.fileName = "eth.bin"',
             'serial0.fileName = "serial.log"', 'ideal.setting = "x"', 'nvram = "vm.nvram"', 'sched.scsi0:0.shares = "normal"',
             'extendedConfigFile = "vm.vmxf"']
    names = {}
    for d in devs:
        s = d["slot"]
        dev = f'{s["cls"]}{busmap[s["bus"]]}:{unitmap[s["unit"]]}'
        ctl = f'{s["cls"]}{busmap[s["bus"]]}'
        key = lambda k: _case(f"{dev}.{k}", rng, style["case"])  # noqa: E731
        lines.append(f'{_case(ctl + ".present", rng, style["case"])} = "TRUE"')
        if s["cls"] == "scsi":
            lines.append(f'{_case(ctl + ".virtualDev", rng, style["case"])} = "lsilogic"')
        lines.append(f'{key("present")} = "TRUE"')
        tag = f'{s["cls"]}-{s["bus"]}-{s["unit"]}'
        fname = (rng.choice(VMX_NAME_POOL).format(tag) if style.get("names") else f'disk {tag} dïsk.vmdk') if d["type"] in ("none", "disk", "scsi-hardDisk") \
            else f'image-{s["cls"]}{s["unit"]}.iso'
        if d["file"]:
            if d["dup"]:
                lines.append(f'{key("fileName")} = "stale-{fname}"')
                if style.get("aba"):
                    # the same key three times in casings A, B, A: the last assignment wins
                    k0 = f"{dev}.fileName"
                    lines[-1] = f'{k0} = "stale-{fname}"'
                    lines.append(f'{k0.upper()} = "staler-{fname}"')
            names[(s["cls"], s["bus"], s["unit"])] = fname
        if d["type"] != "none":
            lines.append(f'{key("deviceType")} = "{_case(d["type"], rng, style["typecase"])}"')
        if d["file"]:
            lines.append(f'{(dev + ".fileName") if (style.get("aba") and d["dup"]) else key("fileName")} = "{fname}"')
    if style["shuffle"]:
        # keep the relative order of duplicate assignments (last one wins), shuffle everything else
        idx = list(range(len(lines)))
        keyed = {}
        for i, l in enumerate(lines):
            keyed.setdefault(l.split("=")[0].strip().lower(), []).append(i)
        order = idx[:]
        rng.shuffle(order)
        out = [None] * len(lines)
        pos_by_key = {k: sorted(order.index(i) for i in v) for k, v in keyed.items()}
        for k, v in keyed.items():
            for src, dst in zip(v, pos_by_key[k]):
                out[dst] = lines[src]
        lines = out
    text = []
    for l in lines:
        if style["comments"] and rng.random() < 0.2:
            text.append(rng.choice(["# a comment", "", "   ", "#scsi0:0.fileName = \"commented.vmdk\""]))
        k, _, v = l.partition(" = ")
        sep = rng.choice([" = ", "=", "  =  ", " =", "= "]) if style["spacing"] else " = "
        if style["quotes"] == "none" and " " not in v.strip('"'):
            v = v.strip('"')
        text.append(("  " if style["spacing"] and rng.random() < 0.3 else "") + k + sep + v)
    nl = "\r\n" if style["crlf"] else "\n"
    return nl.join(text) + nl, names


OVF_NS = {"ovf": "http://schemas.dmtf.org/ovf/envelope/1", "rasd": "http://schemas.dmtf.org/wbem/wscim/1/cim-schema/2/CIM_ResourceAllocationSettingData",
          "vssd": "http://schemas.dmtf.org/wbem/wscim/1/cim-schema/2/CIM_VirtualSystemSettingData"}


def render_ovf(body, rng, style):
    # identifier alphabets made of the letters of the stripped prefix ("ovf:") to separate prefix removal from char stripping
    ids = style.get("ids", "plain")
    fm = body["fmap"]
    fm = fm if isinstance(fm, dict) else {i + 1: v for i, v in enumerate(fm)}
    fid = {"plain": {1: "file1", 2: "file2"}, "alphabet": {1: "ovf", 2: "fvo:o"}, "words": {1: "file", 2: "1"}, "words2": {1: "elif", 2: "file-file"},
           "case": {1: "File_2", 2: "file_2"}, "punct": {1: "file#1", 2: "file?v=2;x"}}[ids]   # identifiers are case sensitive; '#', '?' and ';' are ordinary characters in them
    did = {"plain": {1: "vmdisk1", 2: "vmdisk2"}, "alphabet": {1: "vof", 2: "ffo"}, "words": {1: "disk1", 2: "1"}, "words2": {1: "system", 2: "kdisk-id"},
           "case": {1: "vmDisk1", 2: "vmdisk1"}, "punct": {1: "vmdisk#2", 2: "vmdisk"}}[ids]
    href = {1: "disk one.vmdk", 2: "second-disk ✓.vmdk"}
    po, pr = style.get("po", "ovf"), style.get("pr", "rasd")
    # attributes of other vocabularies that happen to have the same local names (xml:id, a vendor's fileRef / href / diskId): an
    # attribute is identified by namespace + local name
    fa = style.get("foreign_attrs")
    fa_file = (lambda k: f' xml:id="x{k}" vmw:href="decoy{k}.iso" vmw:id="{fid[3 - k]}"') if fa else (lambda k: "")
    fa_disk = (lambda k: f' vmw:fileRef="{fid[3 - fm[k]]}" vmw:diskId="{did[3 - k]}" xml:id="d{k}"') if fa else (lambda k: "")
    x = [f'<?xml version="1.0" encoding="UTF-8"?>',
         f'<{po}:Envelope xmlns:{po}="{OVF_NS["ovf"]}" xmlns:{pr}="{OVF_NS["rasd"]}" xmlns:vssd="{OVF_NS["vssd"]}" xmlns:vmw="http://www.vmware.com/schema/ovf">',
         f'<{po}:References>'] + [f'<{po}:File{fa_file(k) if fa == "before" else ""} {po}:href="{href[k]}" {po}:id="{fid[k]}" {po}:size="1024"{fa_file(k) if fa == "after" else ""}/>' for k in (1, 2)] + [f'</{po}:References>',
         ] + _disk_section(body, style, po, did, fid, fm) + [
         f'<{po}:VirtualSystem {po}:id="vm"><{po}:Info>vm</{po}:Info><{po}:VirtualHardwareSection><{po}:Info>hw</{po}:Info>',
         f'<{po}:Item><{pr}:ElementName>cpu</{pr}:ElementName><{pr}:InstanceID>1</{pr}:InstanceID><{pr}:ResourceType>3</{pr}:ResourceType></{po}:Item>']
    items = body["items"]
    items = items if isinstance(items, list) else [items[k] for k in sorted(items)]
    for n, it in enumerate(items):
        ref = (did if it["kind"] == "disk" else fid)[it["idx"]]
        hr = f'{"ovf:" if it["prefix"] else ""}/{it["kind"]}/{ref}'
        x.append(f'<{po}:Item><{pr}:AddressOnParent>{n}</{pr}:AddressOnParent><{pr}:ElementName>dev{n}</{pr}:ElementName>'
                 f'<{pr}:HostResource>{hr}</{pr}:HostResource><{pr}:InstanceID>{10 + n}</{pr}:InstanceID><{pr}:ResourceType>{it["rtype"]}</{pr}:ResourceType></{po}:Item>')
    x.append(f'<{po}:Item><{pr}:ElementName>net</{pr}:ElementName><{pr}:InstanceID>99</{pr}:InstanceID><{pr}:ResourceType>10</{pr}:ResourceType></{po}:Item>')
    x.append(f'</{po}:VirtualHardwareSection></{po}:VirtualSystem></{po}:Envelope>')
    return ("\n" if style.get("nl", True) else "").join(x), href


def _disk_section(body, style, po, did, fid, fm):
    items = body["items"] if isinstance(body["items"], list) else list(body["items"].values())
    direct = all(it["kind"] == "file" for it in items)    # every item names a file directly: the disk section is not consulted
    if direct and style.get("disksection") == "absent":
        return []
    fa = style.get("foreign_attrs")
    fa_disk = (lambda k: f' vmw:fileRef="{fid[3 - fm[k]]}" vmw:diskId="{did[3 - k]}" xml:id="d{k}"') if fa else (lambda k: "")
    disks = [] if (direct and style.get("disksection") == "empty") else [
        f'<{po}:Disk{fa_disk(k) if fa == "before" else ""} {po}:capacity="8" {po}:diskId="{did[k]}" {po}:fileRef="{fid[fm[k]]}"{fa_disk(k) if fa == "after" else ""}/>' for k in (1, 2)]
    return [f'<{po}:DiskSection><{po}:Info>disks</{po}:Info>'] + disks + [f'</{po}:DiskSection>']


def render_vbox(body, rng, style):
    ns = "http://www.virtualbox.org/"
    disks = body if isinstance(body, list) else [body[k] for k in sorted(body)]
    locs = {}
    out = [f'<?xml version="1.0"?>', f'<VirtualBox xmlns="{ns}" version="1.16-linux">', '<Machine uuid="{11111111-2222-3333-4444-555555555555}" name="vm"><MediaRegistry><HardDisks>']
    depth = 0
    for k, d in enumerate(disks, 1):
        loc = f"disk {k} ü.vdi" if d["format"].lower() == "vdi" else f"disk{k}.{d['format'].lower()}"
        locs[k] = loc
        typ = f' type="{d["type"]}"' if d["type"] != "absent" else ""
        attrs = f'uuid="{{0000000{k}-0000-0000-0000-000000000000}}" ' + (f'location="{loc}" ' if d["loc"] else "") + f'format="{d["format"]}"{typ}'
        if style.get("attr_order"):
            attrs = typ.strip() + f' format="{d["format"]}" ' + (f'location="{loc}" ' if d["loc"] else "") + f'uuid="{{0000000{k}-0000-0000-0000-000000000000}}"'
        if d["nested"] and depth < 3 and k > 1:
            # nest inside the previous disk: re-open it
            out.insert(len(out) - 1 if out[-1].startswith("</HardDisk>") else len(out), None)
            out = [o for o in out if o is not None]
            if out[-1] == "</HardDisk>":
                out.pop()
                out.append(f"<HardDisk {attrs}>")
                out.append("</HardDisk>")
                out.append("</HardDisk>")
                depth += 1
                continue
        out.append(f"<HardDisk {attrs}>")
        out.append("</HardDisk>")
    out.append('</HardDisks><DVDImages><Image uuid="{aaaaaaaa-0000-0000-0000-000000000000}" location="cd.iso"/></DVDImages>'
               '<FloppyImages><Image uuid="{bbbbbbbb-0000-0000-0000-000000000000}" location="floppy.img"/></FloppyImages></MediaRegistry></Machine></VirtualBox>')
    return "\n".join(out), locs


def render_pvs(body, rng, style):
    devs = body if isinstance(body, list) else [body[k] for k in sorted(body)]
    names = {}
    out = ['<?xml version="1.0" encoding="UTF-8"?>', '<ParallelsVirtualMachine schemaVersion="1.0" dyn_lists="VirtualAppliance 0">',
           "<Identification><VmName>vm</VmName><SystemName>must-not-be-listed.pvs</SystemName></Identification>", "<Hardware><Cpu><Number>2</Number></Cpu>"]
    for k, d in enumerate(devs, 1):
        nm = f"harddisk {k} ü.hdd" if d["kind"] == "Hdd" else f"media{k}.iso"
        names[k] = nm
        sn = f"<SystemName>{nm}</SystemName>" if d["sysname"] else ""
        # nested elements that carry their own SystemName (partition lists of Boot Camp / physical disks): not backing files
        parts = ""
        if rng.random() < 0.5:
            np_ = rng.randrange(1, 4)
            parts = "".join(f'<Partition id="{p}" dyn_lists=""><SystemName>/dev/disk{k}s{p + 1}</SystemName><Size>1024</Size></Partition>' for p in range(np_))
        body = (parts + sn) if rng.random() < 0.5 else (sn + parts)
        out.append(f'<{d["kind"]} id="{k}" dyn_lists="Partition {1 if parts else 0}"><Index>{k}</Index><Enabled>1</Enabled>{body}<UserFriendlyName>{nm}</UserFriendlyName></{d["kind"]}>')
    out.append("</Hardware></ParallelsVirtualMachine>")
    return "\n".join(out), names


# file names with characters that mean something elsewhere in the grammar (comment marker, assignment, escapes, separators)
VMX_NAME_POOL = ["disk {} dïsk.vmdk", "data #2 {}.vmdk", "#scratch {}.vmdk", "a=b {}.vmdk", "{} = x.vmdk", "semi;colon {}.vmdk", "per%20cent {}.vmdk",
                 "back\\slash\\{}.vmdk", "/vmfs/volumes/ds 1/{}/disk.vmdk", "C:\\vms\\{}\\disk.vmdk", "tab\t{}.vmdk", "it's {}.vmdk", "{}|pipe&amp.vmdk",
                 "{} .vmdk", "scsi0:0.fileName {}.vmdk", "{}.vmdk #not a comment",
                 # characters that str.splitlines() treats as line boundaries (a VMX line ends at "\n" only)
                 "Backup\x85{}.vmdk", "ls\u2028{}.vmdk", "ff\x0c{}.vmdk", "vt\x0b{} fs\x1c.vmdk"]
VMX_STYLES = [
    {"case": "asis", "typecase": "asis", "shuffle": False, "comments": False, "spacing": False, "quotes": "all", "crlf": False},
    {"case": "lower", "typecase": "upper", "shuffle": True, "comments": True, "spacing": True, "quotes": "all", "crlf": True},
    {"case": "upper", "typecase": "mixed", "shuffle": True, "comments": True, "spacing": True, "quotes": "none", "crlf": False},
    {"case": "mixed", "typecase": "asis", "shuffle": False, "comments": True, "spacing": False, "quotes": "all", "crlf": False},
    {"case": "asis", "typecase": "asis", "shuffle": True, "comments": True, "spacing": True, "quotes": "all", "crlf": False, "names": True},
    {"case": "lower", "typecase": "lower", "shuffle": False, "comments": False, "spacing": False, "quotes": "all", "crlf": True, "names": True},
    {"case": "asis", "typecase": "asis", "shuffle": True, "comments": False, "spacing": False, "quotes": "all", "crlf": False, "aba": True},
]
OVF_STYLES = [{"ids": "plain"}, {"ids": "alphabet", "po": "o", "pr": "r"}, {"ids": "alphabet", "po": "ovf", "pr": "rasd", "nl": False},
              {"ids": "words"}, {"ids": "words2", "po": "disk", "pr": "file"}, {"ids": "case"},
              # the same document spelled differently; a DiskSection that is empty / absent where every item names a file directly
              {"ids": "plain", "xml": "squote"}, {"ids": "words", "xml": "comments"}, {"ids": "plain", "xml": "default-ns", "disksection": "empty"},
              {"ids": "case", "xml": "tagspace", "disksection": "absent"}, {"ids": "plain", "foreign_attrs": "before"}, {"ids": "punct"}, {"ids": "punct", "xml": "squote"}, {"ids": "words", "foreign_attrs": "after", "xml": "squote"}]
VBOX_STYLES = [{}, {"attr_order": True}, {"xml": "squote"}, {"xml": "prefix", "attr_order": True}, {"xml": "comments"}, {"xml": "tagspace"}]
PVS_STYLES = [{}, {"xml": "squote"}, {"xml": "comments"}, {"xml": "tagspace"}]


def respell(text, mode, rng):
    """The same XML document spelled differently (same elements, attributes and text for an XML parser): attribute values in
    single quotes, the default namespace bound to a prefix (or a prefix replaced by the default namespace), comments and
    processing instructions between elements, blanks inside tags."""
    import re
    if mode == "squote":
        return re.sub(r'="([^"\']*)"', r"='\1'", text)
    if mode == "comments":
        return re.sub(r">(\s*)<(?=[A-Za-z/])", lambda m: ">" + m.group(1) + (rng.choice(["<!-- <HardDisk location='c.vdi' format='VDI' type='Normal'/> -->", "<?pi x?>", "<!---->", "", "", ""])) + "<", text)
    if mode == "tagspace":
        return re.sub(r"(?<![?\-\s/])(\s*)(/?)>", lambda m: rng.choice(["", " ", "\n", "\t "]) + m.group(2) + ">", re.sub(r'(?<=") (?=[A-Za-z:]+=)', lambda m: rng.choice([" ", "  ", "\n    "]), text))
    if mode == "prefix":      # <VirtualBox xmlns="ns"> ... -> <vb:VirtualBox xmlns:vb="ns"> ...
        m = re.search(r' xmlns="([^"]*)"', text)
        body = re.sub(r"<(/?)([A-Za-z_][\w.-]*)(?=[\s/>])", r"<\1vb:\2", text)
        return body.replace(m.group(0), f' xmlns:vb="{m.group(1)}"', 1)
    if mode == "default-ns":  # <ovf:Envelope xmlns:ovf="ns"> ... -> <Envelope xmlns="ns" xmlns:ovf="ns"> ... (attributes keep their prefix)
        m = re.search(r' xmlns:ovf="([^"]*)"', text)
        body = re.sub(r"<(/?)ovf:", r"<\1", text)
        return body.replace(m.group(0), f' xmlns="{m.group(1)}"' + m.group(0), 1)
    raise core.MachineryError(f"unknown respelling {mode}")


_LATER = []


def _handed_over(text, rng):
    """The handle a configuration is parsed from belongs to the caller: once the object exists the caller may close it or reuse its
    buffer for another document (done right after construction, before anything is asked of the object)."""
    fh = io.StringIO(text)
    _LATER.append((fh, rng.choice(["keep", "close", "reuse"])))
    return fh


def _caller_moves_on():
    while _LATER:
        fh, what = _LATER.pop()
        if what == "close":
            fh.close()
        elif what == "reuse":
            fh.seek(0)
            fh.truncate()
            fh.write("<?xml version='1.0'?><Other><Hdd><SystemName>other-vm.hdd</SystemName></Hdd></Other>")
            fh.seek(0)


def observe(kind, body, rng, style, history=None):
    """Render, parse with the real class, return (reported, expected-name resolver, text).

    history (a list, filled in): what the same object reports on later calls - a peek at the first element of a fresh
    disks() call (["peek", [x] or []]), then a second complete listing (["list", [...]])."""
    if kind == "vmx":
        from dissect.hypervisor.descriptor.vmx import VMX
        devs = body if isinstance(body, list) else list(body)
        text, names = render_vmx(devs, rng, style)
        obj = VMX.parse(text)
    elif kind == "ovf":
        from dissect.hypervisor.descriptor.ovf import OVF
        text, names = render_ovf(body, rng, style)
        if style.get("xml"):
            text = respell(text, style["xml"], rng)
        obj = OVF(_handed_over(text, rng))
    elif kind == "vbox":
        from dissect.hypervisor.descriptor.vbox import VBox
        text, names = render_vbox(body, rng, style)
        if style.get("xml"):
            text = respell(text, style["xml"], rng)
        obj = VBox(_handed_over(text, rng))
    else:
        from dissect.hypervisor.descriptor.pvs import PVS
        text, names = render_pvs(body, rng, style)
        if style.get("xml"):
            text = respell(text, style["xml"], rng)
        obj = PVS(_handed_over(text, rng))
    # another configuration with the same identifiers but other file names is parsed (and listed) in between: objects
    # must not share state
    decoy = None
    try:
        if kind == "ovf":
            decoy = OVF(io.StringIO(text.replace('href="', 'href="decoy-')))
        elif kind == "vbox":
            decoy = VBox(io.StringIO(text.replace('location="', 'location="decoy-')))
        elif kind == "pvs":
            decoy = PVS(io.StringIO(text.replace("<SystemName>", "<SystemName>decoy-")))
        if decoy is not None and rng.random() < 0.5:
            list(decoy.disks())
    except Exception:  # noqa: BLE001
        pass
    _caller_moves_on()
    first = list(obj.disks())
    if history is not None:
        it = iter(obj.disks())
        x = next(it, None)
        history.append(["peek", [] if x is None else [x]])
        history.append(["list", list(obj.disks())])
    return first, names, text


def expected_names(kind, expect, names):
    if kind == "vmx":
        return sorted(names[(s["cls"], s["bus"], s["unit"])] for s in expect)
    return [names[k] for k in expect]


def run(ctx):
    thorough = ctx.tier == "thorough"
    ctx.rule = ("every configuration enumerated by TLC from spec/VmConfig.tla (VMX: <= 2 devices over 4 classes x units x 6 device types x "
                "file yes/no x duplicate assignment; OVF: disk->file maps x <= 2-3 items x resource types x disk/file host resources x "
                "prefix; VBox: <= 2-3 nested HardDisk elements x formats x types; PVS: <= 3-4 devices) x rendering styles; non-trivial = "
                "configuration containing at least one non-disk device or noise element next to a disk; distinct by (config, style)")
    ctx.assumptions = ["renderers are independent of the package under test", "the OVF/VBox filters named in the property's mechanisms define 'hard disk'"]
    plan = [("vmx", "VmConfig_Vmx.cfg", VMX_STYLES, 3 if not thorough else 1), ("ovf", "VmConfig_Ovf3.cfg" if thorough else "VmConfig_Ovf.cfg", OVF_STYLES, 1),
            ("vbox", "VmConfig_Vbox3.cfg" if thorough else "VmConfig_Vbox.cfg", VBOX_STYLES, 1 if not thorough else 8),
            ("pvs", "VmConfig_Pvs3.cfg" if thorough else "VmConfig_Pvs.cfg", PVS_STYLES, 1)]
    for kind, cfg, styles, sel in plan:
        sts = diskprop.dump_states(ctx, "VmConfig", cfg)
        rng0 = random.Random(ctx.seed + 18)
        if sel > 1:
            sts = [s for s in sts if rng0.randrange(sel) == 0]

        def work(sub, chunk, idx, kind=kind, styles=styles):
            rng = random.Random(ctx.seed * 1800 + idx)
            for st in chunk:
                body, expect = st["cfg"]["body"], st["expect"]
                for style in (styles if kind != "vmx" else rng.sample(styles, 2)):
                    try:
                        hist = []
                        got, names, text = observe(kind, body, rng, style, hist)
                        want = expected_names(kind, expect, names)
                    except Exception as e:  # noqa: BLE001
                        sub.violation({"kind": kind, "fail": "raised", "exc": type(e).__name__}, {"cfg": st["cfg"], "style": style, "error": repr(e)[:300]})
                        continue
                    nt = len(want) > 0 and (kind != "vmx" or len(body) > len(want))
                    sub.case(key=(kind, repr(body), repr(style)), nontrivial=nt,
                             sample={"kind": kind, "cfg": st["cfg"], "style": style, "expected": want} if nt and idx == 1 else None)
                    if list(got) != want:
                        sub.violation({"kind": kind, "fail": "disk-list"}, {"cfg": st["cfg"], "style": style, "want": want, "got": list(got), "text": text[:1500]})
                    elif hist[0][1] != want[:1] or hist[1][1] != want:
                        # the list is a function of the configuration, not of earlier calls on the object
                        sub.violation({"kind": kind, "fail": "disk-list-history"}, {"cfg": st["cfg"], "style": style, "want": want, "history": hist})
                    if len(sub.violations) >= sub.max_violations:
                        return

        core.parallel(ctx, work, sts)
    vmx_dictionary_semantics(ctx)
    vmx_unlock_history(ctx, random.Random(ctx.seed + 181))
    random_configs(ctx, random.Random(ctx.seed + 1818), 400 if thorough else 80)


def random_configs(ctx, rng, n):
    """B: larger random configurations; the list reported by the real parser is mapped back to device slots / indices, recorded, and
    validated by TLC (VmConfig!TraceSpec)."""
    from harness import tracecheck
    runs = []
    classes = ["scsi", "sata", "ide", "nvme"]
    types = ["none", "disk", "scsi-hardDisk", "cdrom-image", "cdrom-raw", "atapi-cdrom"]
    for tid in range(1, n + 1):
        kind = ["vmx", "ovf", "vbox", "pvs"][tid % 4]
        try:
            if kind == "vmx":
                slots = rng.sample([(c, u) for c in classes for u in (0, 1)], rng.randrange(1, 8))
                body = [{"slot": {"cls": c, "bus": 0, "unit": u}, "type": rng.choice(types), "file": rng.random() < 0.8, "dup": rng.random() < 0.3} for c, u in slots]
                hist = []
                got, names, _ = observe("vmx", body, rng, rng.choice(VMX_STYLES), hist)
                inv = {v: k for k, v in names.items()}
                conv = lambda l: [{"cls": inv[g][0], "bus": inv[g][1], "unit": inv[g][2]} for g in l]  # noqa: E731
            elif kind == "ovf":
                body = {"fmap": [rng.choice([1, 2]), rng.choice([1, 2])],
                        "items": [{"rtype": rng.choice([17, 17, 15, 14, 6]), "kind": rng.choice(["disk", "file"]), "idx": rng.choice([1, 2]), "prefix": rng.random() < 0.5}
                                  for _ in range(rng.randrange(0, 7))]}
                hist = []
                got, href, _ = observe("ovf", body, rng, rng.choice(OVF_STYLES), hist)
                inv = {v: k for k, v in href.items()}
                conv = lambda l: [inv[g] for g in l]  # noqa: E731
            elif kind == "vbox":
                body = [{"format": rng.choice(["VDI", "vdi", "Vdi", "VMDK", "VHD"]), "type": rng.choice(["Normal", "Normal", "Immutable", "Writethrough", "absent"]),
                         "loc": rng.random() < 0.85, "nested": rng.random() < 0.4} for _ in range(rng.randrange(0, 8))]
                hist = []
                got, locs, _ = observe("vbox", body, rng, rng.choice(VBOX_STYLES), hist)
                inv = {v: k for k, v in locs.items()}
                conv = lambda l: [inv[g] for g in l]  # noqa: E731
            else:
                body = [{"kind": rng.choice(["Hdd", "Hdd", "CdRom", "Fdd"]), "sysname": rng.random() < 0.8} for _ in range(rng.randrange(0, 8))]
                hist = []
                got, names, _ = observe("pvs", body, rng, rng.choice(PVS_STYLES), hist)
                inv = {v: k for k, v in names.items()}
                conv = lambda l: [inv[g] for g in l]  # noqa: E731
            reported, peek, again = conv(got), conv(hist[0][1]), conv(hist[1][1])
        except Exception as e:  # noqa: BLE001
            ctx.violation({"kind": kind, "fail": "raised", "sub": "random-configs", "exc": type(e).__name__}, {"error": repr(e)[:300]})
            continue
        ctx.case(key=("random", kind, repr(body)), nontrivial=True)
        runs.append({"tid": tid, "kind": kind, "body": body, "reported": reported, "peek": peek, "again": again})
    if runs:
        verdicts, res = tracecheck.validate("VmConfig", "TraceVmConfig.cfg", runs)
        ctx.add_tlc("TraceVmConfig.cfg (random configurations)", res)
        for r in runs:
            ctx.traces_validated += 1
            if verdicts[r["tid"]][0] == "reject":
                ctx.violation({"kind": r["kind"], "fail": "disk-list", "sub": "random-configs"}, {"body": r["body"], "reported": r["reported"], "peek": r["peek"], "again": r["again"]})


def vmx_unlock_history(ctx, rng):
    """An encrypted VMX shows no devices before unlocking; afterwards the list is that of the decrypted configuration -
    whatever was asked of the object before (listing, failed unlock attempts)."""
    from dissect.hypervisor.descriptor.vmx import VMX
    from harness import enc_vmx as E
    for k in range(6):
        cfg = ('scsi0.present = "TRUE"\nscsi0:0.present = "TRUE"\nscsi0:0.fileName = "enc disk %d.vmdk"\nide1:0.deviceType = "cdrom-image"\n'
               'ide1:0.fileName = "cd.iso"\nsata0:1.fileName = "second-%d.vmdk"\n') % (k, k)
        key = bytes(rng.randrange(256) for _ in range(32))
        text = E.vmx_text({".encoding": "UTF-8", "displayName": "enc"}, E.keysafe([E.pair_text("pw", key, rounds=1)]),
                          E.blob(key, cfg.encode(), "HMAC-SHA-1", bytes(rng.randrange(256) for _ in range(16))))
        want = sorted([f"enc disk {k}.vmdk", f"second-{k}.vmdk"])
        v = VMX.parse(text)
        hist = []
        try:
            if k % 2 == 0:
                hist.append(["disks", list(v.disks())])
            if k % 3 == 0:
                try:
                    v.unlock_with_phrase("wrong")
                except Exception:  # noqa: BLE001
                    hist.append(["unlock-wrong", "refused"])
                hist.append(["disks", list(v.disks())])
            v.unlock_with_phrase("pw")
            got = list(v.disks())
            got[:] = sorted(got)
            again = sorted(v.disks())
            # another object parsed from the same text (before or after this one was unlocked) is a locked configuration of its own;
            # a caller editing one object's dictionary does not edit the other's
            other = VMX.parse(text)
            hist.append(["disks-of-a-fresh-object", list(other.disks())])
            v.attr["scsi0:5.filename"] = "added-by-the-caller.vmdk"
            third = VMX.parse(text)
            third.unlock_with_phrase("pw")
            if sorted(third.disks()) != want:
                hist.append(["disks", ["fresh object after a caller's edit of another:"] + sorted(third.disks())])
            del v.attr["scsi0:5.filename"]
        except Exception as e:  # noqa: BLE001
            ctx.violation({"kind": "vmx", "fail": "raised", "sub": "unlock-history"}, {"error": repr(e)[:200], "history": hist})
            continue
        ctx.case(key=("vmx-unlock-history", k), nontrivial=True)
        if any(h[0].startswith("disks") and h[1] for h in hist) or got != want or again != want:
            ctx.violation({"kind": "vmx", "fail": "disk-list-history", "sub": "unlock-history"}, {"history": hist, "got": got, "again": again, "want": want})


def vmx_dictionary_semantics(ctx):
    """Case-insensitive keys, comments / blank lines ignored, last assignment wins - on the parsed dictionary itself."""
    from dissect.hypervisor.descriptor.vmx import VMX
    text = '# c\n\nFoo.Bar = "1"\nfoo.bar = "2"\n  #x = "9"\nBAZ="q r"\n\nfoo.BAR = "3"\n'
    v = VMX.parse(text)
    ctx.case(key="vmx-dict", nontrivial=True)
    if v.attr.get("foo.bar") != "3" or v.attr.get("baz") != "q r" or any(k.startswith("#") for k in v.attr) or len(v.attr) != 2:
        ctx.violation({"kind": "vmx", "fail": "dictionary"}, {"attr": v.attr})


def replay(ctx, body):
    ctx.quiet = True
    d = body["detail"]
    if d.get("kind") == "tlc":
        r = tlc.run(d["module"], d["cfg"])
        return not r.violated
    print("re-running the quick tier")
    run(ctx)
    return not ctx.violations
