"""C13 - lazy access: I/O proportional to the request, correct at multi-terabyte scale.

Spec: spec/IoCost.tla - design model of a reader with a table cache (IoHeader, IoTable at most once while cached, IoData)
with the invariant CostBound, and the trace judge RunOK (running cost of the recorded reads of the backing file under
Meta + 4 x (Req + 2 x Align x Reads) + C0; cost on a densely allocated twin not above the sparse one).
A/B: multi-terabyte images on sparse virtual files that count every byte requested (QCOW2 64 TiB with tables beyond
2^40 and data up to 2^55, SE-sparse VMDK with grains beyond sector 2^32, hosted VMDK of 2^32+ sectors, VHDX 64 TiB with
MB offsets near the 44-bit limit, VHD near the 2 TiB sector limit, VDI 2 TiB, HDS 4 TiB, v1/v2); open + reads at extreme
offsets are compared with the location-coded expectation (A) and the I/O logs are validated by TLC (B)."""
from __future__ import annotations

import os
import random
import struct

from harness import core, disk, diskcheck, diskprop, enc_hds, enc_qcow2, enc_vdi, enc_vhd, enc_vhdx, enc_vmdk, patterns, tlc, tracecheck
from harness.vfile import VirtualFile

LEVEL = "model_checking"
ALIGN = 8192


def kb(n):
    return -(-n // 1024)


def DR(rng):
    """An independent generator for the extra allocations of the dense twin: it must not consume `rng`, so that both twins of
    a pair draw identical probes, placements and header fields afterwards."""
    return random.Random(repr(rng.getstate()[1][:8]))


class Giant:
    """A giant image: opener, list of (guest offset, expected-bytes function), metadata size, file(s)."""

    def __init__(self, fmt, files, opener, size, probes, meta_bytes, c0=8192, note=None):
        self.fmt, self.files, self.opener, self.size, self.probes, self.meta, self.c0, self.note = fmt, files, opener, size, probes, meta_bytes, c0, note or {}


# ------------------------------------------------------------------------------------------------ QCOW2
def giant_qcow2(rng, dense, cb=16, size=64 << 40):
    _d = DR(rng)
    from dissect.hypervisor.disk.qcow2 import QCow2
    cs = 1 << cb
    l2n = cs // 8
    nc = size // cs
    nl1 = -(-nc // l2n)
    # allocate a handful of clusters far apart (dense: many more in the same tables and other tables)
    hole_table = (nc // 3) // l2n   # the table covering the probed hole stays absent in the dense twin too
    picks = sorted({0, 1, l2n - 1, l2n, nc // 2 + 7, nc - 1} | ({c for c in (_d.randrange(nc) for _ in range(400)) if c // l2n != hole_table and c % l2n != 5} if dense else set()))
    l1_off = 3 * cs
    l1_bytes = nl1 * 8
    tab_base = (1 << 41) // cs + 11        # L2 tables beyond 2 TiB
    data_base = (1 << 54) // cs + 5        # data clusters near 2^54 bytes
    tables = sorted({c // l2n for c in picks})
    tpos = {t: tab_base + k * 3 for k, t in enumerate(tables)}
    dpos = {c: data_base + (len(picks) - k) * 7 for k, c in enumerate(picks)}     # reversed order: not contiguous, not monotone
    ext = []
    l1 = {}
    for t in tables:
        l1[t] = (tpos[t] * cs) | enc_qcow2.COPIED
    # L1 as a lazily generated extent (mostly zeros)
    def l1_gen(off, n, l1=l1):
        out = bytearray(n)
        first, last = off // 8, (off + n - 1) // 8
        for t, v in l1.items():
            if first <= t <= last:
                b = struct.pack(">Q", v)
                for k in range(8):
                    p = t * 8 + k - off
                    if 0 <= p < n:
                        out[p] = b[k]
        return bytes(out)
    ext.append((l1_off, l1_bytes, "fn", l1_gen))
    # two compressed clusters at the same index of two different L2 tables (0.5 / 16 / 512 GiB apart), read back to back
    slot = max(4096, cs // 8)
    comp = enc_qcow2.CompArea((1 << 40) + 3 * cs, slot, cs)
    ctwins = {5: 1, ((nc // 2 + 7) // l2n) * l2n + 5: 2}      # guest cluster -> compressed unit
    ext.append((comp.base, 4 * slot, "fn", comp.gen))
    for t in tables:
        ents = {c % l2n: (dpos[c] * cs) | enc_qcow2.COPIED for c in picks if c // l2n == t}
        ents.update({c % l2n: comp.descriptor(cid, cb) for c, cid in ctwins.items() if c // l2n == t})

        def tgen(off, n, ents=ents):
            out = bytearray(n)
            first, last = off // 8, (off + n - 1) // 8
            for i, v in ents.items():
                if first <= i <= last:
                    b = struct.pack(">Q", v)
                    for k in range(8):
                        p = i * 8 + k - off
                        if 0 <= p < n:
                            out[p] = b[k]
            return bytes(out)
        ext.append((tpos[t] * cs, cs, "fn", tgen))
    for c in picks:
        ext.append((dpos[c] * cs, cs, "pat", 0))
    hdr = enc_qcow2.header(version=3, cluster_bits=cb, size=size, l1_size=nl1, l1_offset=l1_off, refcount_offset=cs, header_length=104)
    ext.append((0, len(hdr), "bytes", hdr))
    vf = VirtualFile(max(e[0] + e[1] for e in ext), ext)
    probes = []
    for c in rng.sample([0, 1, l2n - 1, l2n, nc // 2 + 7, nc - 1], 4):
        o = c * cs + rng.choice([0, 512, cs - 4096])
        n = rng.choice([4096, 16384])
        n = min(n, (c + 1) * cs - o)
        probes.append((o, n, patterns.pat(0, dpos[c] * cs + (o - c * cs), n)))
    probes.append(((nc // 3) * cs + 12345, 8000, bytes(8000)))  # unallocated: zeros, no table at all
    ca, cb_ = sorted(ctwins)
    for c in (ca, cb_, ca):
        probes.append((c * cs, 4096, patterns.cpat(ctwins[c], 0, 4096)))
    meta = len(hdr) + l1_bytes + len(tables) * cs
    return Giant(f"qcow2-cb{cb}", [vf], lambda: QCow2(vf), size, probes, meta, c0=8192 + 3 * (slot + 1024), note={"cluster_bits": cb, "tables": len(tables), "l1_bytes": l1_bytes})


def _q2_sparse(cb, size, tables, fid, backing_name=b""):
    """A QCOW2 image given by its L2 tables: tables = {l1 index: {index in table: host cluster of a data cluster}} -> (VirtualFile, metadata bytes)."""
    cs = 1 << cb
    l2n = cs // 8
    nl1 = -(-(size // cs) // l2n)
    l1_off = 3 * cs
    tab_base = (1 << 41) // cs + 11 + fid * 4096
    tpos = {t: tab_base + 3 * k for k, t in enumerate(sorted(tables))}

    def sparse_table(ents):
        def gen(off, n, ents=ents):
            out = bytearray(n)
            first, last = off // 8, (off + n - 1) // 8
            for i, v in ents.items():
                if first <= i <= last:
                    b = struct.pack(">Q", v)
                    for k in range(8):
                        p = i * 8 + k - off
                        if 0 <= p < n:
                            out[p] = b[k]
            return bytes(out)
        return gen
    ext = [(l1_off, nl1 * 8, "fn", sparse_table({t: (tpos[t] * cs) | enc_qcow2.COPIED for t in tables}))]
    for t, ents in tables.items():
        ext.append((tpos[t] * cs, cs, "fn", sparse_table({i: (h * cs) | enc_qcow2.COPIED for i, h in ents.items()})))
        for h in ents.values():
            ext.append((h * cs, cs, "pat", fid))
    hdr = enc_qcow2.header(version=3, cluster_bits=cb, size=size, l1_size=nl1, l1_offset=l1_off, refcount_offset=cs, header_length=104,
                           backing_name=backing_name, backing_offset=1024)
    ext.append((0, len(hdr), "bytes", hdr))
    if backing_name:
        ext.append((1024, len(backing_name), "bytes", backing_name))
    return VirtualFile(max(e[0] + e[1] for e in ext), ext), len(hdr) + nl1 * 8 + len(tables) * cs


def giant_qcow2_backing(rng, dense):
    """A 40 TiB overlay over a 40 TiB backing image, a hundred L2 tables in use in each; requests visit them in turn (what they
    find is in the backing image).  Each image's tables are read once - what one image keeps must not push out what the other keeps."""
    from dissect.hypervisor.disk.qcow2 import QCow2
    _d = DR(rng)
    cb, size = 16, 40 << 40
    cs = 1 << cb
    l2n = cs // 8
    nt = size // cs // l2n
    hot = sorted(rng.sample(range(1, nt - 1), 100))
    data0 = (1 << 50) // cs
    over = {t: {7: data0 + 2 * k} for k, t in enumerate(hot)}
    base = {t: {100 + j: data0 + 7 * k + j for j in range(5)} for k, t in enumerate(hot)}
    if dense:
        for k, t in enumerate(x for x in (_d.randrange(1, nt - 1) for _ in range(60)) if x not in over):
            over[t] = {9: data0 + 4000 + k}
            base[t] = {11: data0 + 8000 + k}
    ovf, ometa = _q2_sparse(cb, size, over, 0, backing_name=b"base.qcow2")
    bvf, bmeta = _q2_sparse(cb, size, base, 1)
    probes = []
    for rnd in range(5):
        for t in hot:
            c = t * l2n + 100 + rnd
            off = rng.choice([0, 512, cs - 1024])
            probes.append((c * cs + off, 1024, patterns.pat(1, base[t][100 + rnd] * cs + off, 1024)))
    probes.append(((hot[0] * l2n + 7) * cs, 4096, patterns.pat(0, over[hot[0]][7] * cs, 4096)))

    def opener():
        bvf.seek(0)
        ovf.seek(0)
        return QCow2(ovf, backing_file=QCow2(bvf))
    return Giant("qcow2-overlay-and-backing", [ovf, bvf], opener, size, probes, ometa + bmeta, c0=64 << 10, note={"tables_in_use_per_layer": len(hot)})


# ------------------------------------------------------------------------------------------------ VMDK
def giant_vmdk_se(rng, dense):
    _d = DR(rng)
    from dissect.hypervisor.disk.vmdk import VMDK
    grain = 8
    gt_sectors = 64
    gtes = gt_sectors * 64
    cap = (20 << 40) // 512                     # 20 TiB
    ng = cap // grain
    ngd = -(-cap // (gtes * grain))
    run0 = gtes * 7 + gtes - rng.randrange(40, 200)          # a run of consecutive allocated grains crossing a table boundary
    runlen = rng.randrange(300, 600)
    picks = sorted({0, 5, gtes, ng // 2, ng - 1} | set(range(run0, run0 + runlen))
                   | ({g for g in (_d.randrange(ng) for _ in range(300)) if g // gtes != (ng // 3) // gtes} if dense else set()))
    pos_base = (1 << 33)                         # cluster index >= 2^33: grains beyond sector 2^36
    pos = {g: pos_base + (len(picks) - k) * 3 for k, g in enumerate(picks)}
    tabs = sorted({g // gtes for g in picks})
    gd_off, gd_sectors = 4, -(-(ngd * 8) // 512)
    gt_off = gd_off + gd_sectors
    grains_off = (1 << 30)                      # sectors
    ext = []
    tidx = {t: k for k, t in enumerate(tabs)}

    def gd_gen(off, n):
        out = bytearray(n)
        for t, k in tidx.items():
            b = struct.pack("<Q", 0x1000000000000000 | k)
            for j in range(8):
                p = t * 8 + j - off
                if 0 <= p < n:
                    out[p] = b[j]
        return bytes(out)
    ext.append((gd_off * 512, ngd * 8, "fn", gd_gen))
    for t, k in tidx.items():
        ents = {g % gtes: enc_vmdk.se_gte("D", pos[g]) for g in picks if g // gtes == t}
        tab = bytearray(gtes * 8)
        for i, v in ents.items():
            tab[i * 8:i * 8 + 8] = struct.pack("<Q", v)
        ext.append(((gt_off + k * gt_sectors) * 512, gtes * 8, "bytes", bytes(tab)))
    for g in picks:
        ext.append(((grains_off + pos[g] * grain) * 512, grain * 512, "pat", 0))
    fields = [enc_vmdk.SE_MAGIC, 0x200000001, cap, grain, gt_sectors, 0, 0, 0, 0, 0, 1, 1, 2, 1, 3, 1, gd_off, gd_sectors, gt_off, len(tabs) * gt_sectors,
              0, 0, 0, 0, grains_off, 1 << 40]
    ext.append((0, 512, "bytes", struct.pack("<26Q", *fields).ljust(512, b"\0")))
    vf = VirtualFile(max(e[0] + e[1] for e in ext), ext)
    probes = []
    for g in rng.sample([0, 5, gtes, ng // 2, ng - 1], 4):
        o = g * grain * 512 + rng.choice([0, 512])
        n = min(rng.choice([2048, 4096]), (g + 1) * grain * 512 - o)
        probes.append((o, n, patterns.pat(0, (grains_off + pos[g] * grain) * 512 + (o - g * grain * 512), n)))
    probes.append(((ng // 3) * grain * 512, 6000, bytes(6000)))
    # one long sequential read over the run (many grains, two tables): the cost must stay a small multiple of its length
    o = run0 * grain * 512 + 512
    n = (runlen - 2) * grain * 512
    exp = b"".join(patterns.pat(0, (grains_off + pos[g] * grain) * 512, grain * 512) for g in range(run0, run0 + runlen))
    probes.append((o, n, exp[512:512 + n]))
    meta = 512 + ngd * 8 + len(tabs) * gtes * 8
    return Giant("vmdk-sesparse", [vf], lambda: VMDK(vf), cap * 512, probes, meta, note={"capacity_sectors": cap, "tables": len(tabs)})


def giant_vmdk_hosted(rng, dense):
    _d = DR(rng)
    from dissect.hypervisor.disk.vmdk import VMDK
    grain, gtes = 128, 512
    cap = (1 << 32) + 12345                     # more than 2^32 sectors
    ng = -(-cap // grain)
    ngd = -(-cap // (gtes * grain))
    picks = sorted({0, 3, gtes, ng // 2, ng - 1} | ({_d.randrange(ng) for _ in range(300)} if dense else set()))
    gd_off = 8
    gd_sectors = -(-(ngd * 4) // 512)
    gt0 = gd_off + gd_sectors
    tabs = sorted({g // gtes for g in picks})
    tpos = {t: gt0 + k * 4 for k, t in enumerate(tabs)}
    data_base = ((1 << 32) - 4096 * grain) // grain * grain   # grains just below the 32-bit sector limit
    pos = {g: data_base + (len(picks) - k) * grain * 2 for k, g in enumerate(picks)}
    pos = {g: p for g, p in pos.items()}
    ext = []

    def gd_gen(off, n):
        out = bytearray(n)
        for t, s in tpos.items():
            b = struct.pack("<I", s)
            for j in range(4):
                p = t * 4 + j - off
                if 0 <= p < n:
                    out[p] = b[j]
        return bytes(out)
    ext.append((gd_off * 512, ngd * 4, "fn", gd_gen))
    for t, s in tpos.items():
        tab = bytearray(gtes * 4)
        for g in picks:
            if g // gtes == t:
                assert pos[g] < (1 << 32)
                tab[(g % gtes) * 4:(g % gtes) * 4 + 4] = struct.pack("<I", pos[g])
        ext.append((s * 512, gtes * 4, "bytes", bytes(tab)))
    for g in picks:
        ext.append((pos[g] * 512, grain * 512, "pat", 0))
    hdr = enc_vmdk.hosted_header(cap, grain, 0, 0, gtes, 0, gd_off, gd_off, 5)
    ext.append((0, 512, "bytes", hdr))
    vf = VirtualFile(max(e[0] + e[1] for e in ext), ext)
    probes = []
    for g in rng.sample([0, 3, gtes, ng // 2, ng - 1], 4):
        o = g * grain * 512 + (rng.choice([0, 512, 65536 - 4096]) if g != ng - 1 else 0)
        n = min(4096, cap * 512 - o)
        probes.append((o, n, patterns.pat(0, pos[g] * 512 + (o - g * grain * 512), n)))
    meta = 512 + ngd * 4 + len(tabs) * gtes * 4
    return Giant("vmdk-hosted", [vf], lambda: VMDK(vf), cap * 512, probes, meta, note={"capacity_sectors": cap, "gd_entries": ngd})


# ------------------------------------------------------------------------------------------------ VMDK through descriptors (real files)
class PathCounter:
    """Counts every read on files opened through pathlib.Path.open (how the library opens what a descriptor names)."""

    def __init__(self):
        self.io_log, self.bytes_requested, self.opens = [], 0, 0

    def reset_log(self):
        self.io_log, self.bytes_requested, self.opens = [], 0, 0

    def seek(self, o):
        pass

    def patched(self):
        import contextlib
        import pathlib
        counter = self
        orig = pathlib.Path.open

        class Counting:
            def __init__(self, fh):
                self._fh = fh

            def read(self, n=-1):
                d = self._fh.read(n)
                k = len(d) if n is None or n < 0 else n
                counter.io_log.append((0, k))
                counter.bytes_requested += k
                return d

            def readinto(self, b):
                k = self._fh.readinto(b)
                counter.io_log.append((0, len(b)))
                counter.bytes_requested += len(b)
                return k

            def readline(self, *a):
                d = self._fh.readline(*a)
                counter.io_log.append((0, len(d)))
                counter.bytes_requested += len(d)
                return d

            def __iter__(self):
                return iter(self.readline, b"")

            def __getattr__(self, a):
                return getattr(self._fh, a)

        def opener(self_, mode="r", *a, **kw):
            fh = orig(self_, mode, *a, **kw)
            if "b" in mode and "w" not in mode and "+" not in mode:
                counter.opens += 1
                return Counting(fh)
            return fh

        @contextlib.contextmanager
        def cm():
            pathlib.Path.open = opener
            try:
                yield
            finally:
                pathlib.Path.open = orig
        return cm()


def _hosted_extent(cap, grain, gtes, place, fid):
    """A hosted sparse extent of `cap` sectors with grains {grain index: sector position}; -> (VirtualFile, metadata bytes)."""
    ngd = -(-cap // (gtes * grain))
    gd_off = 8
    gd_sectors = -(-(ngd * 4) // 512)
    gt0 = gd_off + gd_sectors
    tabs = sorted({g // gtes for g in place})
    tpos = {t: gt0 + k * (gtes * 4 // 512) for k, t in enumerate(tabs)}

    def gd_gen(off, n):
        out = bytearray(n)
        for t, sct in tpos.items():
            b = struct.pack("<I", sct)
            for j in range(4):
                q = t * 4 + j - off
                if 0 <= q < n:
                    out[q] = b[j]
        return bytes(out)
    ext = [(gd_off * 512, ngd * 4, "fn", gd_gen)]
    for t, sct in tpos.items():
        tab = bytearray(gtes * 4)
        for g, p in place.items():
            if g // gtes == t:
                tab[(g % gtes) * 4:(g % gtes) * 4 + 4] = struct.pack("<I", p)
        ext.append((sct * 512, gtes * 4, "bytes", bytes(tab)))
    for g, p in place.items():
        ext.append((p * 512, grain * 512, "pat", fid))
    ext.append((0, 512, "bytes", enc_vmdk.hosted_header(cap, grain, 0, 0, gtes, 0, gd_off, gd_off, 5)))
    return VirtualFile(max(e[0] + e[1] for e in ext), ext, fid=fid), 512 + ngd * 4 + len(tabs) * gtes * 4


def giant_vmdk_descriptor(rng, dense):
    _d = DR(rng)
    """A delta disk and its parent, each a descriptor naming 8 hosted sparse extents of 2 TiB (real sparse files in a scratch
    directory; reads counted through pathlib.Path.open): opening maps every extent of both layers once."""
    import shutil
    import tempfile
    from pathlib import Path
    from dissect.hypervisor.disk.vmdk import VMDK
    grain, gtes, next_ = 128, 512, 8
    cap = 1 << 32                                  # sectors per extent (2 TiB)
    ng = cap // grain
    root = tempfile.mkdtemp(prefix="verif-c13d-")
    counter = PathCounter()
    meta = 0
    place = {}
    for layer, pcid, hint in (("parent", "ffffffff", None), ("delta", "0badcafe", "parent.vmdk")):
        lines = []
        for k in range(next_):
            fid = (0 if layer == "delta" else 20) + k
            want = {0, 3, gtes, ng // 2, ng - 1} if layer == "parent" else {3, ng // 2 + gtes}
            if dense:
                want |= {g for g in (_d.randrange(ng) for _ in range(40)) if g not in (ng // 3, 0, gtes, ng // 2, ng - 1, 3, ng // 2 + gtes)}
            base = 4096 + rng.randrange(0, 64) * grain
            pl = {g: base + 2 * j * grain + (1 << 20) for j, g in enumerate(sorted(want))}
            vf, m = _hosted_extent(cap, grain, gtes, pl, fid)
            fn = f"{layer}-s{k + 1:03d}.vmdk"
            vf.materialise(os.path.join(root, fn))
            meta += m
            place[(layer, k)] = pl
            lines.append(f'RW {cap} SPARSE "{fn}"')
        text = enc_vmdk.descriptor_text(lines, create_type="twoGbMaxExtentSparse", parent_cid=pcid, parent_hint=hint, cid="0badcafe" if layer == "parent" else "12345678")
        with open(os.path.join(root, layer + ".vmdk"), "w") as f:
            f.write(text)
        meta += len(text)

    def src(k, g, a, n):
        if g in place[("delta", k)]:
            return patterns.pat(k, place[("delta", k)][g] * 512 + a, n)
        if g in place[("parent", k)]:
            return patterns.pat(20 + k, place[("parent", k)][g] * 512 + a, n)
        return bytes(n)
    probes = []
    for k in rng.sample(range(next_), 4):
        for g in rng.sample([0, 3, gtes, ng // 2, ng // 2 + gtes, ng - 1, ng // 3], 2):
            a = rng.choice([0, 512, 65536 - 4096])
            probes.append(((k * cap + g * grain) * 512 + a, 4096, src(k, g, a, 4096)))

    def opener():
        with counter.patched():
            return VMDK(Path(root) / "delta.vmdk")
    g = Giant("vmdk-descriptor", [counter], opener, next_ * cap * 512, probes, meta, c0=256 << 10, note={"extents_per_layer": next_, "layers": 2, "capacity_sectors": cap})
    g.cleanup = lambda: shutil.rmtree(root, ignore_errors=True)
    return g


def giant_vmdk_flat(rng, dense):
    """A descriptor naming six raw extents (FLAT / VMFS) of 2 TiB each - real sparse files whose first 64 MiB were never written -
    and a hosted sparse one in between: opening looks at each file's first bytes, not at its content."""
    import shutil
    import tempfile
    from pathlib import Path
    from dissect.hypervisor.disk.vmdk import VMDK
    _d = DR(rng)
    cap = 1 << 32                                  # sectors per extent (2 TiB)
    root = tempfile.mkdtemp(prefix="verif-c13f-")
    counter = PathCounter()
    lines, written, meta = [], {}, 0
    types = [rng.choice(["FLAT", "VMFS"]) for _ in range(6)]
    lead = 64 << 20
    for k, t in enumerate(types):
        fn = f"raw-f{k + 1:03d}.vmdk"
        spots = {lead, lead + (1 << 30) + 512 * rng.randrange(0, 1000), (cap * 512) // 2 + 4096 * rng.randrange(0, 100), cap * 512 - 8192}
        written[k] = sorted(spots)
        if dense:
            spots |= {lead + 8192 * _d.randrange(1, 1 << 27) for _ in range(40)}
        with open(os.path.join(root, fn), "wb") as f:
            f.truncate(cap * 512)
            for o in sorted(spots):
                f.seek(o)
                f.write(patterns.pat(k, o, 8192))
        lines.append(f'RW {cap} {t} "{fn}"' + (" 0" if t == "FLAT" else ""))
    # a hosted sparse extent between the raw ones
    grain, gtes = 128, 512
    ng = cap // grain
    pl = {g: 4096 + 2 * j * grain + (1 << 20) for j, g in enumerate(sorted({0, ng // 2, ng - 1}))}
    vf, m = _hosted_extent(cap, grain, gtes, pl, 9)
    vf.materialise(os.path.join(root, "mid-s001.vmdk"))
    meta += m
    lines.insert(3, f'RW {cap} SPARSE "mid-s001.vmdk"')
    text = enc_vmdk.descriptor_text(lines, create_type="custom")
    with open(os.path.join(root, "disk.vmdk"), "w") as f:
        f.write(text)
    meta += len(text)
    order = [0, 1, 2, None, 3, 4, 5]     # extent index -> raw file number
    probes = []
    for e in rng.sample([0, 1, 2, 4, 5, 6], 4):
        k = order[e]
        for o in rng.sample(written[k], 2):
            probes.append((e * cap * 512 + o, 4096, patterns.pat(k, o, 4096)))
        probes.append((e * cap * 512 + 4096 * rng.randrange(0, 1000), 4096, bytes(4096)))     # never written: zeroes
    probes.append((3 * cap * 512 + (ng // 2) * grain * 512, 4096, patterns.pat(9, pl[ng // 2] * 512, 4096)))

    def opener():
        with counter.patched():
            return VMDK(Path(root) / "disk.vmdk")
    g = Giant("vmdk-raw-extents", [counter], opener, 7 * cap * 512, probes, meta, c0=256 << 10, note={"extents": lines})
    g.cleanup = lambda: shutil.rmtree(root, ignore_errors=True)
    return g


def giant_vmdk_raw_handle(rng, dense):
    """A 16 TiB raw (flat) extent handed over as a file object, its first 64 MiB never written: VMDK(fh) looks at the first bytes."""
    from dissect.hypervisor.disk.vmdk import VMDK
    _d = DR(rng)
    size = 16 << 40
    lead = 64 << 20
    spots = sorted({lead, lead + (3 << 30) + 512 * rng.randrange(0, 1000), size // 2 + 4096 * rng.randrange(0, 100), size - 8192})
    extra = {lead + 8192 * _d.randrange(1, 1 << 30) for _ in range(60)} if dense else set()
    vf = VirtualFile(size, [(o, 8192, "pat", 3) for o in sorted(set(spots) | extra)])
    probes = [(o, 4096, patterns.pat(3, o, 4096)) for o in rng.sample(spots, 3)] + [(4096 * rng.randrange(0, 1000), 4096, bytes(4096)), (lead - 4096, 8192, bytes(4096) + patterns.pat(3, lead, 4096))]
    return Giant("vmdk-raw-handle", [vf], lambda: VMDK(vf), size, probes, 0, c0=64 << 10, note={"first_written_byte": lead})


# ------------------------------------------------------------------------------------------------ VHDX / VHD / VDI / HDS
def giant_vhdx(rng, dense, sector=512):
    _d = DR(rng)
    from dissect.hypervisor.disk.vhdx import VHDX
    bs = 256 << 20
    nb = (64 << 40) // bs
    cr = (2 ** 23 * sector) // bs               # chunk ratio: a sector-bitmap entry is interleaved after every cr payload entries
    near = [0, cr - 1, cr, cr + 1, nb // 2, nb - 1]
    picks = sorted(set(near) | ({_d.randrange(nb) for _ in range(300)} if dense else set()))
    blocks = [(enc_vhdx.ST_NOT_PRESENT, None)] * nb
    top = (1 << 38) // (bs >> 20) - 2 * len(picks) - 8    # block slots around MB offset 2^38 (file offsets near 2^58 bytes)
    pos = {}
    for k, b in enumerate(picks):
        pos[b] = top + 2 * (len(picks) - k)
    _st = random.Random(7)    # (independent of rng: the number of draws differs between the twins)
    blocks = [(enc_vhdx.ST_FULL, pos[b]) if b in pos else (_st.choice([0, 2, 3]), None) for b in range(nb)]
    # regions far into the file too (the BAT is relocated towards the end when a disk is expanded): metadata beyond 4 GiB,
    # BAT beyond 32 GiB, payload after it
    # (the metadata region is 64 MiB long - its items take a few hundred bytes)
    vf, info = enc_vhdx.build(blocks, block_size=bs, sector_size=sector, disk_size=nb * bs, meta_mb=(5 << 10) + 3, bat_mb=(36 << 10) + 1, meta_len_mb=64)
    probes = []
    for b in rng.sample(near, 5):
        o = b * bs + rng.choice([0, sector, bs - 8192])
        probes.append((o, 4096, patterns.pat(0, info["data_base"] + pos[b] * bs + (o - b * bs), 4096)))
    assert info["data_base"] + (max(pos.values()) + 1) * bs < (1 << 44) * (1 << 20)
    meta = 5 * 65536 + (1 << 20) + info["nent"] * 8
    return Giant(f"vhdx-s{sector}", [vf], lambda: VHDX(vf), nb * bs, probes, meta, c0=2 << 20, note={"blocks": nb, "bat_entries": info["nent"], "sector": sector})


def giant_vhd(rng, dense):
    _d = DR(rng)
    from dissect.hypervisor.disk.vhd import VHD
    bs = 2 << 20
    nb = (2040 << 30) // bs
    picks = sorted({0, 1, nb // 2, nb - 1} | ({_d.randrange(nb) for _ in range(300)} - {nb // 3} if dense else set()))   # nb // 3 stays a hole (probed)
    stride = bs + 512
    top = ((1 << 32) - 8) * 512 // stride - 2 * len(picks) - 4             # block sector offsets just below 2^32, above 2^31
    pos = {b: top + 2 * (len(picks) - k) for k, b in enumerate(picks)}
    table_offset = 1536
    data_start = (table_offset + 4 * nb + 511) // 512 * 512

    def bat_gen(off, n):
        out = bytearray(b"\xff" * n)
        for b, p in pos.items():
            v = struct.pack(">I", (data_start + p * stride) // 512)
            for j in range(4):
                q = b * 4 + j - off
                if 0 <= q < n:
                    out[q] = v[j]
        return bytes(out)
    size = nb * bs
    # footer fields that do not take part in the mapping: creator application, CHS geometry (saturated beyond 127 GiB), time stamp
    ft = enc_vhd.footer(size, 3, 512, creator_app=rng.choice([b"vpc ", b"vpc ", b"win ", b"qemu"]), geometry=rng.choice([0xFFFF10FF, 0xFFFF10FF, 0x03FF103F]),
                        timestamp=rng.getrandbits(32))
    ext = [(0, 512, "bytes", ft), (512, 1024, "bytes", enc_vhd.dyn_header(table_offset, nb, bs)), (table_offset, 4 * nb, "fn", bat_gen)]
    for b, p in pos.items():
        assert (data_start + p * stride) // 512 < (1 << 32)
        ext.append((data_start + p * stride, 512, "bytes", b"\xff" * 512))
        ext.append((data_start + p * stride + 512, bs, "pat", 0))
    end = data_start + (top + 2 * len(picks) + 3) * stride
    ext.append((end, 512, "bytes", ft))
    vf = VirtualFile(end + 512, ext)
    probes = []
    for b in rng.sample([0, 1, nb // 2, nb - 1], 3):
        o = b * bs + rng.choice([0, 512, bs - 4096])
        probes.append((o, 4096, patterns.pat(0, data_start + pos[b] * stride + 512 + (o - b * bs), 4096)))
    probes.append(((nb // 3) * bs + 777, 5000, bytes(5000)))
    meta = 512 + 1024 + 4 * nb
    return Giant("vhd", [vf], lambda: VHD(vf), size, probes, meta, note={"blocks": nb})


def giant_vdi(rng, dense):
    _d = DR(rng)
    from dissect.hypervisor.disk.vdi import VDI
    bs = 1 << 20
    nb = (2 << 40) // bs
    first = nb // 5      # the block stored first in the file follows a hole; one request crosses from the hole into it
    picks = sorted({0, 1, nb // 2, nb - 1} | ({_d.randrange(nb) for _ in range(300)} - {nb // 3, first - 1, first, first + 1} if dense else set()))   # nb // 3 stays a hole (probed)
    pos = {b: (1 << 21) - 5 - 2 * k for k, b in enumerate(picks)}          # physical positions near 2^21 blocks (2 TiB into the file)
    pos[first] = 0
    blocks_offset = 512
    data_offset = (blocks_offset + 4 * nb + 511) // 512 * 512

    def map_gen(off, n):
        out = bytearray(b"\xff" * n)
        for b, p in pos.items():
            v = struct.pack("<i", p)
            for j in range(4):
                q = b * 4 + j - off
                if 0 <= q < n:
                    out[q] = v[j]
        return bytes(out)
    hdr = enc_vdi.header(blocks_offset, data_offset, nb * bs, bs, nb, len(pos))
    ext = [(0, len(hdr), "bytes", hdr), (blocks_offset, 4 * nb, "fn", map_gen)] + [(data_offset + p * bs, bs, "pat", 0) for p in pos.values()]
    vf = VirtualFile(max(e[0] + e[1] for e in ext), ext)
    probes = []
    for b in rng.sample([0, 1, nb // 2, nb - 1], 3):
        o = b * bs + rng.choice([0, 512, bs - 4096])
        probes.append((o, 4096, patterns.pat(0, data_offset + pos[b] * bs + (o - b * bs), 4096)))
    probes.append(((nb // 3) * bs + 99, 5000, bytes(5000)))
    probes.append((first * bs - 8192, 32768, bytes(8192) + patterns.pat(0, data_offset, 24576)))    # (buffer-aligned: served by one backend request)
    probes.append((first * bs - 4096, 20480, bytes(4096) + patterns.pat(0, data_offset, 16384)))
    meta = len(hdr) + 4 * nb
    return Giant("vdi", [vf], lambda: VDI(vf), nb * bs, probes, meta, note={"blocks": nb})


def giant_hds(rng, dense, ver=2):
    _d = DR(rng)
    from dissect.hypervisor.disk.hdd import HDS
    cs = 1 << 20
    spc = cs // 512
    n = (((4 << 40) + (rng.randrange(1, 1 << 20) << 20)) // cs) if ver == 2 else ((1 << 40) // cs)   # v1: 32-bit sector count
    picks = sorted({0, 1, n // 2, n - 1} | ({_d.randrange(n) for _ in range(300)} - {n // 3} if dense else set()))   # n // 3 stays a hole (probed)
    hdr_clusters = -(-(64 + 4 * n) // cs)
    if ver == 2:
        pos = {c: (1 << 23) - 3 - 2 * k for k, c in enumerate(picks)}     # cluster index ~2^23: 8 TiB into the file
        raw = dict(pos)
        off = {c: p * cs for c, p in pos.items()}
    else:
        pos = {c: (1 << 32) - spc * (3 + 2 * k) - 7 for k, c in enumerate(picks)}   # sector numbers just below 2^32, not cluster aligned
        raw = dict(pos)
        off = {c: p * 512 for c, p in pos.items()}

    def bat_gen(o, m):
        out = bytearray(m)
        for c, v in raw.items():
            b = struct.pack("<I", v)
            for j in range(4):
                q = c * 4 + j - o
                if 0 <= q < m:
                    out[q] = b[j]
        return bytes(out)
    size = n * cs
    # header fields that do not take part in the mapping: "disk in use" marker, flags, geometry
    h = enc_hds.header(ver, spc, n, size // 512, hdr_clusters * spc, in_use=rng.choice([0x746F6E59, 0x746F6E59, 0]), flags=rng.choice([0, 1, 2]),
                       heads=rng.choice([16, 255]), cyl=rng.choice([1024, 0xFFFF]))
    ext = [(0, 64, "bytes", h), (64, 4 * n, "fn", bat_gen)] + [(o, cs, "pat", 0) for o in off.values()]
    vf = VirtualFile(max(e[0] + e[1] for e in ext), ext)
    probes = []
    for c in rng.sample([0, 1, n // 2, n - 1], 3):
        o = c * cs + rng.choice([0, 512, cs - 4096])
        probes.append((o, 4096, patterns.pat(0, off[c] + (o - c * cs), 4096)))
    probes.append(((n // 3) * cs + 5, 5000, bytes(5000)))
    meta = 64 + 4 * n
    return Giant(f"hds-v{ver}", [vf], lambda: HDS(vf), size, probes, meta, note={"clusters": n, "ver": ver})


def giant_vdi_parent(rng, dense):
    _d = DR(rng)
    """A differencing VDI over a parent VDI, both 2 TiB: what a read costs in the parent is bounded like any other read."""
    from dissect.hypervisor.disk.vdi import VDI
    bs = 1 << 20
    nb = (2 << 40) // bs
    blocks_offset = 512
    data_offset = (blocks_offset + 4 * nb + 511) // 512 * 512

    def layer(fid, picks, posbase, is_child):
        pos = {b: posbase - 2 * k for k, b in enumerate(sorted(picks))}

        def map_gen(off, n):
            out = bytearray(b"\xff" * n)
            for b, p in pos.items():
                v = struct.pack("<i", p)
                for j in range(4):
                    q = b * 4 + j - off
                    if 0 <= q < n:
                        out[q] = v[j]
            return bytes(out)
        hdr = enc_vdi.header(blocks_offset, data_offset, nb * bs, bs, nb, len(pos), image_type=4 if is_child else 1)
        ext = [(0, len(hdr), "bytes", hdr), (blocks_offset, 4 * nb, "fn", map_gen)] + [(data_offset + p * bs, bs, "pat", fid) for p in pos.values()]
        return VirtualFile(max(e[0] + e[1] for e in ext), ext, fid=fid), pos
    hole = nb // 3
    child_picks = {0, nb // 2} | ({x for x in (_d.randrange(nb) for _ in range(200)) if x not in (hole, 1, nb - 1, 7)} if dense else set())
    parent_picks = {1, 7, nb - 1, nb // 2} | ({x for x in (_d.randrange(nb) for _ in range(200)) if x != hole} if dense else set())
    cvf, cpos = layer(0, child_picks, (1 << 21) - 5, True)
    pvf, ppos = layer(1, parent_picks, (1 << 21) - 9, False)
    probes = []
    for b in (0, 1, 7, nb - 1, nb // 2):
        o = b * bs + rng.choice([0, 512, bs - 4096])
        src = (0, cpos[b]) if b in cpos else (1, ppos[b])
        probes.append((o, 4096, patterns.pat(src[0], data_offset + src[1] * bs + (o - b * bs), 4096)))
    probes.append((hole * bs + 99, 5000, bytes(5000)))
    meta = 2 * (512 + 4 * nb)

    def opener():
        pvf.seek(0)
        cvf.seek(0)
        return VDI(cvf, parent=VDI(pvf))
    return Giant("vdi-with-parent", [cvf, pvf], opener, nb * bs, probes, meta, note={"blocks": nb, "layers": 2})


def giant_vmdk_stream_1m(rng, dense):
    """... with grains of 1 MiB that compress to a few KiB: a read costs what is stored, not what a grain could hold."""
    return giant_vmdk_stream(rng, dense, grain=2048, cap_gib=256)


def giant_vmdk_stream(rng, dense, grain=128, cap_gib=16):
    _d = DR(rng)
    """A stream-optimised extent (compressed grains, grain directory behind the data, located through the footer): opening reads
    header, footer, descriptor and directory - not the grain area, however much of it there is."""
    from dissect.hypervisor.disk.vmdk import VMDK
    gtes = 512
    cap = (cap_gib << 30) // 512
    ng = cap // grain
    want = sorted({0, 3, gtes, ng // 2, ng - 1} | ({x for x in (_d.randrange(ng) for _ in range(1500)) if x != ng // 3} if dense else set()))
    ents = [("U", 0)] * ng
    for k, g in enumerate(want):
        ents[g] = ("D", k + 1)
    ngt = -(-ng // gtes)
    present = [any(ents[r][0] == "D" for r in range(t * gtes, min(ng, (t + 1) * gtes))) for t in range(ngt)]
    csalt = 4096 * rng.randrange(1, 1000)
    vf, info = enc_vmdk.build_hosted(ents, present, capacity=cap, grain=grain, gtes=gtes, footer=True, compressed=True, lba=True, slot_mult=1, max_pos=len(want) + 2,
                                     csalt=csalt)
    probes = []
    for g in (0, 3, gtes, ng // 2, ng - 1):
        o = g * grain * 512 + rng.choice([0, 512, 65536 - 4096])
        probes.append((o, 4096, patterns.cpat(csalt + ents[g][1], o - g * grain * 512, 4096)))
    probes.append(((ng // 3) * grain * 512 + 77, 6000, bytes(6000)))
    meta = 512 + 1024 + 2048 + ngt * 4 + sum(present) * gtes * 4
    return Giant("vmdk-stream" if grain == 128 else f"vmdk-stream-grain{grain}", [vf], lambda: VMDK(vf), cap * 512, probes, meta, c0=64 << 10,
                 note={"grains": len(want), "capacity_sectors": cap, "grain_sectors": grain})


def giant_vhdx_diff(rng, dense):
    _d = DR(rng)
    """A differencing VHDX (12 TiB) over a parent, on real sparse files: partially present blocks in chunks far beyond the first
    one, sector bitmaps and payload several TiB into the file."""
    import shutil
    import tempfile
    from pathlib import Path
    from dissect.hypervisor.disk.vhdx import VHDX
    bs, sector = 32 << 20, 512
    spb = bs // sector
    nb = (12 << 40) // bs
    cr = (2 ** 23 * sector) // bs
    root = tempfile.mkdtemp(prefix="verif-c13x-")
    pick = sorted({0, cr + 1, 5 * cr - 1, nb // 2, nb - 1} | ({x for x in (_d.randrange(nb) for _ in range(60)) if x != nb // 3} if dense else set()))
    top = (6 << 20) // (bs >> 20)                 # block slots ~6 TiB into the file
    ppos = {b: top + 2 * k for k, b in enumerate(pick)}
    cpos = {b: top + 2 * k + 1 for k, b in enumerate(pick)}
    pblocks = [(enc_vhdx.ST_FULL, ppos[b]) if b in ppos else (enc_vhdx.ST_NOT_PRESENT, None) for b in range(nb)]
    def thin(vf, info, positions, fid):
        # only the parts of the payload blocks that are read exist in the real file (the encoder's single payload extent would
        # cover terabytes)
        vf._ext = [e for e in vf._ext if not (e[2] == "pat" and e[1] > (1 << 28))]
        for p in positions:
            base = info["data_base"] + p * bs
            vf._ext += [(base, 128 << 10, "pat", fid), (base + bs // 2, 8 << 10, "pat", fid), (base + bs - (128 << 10), 128 << 10, "pat", fid)]
        vf._ext.sort(key=lambda e: e[0])
        vf._starts = [e[0] for e in vf._ext]
        assert sum(e[1] for e in vf._ext) < (1 << 30), "giant would be materialised"
    pvf, pinfo = enc_vhdx.build(pblocks, block_size=bs, sector_size=sector, disk_size=nb * bs, file_id=1)
    thin(pvf, pinfo, ppos.values(), 1)
    pvf.materialise(os.path.join(root, "base.vhdx"))
    # child: the picked blocks are partially present (even sectors of the first 64 and the last 64 sectors of the block)
    present = [x for x in range(64) if x % 2 == 0] + [spb - 64 + x for x in range(64) if x % 3 == 0]
    chunks = sorted({b // cr for b in pick})
    bitmaps = {}
    for c in chunks:
        bits = bytearray(cr * spb // 8)
        for b in pick:
            if b // cr == c:
                for x in present:
                    g = (b % cr) * spb + x
                    bits[g // 8] |= 1 << (g % 8)
        bitmaps[c] = bytes(bits)
    cblocks = [(enc_vhdx.ST_PARTIAL, cpos[b]) if b in cpos else (enc_vhdx.ST_NOT_PRESENT, None) for b in range(nb)]
    loc = {"parent_linkage": "{1}", "relative_path": ".\\base.vhdx", "absolute_win32_path": "C:\\nowhere\\base.vhdx"}
    # the layers lay out their regions differently: the child's BAT and metadata lie beyond 4 GiB, the parent's where they usually are
    cvf, cinfo = enc_vhdx.build(cblocks, block_size=bs, sector_size=sector, disk_size=nb * bs, has_parent=True, locator=loc, bitmaps=bitmaps, file_id=0,
                                meta_mb=(5 << 10) + 3, bat_mb=(6 << 10) + 1)
    thin(cvf, cinfo, cpos.values(), 0)
    cvf.materialise(os.path.join(root, "child.avhdx"))
    counter = PathCounter()
    probes = []
    for b in (0, cr + 1, 5 * cr - 1, nb // 2, nb - 1):
        for x in (rng.choice(present), rng.choice([1, 3, 65, spb // 2])):
            o = b * bs + x * sector
            src, base, pos = (0, cinfo["data_base"], cpos[b]) if x in present else (1, pinfo["data_base"], ppos[b])
            probes.append((o, sector, patterns.pat(src, base + pos * bs + x * sector, sector)))
    probes.append(((nb // 3) * bs + 4096, 4096, bytes(4096)))
    meta = 2 * (5 * 65536 + (1 << 20)) + (cinfo["nent"] + pinfo["nent"]) * 8 + len(probes) * 4096

    def opener():
        with counter.patched():
            return VHDX(Path(root) / "child.avhdx")
    g = Giant("vhdx-differencing", [counter], opener, nb * bs, probes, meta, c0=4 << 20, note={"blocks": nb, "chunk_ratio": cr, "partial_blocks": len(pick)})
    g.cleanup = lambda: shutil.rmtree(root, ignore_errors=True)
    return g


def giant_qcow2_2m(rng, dense):
    return giant_qcow2(rng, dense, cb=21)


def giant_qcow2_4k(rng, dense):
    """4 KiB clusters: the L1 table of a 64 TiB image is 256 MiB (read at open, as Meta); the point is that it opens at all"""
    return giant_qcow2(rng, dense, cb=12, size=8 << 40)


def giant_hds_v1(rng, dense):
    return giant_hds(rng, dense, ver=1)


def giant_vhdx_4k(rng, dense):
    return giant_vhdx(rng, dense, sector=4096)


BUILDERS = [giant_qcow2, giant_qcow2_2m, giant_qcow2_4k, giant_qcow2_backing, giant_vmdk_se, giant_vmdk_hosted, giant_vmdk_descriptor, giant_vmdk_flat, giant_vmdk_raw_handle, giant_vmdk_stream, giant_vmdk_stream_1m, giant_vdi_parent, giant_vhdx_diff, giant_vhdx, giant_vhdx_4k, giant_vhd, giant_vdi, giant_hds, giant_hds_v1]


def measure(g):
    """-> (events in KiB, ok, error detail)"""
    for f in g.files:
        f.reset_log()
        f.seek(0)
    s = g.opener()
    bad = None
    if s.size != g.size:
        bad = {"fail": "size", "want": g.size, "got": int(s.size)}
    req = 0
    for o, n, exp in g.probes:
        s.seek(o)
        got = s.read(n)
        req += n
        if got != exp and bad is None:
            bad = {"fail": "content", "offset": o, "n": n, "diff": disk.first_diff(exp, got)}
    events = []
    for f in g.files:
        events += [kb(r[1]) for r in f.io_log]
    total = sum(f.bytes_requested for f in g.files)
    return events, total, req, bad


def run(ctx):
    thorough = ctx.tier == "thorough"
    rng = random.Random(ctx.seed + 13)
    ctx.rule = ("7 giant image kinds (QCOW2 64 TiB / SE-sparse 20 TiB / hosted VMDK > 2^32 sectors / VHDX 64 TiB / VHD 2 TiB / VDI 2 TiB / HDS 1-4 TiB) "
                "x placements at the formats' offset limits x sparse and dense twins x reads at first / boundary / middle / last units and in "
                "holes; content compared byte for byte, every read of the backing file logged and the log judged by IoCost!RunOK. "
                "Non-trivial = every probe at an offset beyond 2^32 bytes; distinct by (format, seed, probe).")
    ctx.assumptions = ["Meta = header structures + all mapping tables of the image (eager loading of metadata is allowed by the property)",
                       "Align = the default 8 KiB stream buffer"]
    diskprop.tlc_check(ctx, "IoCost", "IoCost.cfg", min_states=500, need_actions=("IoTable", "IoData"))
    core.use_repo()
    runs = []
    tid = 0
    for rep in range(3 if thorough else 1):
        for mk in BUILDERS:
            tid += 1
            seed = ctx.seed * 131 + tid
            gs = gd = None
            try:
                gs = mk(random.Random(seed), False)
                gd = mk(random.Random(seed), True)
                # a reader that starts to read a multi-terabyte file through is stopped by the watchdog
                ev_s, tot_s, req, bad_s = diskcheck.with_watchdog(lambda: measure(gs), 180)
                ev_d, tot_d, _, bad_d = diskcheck.with_watchdog(lambda: measure(gd), 180)
                for g_ in (gs, gd):
                    getattr(g_, "cleanup", lambda: None)()
            except diskcheck.Hang:
                for g_ in (gs, gd):
                    if g_ is not None:
                        getattr(g_, "cleanup", lambda: None)()
                ctx.violation({"format": mk.__name__, "fail": "io-cost", "why": "watchdog"}, {"format": mk.__name__, "why": "open + a handful of 4 KiB reads did not finish within 180 s"})
                continue
            except Exception as e:  # noqa: BLE001
                for g_ in (gs, gd):
                    if g_ is not None:
                        getattr(g_, "cleanup", lambda: None)()
                import traceback
                ctx.violation({"format": mk.__name__, "fail": "raised", "exc": type(e).__name__}, {"error": repr(e)[:300], "tb": traceback.format_exc()[-1500:]})
                continue
            for o, n, _ in gs.probes:
                ctx.case(key=(gs.fmt, seed, o, n), nontrivial=o > (1 << 32))
            for bad, g in ((bad_s, gs), (bad_d, gd)):
                if bad:
                    ctx.violation({"format": g.fmt, "fail": bad["fail"], "sub": "content"}, {"format": g.fmt, "note": g.note, **bad})
            runs.append({"tid": tid, "fmt": gs.fmt, "meta_kb": kb(gs.meta), "req_kb": kb(req), "align_kb": kb(ALIGN), "reads": len(gs.probes), "c0_kb": kb(gs.c0),
                         "events": ev_s, "sparse_kb": kb(tot_s), "dense_kb": kb(tot_d), "dense_meta_kb": kb(gd.meta)})
            if len(ctx.samples) < 5:
                ctx.samples.append({"format": gs.fmt, "virtual_size": gs.size, "note": gs.note, "bytes_requested_open_plus_reads": tot_s, "dense_twin": tot_d,
                                    "metadata_bytes": gs.meta, "probes": [[o, n] for o, n, _ in gs.probes]})
    if runs:
        verdicts, res = tracecheck.validate("IoCost", "TraceIoCost.cfg", runs)
        ctx.add_tlc("TraceIoCost.cfg (I/O logs)", res)
        for r in runs:
            ctx.traces_validated += 1
            v = verdicts[r["tid"]]
            if v[0] == "reject":
                ctx.violation({"format": r["fmt"], "fail": "io-cost", "why": v[2]},
                              {"format": r["fmt"], "why": v[2], "total_kb": sum(r["events"]), "meta_kb": r["meta_kb"], "req_kb": r["req_kb"],
                               "sparse_kb": r["sparse_kb"], "dense_kb": r["dense_kb"], "largest_events_kb": sorted(r["events"])[-5:]})
        ctx.extra["io_kb_per_format"] = {r["fmt"]: {"total": sum(r["events"]), "meta": r["meta_kb"], "dense": r["dense_kb"]} for r in runs}


def replay(ctx, body):
    ctx.quiet = True
    run(ctx)
    return not ctx.violations
