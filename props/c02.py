"""C02 - VMDK: every byte range of a sparse/flat extent reads as guest content.

Spec: spec/Vmdk.tla (grain directory/tables, entry kinds per extent class; GetRuns/ExecRuns = transcription of
SparseDisk.get_runs / read_sectors).
A: every TLC-enumerated image encoded by harness/enc_vmdk.py as hosted sparse (header / footer grain directory),
   stream-optimised (compressed grains, with and without embedded LBA), COWD, SE-sparse, with scale embedding onto real
   table sizes (512 / 4096 entries), replayed on VMDK(fh) (stream + read_sectors) and SparseDisk directly; flat extents
   through RawDisk / VMDK(fh).
B: random real-geometry images + op sequences validated by TraceDisk."""
from __future__ import annotations

import os
import random

from harness import core, disk, diskcheck, diskprop, enc_vmdk, patterns, record, tlc, tracecheck
from harness.vfile import VirtualFile

LEVEL = "model_checking"

# variant: how class "sparse" is realised; K = real grains per abstract grain
SPARSE_Q = [
    {"variant": "hosted", "grain": 8, "gtes": 4, "K": 2, "full": True, "sel": 3},
    {"variant": "footer", "grain": 8, "gtes": 4, "K": 2, "full": True, "sel": 4},
    {"variant": "stream", "grain": 8, "gtes": 4, "K": 2, "full": True, "lba": True, "sel": 4},
    {"variant": "stream", "grain": 2, "gtes": 2, "K": 1, "full": True, "lba": True, "tight": True, "sel": 4},  # packed at sector granularity
    {"variant": "hosted", "grain": 128, "gtes": 512, "K": 256, "full": False, "max_len": 1 << 20, "sel": 8},
    {"variant": "footer", "grain": 128, "gtes": 512, "K": 16640, "full": False, "max_len": 1 << 20, "sel": 40},  # 130 GD entries, > 4 GiB
    {"variant": "stream", "grain": 128, "gtes": 512, "K": 256, "full": False, "lba": False, "max_len": 1 << 20, "sel": 16},
    # sector numbers with the top bit of the 32-bit entry set (grains 1.5 TiB into the file; with a footer the tables too)
    {"variant": "hosted", "grain": 8, "gtes": 4, "K": 2, "full": False, "data_base_min": 0xC0000000 + 24, "sel": 6},
    {"variant": "footer", "grain": 8, "gtes": 4, "K": 2, "full": False, "data_base_min": 0xFFFF0000, "sel": 6},
    # small tables, many of them: a grain directory of more than 2^16 / 2^17 entries
    {"variant": "hosted", "grain": 8, "gtes": 4, "K": 1 << 17, "full": False, "max_len": 1 << 20, "sel": 40},
    {"variant": "footer", "grain": 8, "gtes": 4, "K": 1 << 18, "full": False, "max_len": 1 << 20, "sel": 80},
]
COWD_Q = [
    {"variant": "cowd", "grain": 1, "gtes": 4096, "K": 2048, "full": False, "max_len": 1 << 20, "sel": 2},
    {"variant": "cowd", "grain": 8, "gtes": 4096, "K": 2048, "full": False, "max_len": 1 << 20, "data_base_min": 0x80000000, "sel": 4},
]
SE_Q = [
    {"variant": "se", "grain": 8, "gt_sectors": 1, "K": 32, "full": True, "sel": 3},
    {"variant": "se", "grain": 8, "gt_sectors": 1, "K": 32, "full": False, "pos_base": 0x1234, "sel": 4},  # cluster index uses the high 12-bit field
]
SPARSE_T = SPARSE_Q + [
    {"variant": "stream", "grain": 1, "gtes": 4, "K": 2, "full": True, "lba": True, "sel": 4},
    {"variant": "stream", "grain": 16, "gtes": 4, "K": 2, "full": True, "lba": True, "slot_mult": 2, "level": 0, "sel": 4},  # stored deflate: crosses the first sector
    {"variant": "hosted", "grain": 1, "gtes": 4, "K": 2, "full": True, "sel": 4},
]
COWD_T = COWD_Q + [{"variant": "cowd", "grain": 8, "gtes": 4096, "K": 2048, "full": False, "max_len": 1 << 20, "sel": 4}]
SE_T = SE_Q + [
    {"variant": "se", "grain": 8, "gt_sectors": 64, "K": 2048, "full": False, "max_len": 1 << 20, "sel": 4},
    {"variant": "se", "grain": 8, "gt_sectors": 1, "K": 32, "full": False, "pos_base": 1 << 32, "sel": 4},  # grains beyond sector 2^32
]


def _open_vmdk(vf):
    from dissect.hypervisor.disk.vmdk import VMDK

    vf.seek(0)
    return VMDK(vf)


def _open_sparse(vf, size, parent):
    from dissect.hypervisor.disk.vmdk import SparseDisk

    vf.seek(0)
    _OPENS[0] += 1
    if parent is not None and _OPENS[0] % 2:
        # the way VMDK.__init__ does it for a monolithic sparse delta: the extent is set up first, its parent attached afterwards
        sd = SparseDisk(vf)
        sd.parent = parent
        return disk.SectorAdapter(sd, size)
    return disk.SectorAdapter(SparseDisk(vf, parent=parent), size)


_OPENS = [0]


def _sectors(s, sector, count):
    return s.read_sectors(sector, count)


def build(img, prof, cap_bytes=None):
    v = prof["variant"]
    cls = {"hosted": "sparse", "footer": "sparse", "stream": "sparse", "cowd": "cowd", "se": "se"}[v]
    if img["class"] != cls:
        return None
    K, grain = prof["K"], prof["grain"]
    gbytes = grain * 512
    ag = K * gbytes
    cb = img["cb"]
    cell = ag // cb
    if cell % 512:
        return None
    gtes = prof["gt_sectors"] * 64 if v == "se" else prof["gtes"]
    ents, present = enc_vmdk.embed(img, K, gtes)
    cap_b = img["cap"] * cell if cap_bytes is None else cap_bytes
    capacity = cap_b // 512
    P = max([e["p"] for e in img["gt"].values() if e["t"] == "D"] + [0]) + 1
    tokb = None
    if v in ("hosted", "footer", "stream"):
        compressed = v == "stream"
        vf, info = enc_vmdk.build_hosted(ents, present, capacity=capacity, grain=grain, gtes=gtes, footer=(v != "hosted"),
                                         compressed=compressed, lba=prof.get("lba", True), slot_mult=prof.get("slot_mult", 1),
                                         level=prof.get("level", 6), max_pos=(P + 1) * K, tight=prof.get("tight", False),
                                         data_base_min=prof.get("data_base_min", 0))
        if compressed:
            def tokb(tok, a, n, cell=cell, gbytes=gbytes):  # noqa: E306
                if tok["k"] != "D":
                    return None
                x = tok["c"] * cell + a
                out = []
                while n > 0:
                    q, off = divmod(x, gbytes)
                    t = min(n, gbytes - off)
                    out.append(patterns.cpat(q, off, t))
                    x += t
                    n -= t
                return b"".join(out)
    elif v == "cowd":
        vf, info = enc_vmdk.build_cowd(ents, present, capacity=capacity, grain=grain, max_pos=(P + 1) * K, data_base_min=prof.get("data_base_min", 0))
    else:
        vf, info = enc_vmdk.build_sesparse(ents, present, capacity=capacity, grain=grain, gt_sectors=prof["gt_sectors"],
                                           max_pos=(P + 1) * K, pos_base=prof.get("pos_base", 0))
    if img["parent"]:
        opener = lambda: _open_sparse(vf, cap_b, disk.ParentStream(cap_b))  # noqa: E731
    elif prof.get("direct"):
        opener = lambda: _open_sparse(vf, cap_b, None)  # noqa: E731
    else:
        opener = lambda: _open_vmdk(vf)  # noqa: E731
    return disk.Built(open=opener, cell=cell, size=cap_b, bases={0: info["data_base"]}, files=[vf], has_parent=bool(img["parent"]),
                      note={k: v_ for k, v_ in prof.items() if k != "when"}, tok_bytes=tokb)


def check_flat(ctx, rng, n):
    """Flat extents: RawDisk with and without explicit size, VMDK(fh) on a foreign-magic file."""
    from dissect.hypervisor.disk.vmdk import VMDK, RawDisk

    for i in range(n):
        size = rng.choice([512, 4096, 8192 + 512, 1 << 20, (1 << 20) + 1536, 3 * 512])
        slack = rng.choice([0, 0, 512, 4096])   # (only where a size is given) the file may be longer than the extent
        vf = VirtualFile(size, [(0, size, "pat", 0)])
        vfs = VirtualFile(size + slack, [(0, size + slack, "pat", 0)])
        view = [{"k": "D", "f": 0, "c": c} for c in range(size // 512)]
        for mode in ("vmdk", "raw", "rawsize"):
            if mode == "vmdk":
                op = lambda: VMDK(vf)  # noqa: E731
            elif mode == "raw":
                op = lambda: disk.SectorAdapter(RawDisk(vf), size)  # noqa: E731
            else:
                op = lambda: disk.SectorAdapter(RawDisk(vfs, size), size)  # noqa: E731
            b = disk.Built(open=op, cell=512, size=size, bases={0: 0}, note={"variant": "flat", "mode": mode, "size": size})
            diskcheck.check_image(ctx, "vmdk", {"flat": size}, view, b, rng, full=size <= 8192 + 512, attrs={"variant": "flat", "mode": mode},
                                  cap=30, sectors_api=_sectors)


def check_declared_flat(ctx, rng):
    """A raw extent is what its descriptor line says it is (FLAT / VMFS): guest content that starts with another container's
    signature or a whole sparse header is served verbatim, with the declared size."""
    import importlib
    import shutil
    import tempfile
    from pathlib import Path
    from dissect.hypervisor.disk.vmdk import VMDK
    leads = importlib.import_module("props.c10").leads()
    d = tempfile.mkdtemp(prefix="verif-c02f-")
    try:
        for k, lead in enumerate(leads):
            for typ in ("FLAT", "VMFS"):
                nsec = rng.choice([8, 24, 64])
                content = (lead + patterns.pat(7, len(lead), nsec * 512))[:nsec * 512]
                name = f"raw{k}-flat.vmdk"
                with open(os.path.join(d, name), "wb") as f:
                    f.write(content + bytes(rng.choice([0, 512])))     # (the file may be longer than the declared range)
                with open(os.path.join(d, "d.vmdk"), "w") as f:
                    f.write(enc_vmdk.descriptor_text([f'RW {nsec} {typ} "{name}"' + (" 0" if typ == "FLAT" else "")], create_type="monolithicFlat" if typ == "FLAT" else "vmfs"))
                ctx.case(key=("declared-flat", k, typ), nontrivial=True)
                try:
                    v = VMDK(Path(d) / "d.vmdk")
                    got, size = v.read(nsec * 512 + 10), int(v.size)
                    sec = v.read_sectors(0, 1)
                except Exception as e:  # noqa: BLE001
                    ctx.violation({"format": "vmdk", "variant": "flat", "fail": "read-raised", "sub": "declared-flat", "exc": type(e).__name__},
                                  {"type": typ, "lead": lead[:16].hex(), "error": repr(e)[:300]})
                    continue
                if got != content or size != nsec * 512 or sec != content[:512]:
                    ctx.violation({"format": "vmdk", "variant": "flat", "fail": "read-mismatch", "sub": "declared-flat"},
                                  {"type": typ, "lead": lead[:16].hex(), "size": size, "want_size": nsec * 512, "diff": disk.first_diff(content, got)})
    finally:
        shutil.rmtree(d, ignore_errors=True)


def boundary_images(rng, targets, ncells=4):
    """Stream-optimised images (grain 8) whose grains 1 and 3.. have an on-disk record (header + deflate data) of every
    size in `targets`; yields (record_bytes, lba, vf, expected_bytes, noise_by_grain)."""
    import zlib

    grain = 8
    gbytes = grain * 512
    for lba in (True, False):
        hdr = 12 if lba else 4
        found = {}
        for noise in range(300, 620):
            ln = len(zlib.compress(patterns.npat(1, noise, 0, gbytes), 6)) + hdr
            if ln in targets and ln not in found:
                found[ln] = noise
        for total, nz in sorted(found.items()):
            ents = [("D", 1), ("D", 2), ("Z", 0), ("D", 3)] + [("D", 4 + i) if i % 2 == 0 else ("U", 0) for i in range(ncells - 4)]
            noise = {q: (0 if q == 2 else nz) for _, q in ents if q}
            vf, info = enc_vmdk.build_hosted(ents, [True] * (-(-ncells // 4)), capacity=ncells * grain, grain=grain, gtes=4, footer=True,
                                             compressed=True, lba=lba, tight=rng.random() < 0.5, noise=noise, max_pos=max(noise) + 2)
            exp = b"".join(patterns.npat(q, noise[q], 0, gbytes) if k == "D" else bytes(gbytes) for k, q in ents)
            yield total, lba, vf, exp, noise, ents


def check_large_records(ctx, rng):
    """Stream-optimised grains that hold incompressible data: the stored record is longer than the grain itself (64 KiB and
    128 KiB grains -> compressed sizes beyond 65535 bytes)."""
    import zlib

    from dissect.hypervisor.disk.vmdk import VMDK
    for grain in (128, 256):
        gbytes = grain * 512
        for lba in (True, False):
            ents = [("D", 1), ("Z", 0), ("D", 2), ("D", 3)]
            noise = {1: gbytes, 2: 0, 3: gbytes}
            vf, info = enc_vmdk.build_hosted(ents, [True], capacity=4 * grain, grain=grain, gtes=4, footer=True, compressed=True, lba=lba, noise=noise, max_pos=4,
                                             slot_mult=2)
            exp = patterns.npat(1, gbytes, 0, gbytes) + bytes(gbytes) + patterns.npat(2, 0, 0, gbytes) + patterns.npat(3, gbytes, 0, gbytes)
            clen = len(zlib.compress(patterns.npat(1, gbytes, 0, gbytes), 6))
            ctx.case(key=("large-record", grain, lba), nontrivial=True, sample={"variant": "stream", "grain_bytes": gbytes, "compressed_bytes": clen} if lba else None)
            try:
                vf.seek(0)
                got = VMDK(vf).read(4 * gbytes)
            except Exception as e:  # noqa: BLE001
                ctx.violation({"format": "vmdk", "variant": "stream", "fail": "read-raised", "exc": type(e).__name__, "sub": "large-record"},
                              {"grain": grain, "embedded_lba": lba, "compressed_bytes": clen, "error": repr(e)[:300]})
                continue
            if got != exp:
                ctx.violation({"format": "vmdk", "variant": "stream", "fail": "read-mismatch", "sub": "large-record"},
                              {"grain": grain, "embedded_lba": lba, "compressed_bytes": clen, "diff": disk.first_diff(exp, got)})


def check_compressed_boundary(ctx, rng, thorough):
    """Stream-optimised grains whose on-disk record (header + deflate data) has every size around the 512-byte sector
    boundary: the reader must fetch the continuation sectors exactly when the record crosses the first sector."""
    import zlib

    from dissect.hypervisor.disk.vmdk import VMDK

    grain = 8
    gbytes = grain * 512
    for lba in (True, False):
        hdr = 12 if lba else 4
        targets = list(range(500, 526)) if thorough else list(range(504, 520))
        # find, per target record size, a noise length that produces it
        found = {}
        for noise in range(300, 620):
            ln = len(zlib.compress(patterns.npat(1, noise, 0, gbytes), 6)) + hdr
            if ln in targets and ln not in found:
                found[ln] = noise
        for total, nz in sorted(found.items()):
            ents = [("D", 1), ("D", 2), ("Z", 0), ("D", 3)]
            noise = {1: nz, 2: 0, 3: nz}
            # grain 3 reuses the noise length of grain 1 (a different compressed size is fine)
            vf, info = enc_vmdk.build_hosted(ents, [True], capacity=4 * grain, grain=grain, gtes=4, footer=True, compressed=True,
                                             lba=lba, tight=rng.random() < 0.5, noise=noise, max_pos=5)
            exp = patterns.npat(1, nz, 0, gbytes) + patterns.npat(2, 0, 0, gbytes) + bytes(gbytes) + patterns.npat(3, nz, 0, gbytes)
            ctx.case(key=("cboundary", lba, total), nontrivial=True,
                     sample={"variant": "stream", "record_bytes": total, "embedded_lba": lba} if total == 512 else None)
            try:
                vf.seek(0)
                v = VMDK(vf)
                got = v.read(4 * gbytes)
                vf.seek(0)
                v2 = VMDK(vf)
                v2.seek(gbytes // 2)
                got2 = v2.read(gbytes)
            except Exception as e:  # noqa: BLE001
                ctx.violation({"format": "vmdk", "variant": "stream", "fail": "read-raised", "exc": type(e).__name__, "sub": "compressed-boundary"},
                              {"record_bytes": total, "embedded_lba": lba, "error": repr(e)[:300]})
                continue
            if got != exp or got2 != exp[gbytes // 2: gbytes // 2 + gbytes]:
                ctx.violation({"format": "vmdk", "variant": "stream", "fail": "read-mismatch", "sub": "compressed-boundary"},
                              {"record_bytes": total, "embedded_lba": lba, "diff": disk.first_diff(exp, got)})


def make_trace(tid, rng, nops=25, **opt):
    v = rng.choice(["hosted", "hosted", "footer", "stream", "cowd", "se"])
    if v == "cowd":
        grain, gtes = rng.choice([1, 8]), 4096
    elif v == "se":
        grain, gtes = 8, 64 * rng.choice([1, 1, 4])
    else:
        grain, gtes = rng.choice([1, 8, 128]), rng.choice([4, 16, 512, 7, 96, 100])   # the table size need not be a power of two
    gbytes = grain * 512
    ng = rng.randrange(3, 60)
    if v == "cowd":
        ng = rng.randrange(3, 40)
    if opt.get("many") == "mid":  # a few dozen grain tables
        v, grain, gtes, ng = rng.choice(["hosted", "footer", "stream", "se"]), 8, rng.choice([4, 16]), rng.randrange(150, 400)
        if v == "se":
            gtes = 64
        gbytes = grain * 512
    elif opt.get("many") in ("big", True):  # more grain tables than the 128-entry table cache holds
        v, grain, gtes, ng = rng.choice(["hosted", "footer"]), 8, 4, rng.randrange(600, 800)
        gbytes = grain * 512
    if not opt.get("many") and rng.random() < 0.3:
        # the last grain is the only one of its grain table (and, with grains of more than a sector, possibly a partial one)
        ng = gtes * rng.randrange(1, max(2, min(4, 60 // gtes + 1))) + 1
    runs = opt.get("many") == "runs"
    if runs:  # long runs of each kind of grain: 1 MiB grains (4 KiB grains and runs of 130-200 of them for SE-sparse: the trace specification's cost grows with the cells per request)
        v = rng.choice(["hosted", "footer", "cowd", "se"])
        grain, gtes, ng = (8, 64 * rng.choice([1, 4]), rng.randrange(500, 800)) if v == "se" else (2048, 4096 if v == "cowd" else rng.choice([512, 100]), rng.randrange(48, 72))
        gbytes = grain * 512
    npos = ng + 2
    fid, csalt = rng.randrange(0, 0x90), rng.randrange(1, 1 << 18) * 4096    # identity of this image (pattern file id, compressed-unit salt)
    pos = list(range(1, npos + 1))
    if rng.random() < 0.6:
        rng.shuffle(pos)
    kinds = ["U", "D"] if v == "cowd" else ["U", "F", "Z", "D"] if v == "se" else ["U", "Z", "D"]
    ents = []
    for _ in range(ng):
        k = rng.choice(kinds + ["D"])
        ents.append((k, pos.pop(0)) if k == "D" else (k, 0))
    if runs:
        plan = diskprop.run_plan(rng, ng, kinds + ["Dr"], *((130, 200) if v == "se" else (17, 30)))
        pp, _ = diskprop.run_positions(plan, first=1)
        ents = [("D", pp[i]) if k in ("D", "Dr") else (k, 0) for i, k in enumerate(plan)]
    ngt = -(-ng // gtes)
    present = [runs or rng.random() < 0.85 for _ in range(ngt)]
    for r in range(ng):
        if not present[r // gtes]:
            ents[r] = ("U", 0)
    tail = rng.choice([0, 0, 1, grain // 2, max(0, grain - 1), 3]) if grain > 1 else 0
    capacity = max(1, ng * grain - tail)
    cap_b = capacity * 512
    ngd = -(-capacity // (gtes * grain))
    if v in ("hosted", "footer", "stream"):
        vf, info = enc_vmdk.build_hosted(ents, present, capacity=capacity, grain=grain, gtes=gtes, footer=(v != "hosted"),
                                         compressed=(v == "stream"), lba=rng.random() < 0.5, max_pos=npos + 1, tight=rng.random() < 0.6,
                                         # header fields that do not influence the mapping: redundant directory offset, unclean-shutdown marker, version
                                         rgd_off=rng.choice([0, 0, 21, 1 << 40]), unclean=rng.choice([0, 1]), version=rng.choice([1, 1, 2, 3]),
                                         file_id=fid, csalt=csalt)
    elif v == "cowd":
        vf, info = enc_vmdk.build_cowd(ents, present, capacity=capacity, grain=grain, max_pos=npos + 1, file_id=fid)
    else:
        vf, info = enc_vmdk.build_sesparse(ents, present, capacity=capacity, grain=grain, gt_sectors=gtes // 64, max_pos=npos + 1,
                                           pos_base=rng.choice([0, 0, 0xFFF, 0x1000, 70000]), file_id=fid)
    b = disk.Built(open=lambda: _open_vmdk(vf), cell=gbytes, size=cap_b, bases={0: info["data_base"]}, fids={0: fid}, csalt=csalt if v == "stream" else 0)
    s = b.open()
    fresh = b.open()
    rec = record.Recorder(s, cap_b, probe=fresh.readoffset, align=opt.get("align"))
    if runs:
        diskprop.whole_disk_ops(rec, rng, cap_b, gbytes, sectors_fn=s.read_sectors)
        nops = 6
    record.random_ops(rec, rng, cap_b, nops, unit=gbytes, big=(cap_b + 4096) if runs else min(40 * gbytes + 4096, 2 << 20), sectors_fn=s.read_sectors, ssize=512)
    if opt.get("many") in ("mid", "big", True):
        diskprop.twin_index_ops(rec, rng, cap_b, gbytes, gtes * gbytes)
    comp = v == "stream"
    timg = {"class": "cowd" if v == "cowd" else "se" if v == "se" else "sparse", "gtes": gtes, "cb": 1, "cap": ng,
            "gd": [bool(x) for x in present], "t": [("C" if (comp and k == "D") else k) for k, _ in ents], "p": [q for _, q in ents], "parent": False}
    return {"tid": tid, "fmt": "vmdk", "variant": v, "img": timg, "sizeB": cap_b, "sector": 512, "geo": b.geo(), "events": rec.events}


def _attrs(img, prof):
    return {"variant": prof["variant"], "grain": prof["grain"], "K": prof["K"], "parent": img["parent"]}


def _mk_trace(tid, r, nops, thorough):
    if tid % 7 == 0:   # extents behind one VMDK object: several of them, via handles or a descriptor (requests crossing from one into the next)
        import importlib
        return importlib.import_module("props.c10").make_trace(tid, r, nops)
    return make_trace(tid, r, nops, many=diskprop.many_of(tid))


def trace_for(tid, r, thorough):
    return _mk_trace(tid, r, 40 if thorough else 25, thorough)


def run(ctx):
    thorough = ctx.tier == "thorough"
    rng = random.Random(ctx.seed + 202)
    ctx.rule = ("A: every image enumerated by TLC from spec/Vmdk.tla (extent class x grain-directory presence x grain-table entries "
                "over {unallocated, zero, fall-through, stored at position p} with permuted/adjacent placements x capacities that are "
                "not a grain multiple x parent yes/no) x realisation profiles (hosted header/footer GD, stream-optimised with/without "
                "embedded LBA, COWD 4096-entry tables, SE-sparse incl. high cluster-index bits; real table sizes by scale embedding; "
                "130-entry footer directory beyond 4 GiB) x derived byte/sector requests; plus flat extents. Non-trivial = request "
                "crosses a source change. B: random real-geometry extents and op sequences validated by TraceDisk.")
    ctx.assumptions = ["encoder harness/enc_vmdk.py follows the VMDK 5.0 spec / libvmdk notes / qemu vmdk.c (SE-sparse layout cross-checked "
                       "against the committed sesparse fixture)", "compressed grains use a compressible location-coded pattern"]
    diskprop.tlc_check(ctx, "Vmdk", "Vmdk_big.cfg" if thorough else "Vmdk_small.cfg", need_actions=("Next",))
    sts = diskprop.dump_states(ctx, "Vmdk", "Vmdk_img4.cfg" if thorough else "Vmdk_img.cfg")
    profs = (SPARSE_T + COWD_T + SE_T) if thorough else (SPARSE_Q + COWD_Q + SE_Q)
    diskprop.replay_states(ctx, "vmdk", sts, profs, build, attrs_of=_attrs, cap=56 if thorough else 32, sectors_api=_sectors)
    check_flat(ctx, rng, 12 if thorough else 4)
    check_declared_flat(ctx, rng)
    check_compressed_boundary(ctx, rng, thorough)
    check_large_records(ctx, rng)
    diskprop.traces(ctx, "vmdk", lambda tid, r: _mk_trace(tid, r, 40 if thorough else 25, thorough), 320 if thorough else 70,
                    "TraceDisk", "TraceDisk.cfg", lambda t: {"format": "vmdk", "variant": t.get("variant", "multi-extent")})


def replay(ctx, body):
    d = body["detail"]
    ctx.quiet = True
    if d.get("kind") == "tlc":
        r = tlc.run(d["module"], d["cfg"])
        print(r.output[-2000:])
        return not r.violated
    if d.get("kind") in ("trace", "trace-gen"):
        tid = d.get("tid") or d["trace"]["tid"]
        t = trace_for(tid, random.Random(body["seed"] * 9176 + tid), body.get("tier") == "thorough")
        v, _ = tracecheck.validate("TraceDisk", "TraceDisk.cfg", [t])
        print(v)
        return v[tid][0] == "accept"
    img = d["img"]
    if "flat" in img:
        check_flat(ctx, random.Random(0), 4)
        return not ctx.violations
    for k in ("gd", "gt"):
        img[k] = {int(a): b for a, b in img[k].items()}
    sts = [s for s in diskprop.dump_states(ctx, "Vmdk", "Vmdk_img4.cfg") if s["img"] == img] or \
          [s for s in diskprop.dump_states(ctx, "Vmdk", "Vmdk_img.cfg") if s["img"] == img]
    if not sts:
        print("image not in the enumerated set")
        return True
    b = build(img, d["profile"])
    o, n = d.get("read", [0, min(b.size, 1 << 20)])
    return diskcheck.check_image(ctx, "vmdk", img, sts[0]["view"], b, random.Random(0), full=False, attrs={},
                                 extra_requests=[(o, n)], sectors_api=_sectors, max_len=d["profile"].get("max_len", 8 << 20))
