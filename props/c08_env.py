"""Subprocess of C08: DISSECT_STREAM_BUFFER_SIZE is set in the environment before dissect.util.stream is imported."""
import os
import random
import sys

ROOT = os.path.dirname(os.path.dirname(os.path.abspath(__file__)))
sys.path.insert(0, ROOT)
from harness import core  # noqa: E402

core.use_repo()
from dissect.util import stream as dstream  # noqa: E402

want = int(sys.argv[1])
assert dstream.STREAM_BUFFER_SIZE == want, (dstream.STREAM_BUFFER_SIZE, want)
import importlib  # noqa: E402

from harness import disk, diskprop  # noqa: E402

ctx = core.Ctx("C08", "quick", int(os.environ.get("VERIF_SEED", "0")))
ctx.collect = []
rng = random.Random(ctx.seed + want)
FORMATS = {"vdi": ("c05", "Vdi", "Vdi_img.cfg", {"block_size": 4096}), "vhd": ("c04", "Vhd", "Vhd_img.cfg", {"block_size": 4096}),
           "hds": ("c06", "Hds", "Hds_img.cfg", {"cluster_size": 4096}), "vhdx": ("c03", "Vhdx", "Vhdx_img.cfg", {"block_size": 1 << 20, "sector": 512, "k": 1}),
           "vmdk": ("c02", "Vmdk", "Vmdk_img.cfg", {"variant": "hosted", "grain": 8, "gtes": 4, "K": 2}),
           "qcow2": ("c01", "Qcow2", "Qcow2_img.cfg", {"cb": 9, "K": 32})}
bad = 0
for fmt, (pm, module, cfg, prof) in FORMATS.items():
    mod = importlib.import_module(f"props.{pm}")
    sts = [s for s in diskprop.dump_states(ctx, module, cfg) if not s["img"].get("parent") and s["img"].get("back", -1) == -1
           and not s["img"].get("datafile")]
    for st in rng.sample(sts, 6):
        b = mod.build(st["img"], dict(prof))
        if b is None:
            continue
        view = disk.norm_view(st["view"])
        s = b.open()
        assert s.align == want, (fmt, s.align)
        for _ in range(25):
            o = rng.randrange(0, b.size + 2)
            n = rng.choice([0, 1, 511, 512, 4097, b.cell, 3 * b.cell + 7, b.size, -1])
            try:
                s.seek(o)
                got = s.read(n)
            except Exception as e:  # noqa: BLE001
                print(f"FAIL {fmt} align={want} read({o},{n}) raised {e!r} img={st['img']}")
                bad += 1
                break
            exp = disk.expected(view, o, n if n >= 0 else b.size, b)
            if got != exp or s.tell() != o + len(exp):
                print(f"FAIL {fmt} align={want} read({o},{n}) mismatch {disk.first_diff(exp, got)} img={st['img']}")
                bad += 1
                break
sys.exit(1 if bad else 0)
