"""C05 - VDI: every byte range reads as the guest-visible content.

Spec: spec/Vdi.tla (GuestView from VDICore.h semantics; ImplRead = transcription of VDI._read).
A: every TLC-enumerated image (all block maps incl. permuted placements, both markers, tail sizes) is encoded by
   harness/enc_vdi.py at several concretisations and every derived request is replayed on the real VDI class.
B: random images at real geometry, random operation sequences on the real object; traces validated by TraceVdi."""
from __future__ import annotations

import random

from harness import core, disk, diskcheck, enc_vdi, record, tlaparse, tlc, tracecheck

LEVEL = "model_checking"

PROFILES_QUICK = [
    {"block_size": 4096, "blocks_offset": 512, "full": True},
    {"block_size": 1 << 20, "blocks_offset": 512, "full": False},
    {"block_size": 8192, "blocks_offset": 0x200, "data_gap": 4096, "full": True, "sel": 3},
]
PROFILES_THOROUGH = PROFILES_QUICK + [
    {"block_size": 65536, "blocks_offset": 1024, "full": True},
    {"block_size": 4 << 20, "blocks_offset": 512, "full": False, "sel": 4},
    {"block_size": 2 << 20, "blocks_offset": 0x1000, "data_gap": 1 << 20, "full": False, "sel": 4},
]


def _open_vdi(vf, parent):
    from dissect.hypervisor.disk.vdi import VDI

    vf.seek(0)
    return VDI(vf, parent=parent() if parent else None)


def build(img, prof, P=None):
    """Concretise abstract image -> disk.Built."""
    bs = prof["block_size"]
    n = img["n"]
    bo = prof.get("blocks_offset", 512)
    doff = None
    if prof.get("data_gap"):
        doff = (bo + 4 * n + 511) // 512 * 512 + prof["data_gap"]
    vf, cell, data_offset, size_b = enc_vdi.build(img, block_size=bs, blocks_offset=bo, data_offset=doff, P=P)
    parent = None
    pbase = 0
    if img["parent"]:
        # a real VDI parent: identity map, every block allocated, content = pat(PARENT_F, file offset)
        pimg = {"n": n, "cb": img["cb"], "map": {i: i for i in range(n)}, "size": img["size"], "parent": False}
        pvf, _, pdo, _ = enc_vdi.build(pimg, block_size=bs, blocks_offset=512, file_id=disk.PARENT_F)
        pbase = pdo
        parent = lambda: _open_vdi(pvf, None)  # noqa: E731
    b = disk.Built(open=lambda: _open_vdi(vf, parent), cell=cell, size=size_b, bases={0: data_offset}, files=[vf],
                   has_parent=bool(img["parent"]), note=dict(prof))
    b.parent_base = pbase
    return b


def _states(ctx, cfg):
    r = tlc.run("Vdi", cfg, dump=True)
    if r.violated:
        ctx.spec_violation("Vdi", cfg, r)
    ctx.add_tlc(cfg, r, open(f"{tlc.SPEC_DIR}/cfg/{cfg}").readline().strip())
    sts = list(tlaparse.iter_dump(r.dump))
    tlc.cleanup(r)
    if not sts:
        raise core.MachineryError("empty dump")
    return sts


def replay_A(ctx, rng, thorough):
    cfg = "Vdi_img4.cfg" if thorough else "Vdi_img.cfg"
    sts = _states(ctx, cfg)
    profs = PROFILES_THOROUGH if thorough else PROFILES_QUICK
    P = 4 if thorough else 3

    def work(sub, chunk, idx):
        r = random.Random(ctx.seed * 1000003 + idx)
        for st in chunk:
            img, view = st["img"], st["view"]
            for prof in profs:
                sel = prof.get("sel", 1)
                if sel > 1 and r.randrange(sel):
                    continue
                b = build(img, prof, P=P)
                diskcheck.check_image(sub, "vdi", img, view, b, r, full=prof["full"],
                                      attrs={"block_size": prof["block_size"], "parent": img["parent"]},
                                      cap=48 if not thorough else 80)
                sub.extra["images_replayed"] = sub.extra.get("images_replayed", 0) + 1
                if len(sub.violations) >= sub.max_violations:
                    return

    core.parallel(ctx, work, sts)
    return ctx.extra.get("images_replayed", 0)


def make_trace(tid, rng, nops):
    """Random real-geometry image + random op sequence on the real object -> trace dict."""
    bs = rng.choice([1 << 20, 1 << 20, 65536, 4096, 2 << 20])
    n = rng.randrange(2, 40 if bs <= (1 << 20) else 12)
    npos = n + rng.randrange(0, 3)
    pos = list(range(npos))
    rng.shuffle(pos)
    mp = []
    for i in range(n):
        r = rng.random()
        mp.append(-1 if r < 0.2 else -2 if r < 0.35 else pos.pop())
    parent = rng.random() < 0.3
    tail = rng.choice([0, 0, 512, bs // 2, bs - 512])
    img = {"n": n, "cb": 1, "map": {i: mp[i] for i in range(n)}, "size": n, "parent": parent}
    prof = {"block_size": bs, "blocks_offset": rng.choice([512, 1024, 4096])}
    b = build(img, prof, P=npos)
    # shrink the reported disk size below n*bs (size not a multiple of the block size)
    size_b = n * bs - tail
    if tail:
        vf, cell, data_offset, _ = enc_vdi.build({**img, "size": n}, block_size=bs, blocks_offset=prof["blocks_offset"], P=npos)
        hdr = enc_vdi.header(prof["blocks_offset"], data_offset, size_b, bs, n, sum(1 for e in mp if e >= 0))
        vf._ext[0] = (0, len(hdr), "bytes", hdr)
        parent_open = None
        pbase = 0
        if parent:
            pimg = {"n": n, "cb": 1, "map": {i: i for i in range(n)}, "size": n, "parent": False}
            pvf, _, pbase, _ = enc_vdi.build(pimg, block_size=bs, blocks_offset=512, file_id=disk.PARENT_F)
            parent_open = lambda: _open_vdi(pvf, None)  # noqa: E731
        b = disk.Built(open=lambda: _open_vdi(vf, parent_open), cell=bs, size=size_b, bases={0: data_offset}, files=[vf],
                       has_parent=parent, note=prof)
        b.parent_base = pbase
    s = b.open()
    fresh = b.open()
    rec = record.Recorder(s, size_b, probe=fresh.readoffset)
    record.random_ops(rec, rng, size_b, nops, unit=bs, big=min(3 * bs + 4096, 6 << 20))
    return {"tid": tid, "fmt": "vdi", "img": {"n": n, "map": mp, "parent": parent}, "cellB": bs, "sizeB": size_b,
            "bases": [b.bases[0]], "pbase": b.parent_base, "events": rec.events}


def traces_B(ctx, rng, ntraces, nops):
    traces = []
    for tid in range(1, ntraces + 1):
        try:
            traces.append(make_trace(tid, rng, nops))
        except Exception as e:  # noqa: BLE001  (the real object raised mid-sequence)
            import traceback
            ctx.violation({"format": "vdi", "fail": "op-raised", "exc": type(e).__name__},
                          {"kind": "trace-gen", "tid": tid, "error": repr(e), "tb": traceback.format_exc()[-1500:]})
            if len(ctx.violations) >= ctx.max_violations:
                break
    for t in traces[:2]:
        if len(ctx.samples) < ctx.max_samples + 2:
            ctx.samples.append({"trace": {k: t[k] for k in ("fmt", "img", "cellB", "sizeB")}, "events": t["events"][:4]})
    if traces:
        tracecheck.judge(ctx, "TraceVdi", "TraceVdi.cfg", traces,
                         lambda t: {"format": "vdi", "block_size": t["cellB"], "parent": t["img"]["parent"]}, label="random real-geometry")
    ctx.evaluations += sum(len(t["events"]) for t in traces)
    return traces


def run(ctx):
    thorough = ctx.tier == "thorough"
    rng = random.Random(ctx.seed * 7919 + 5)
    ctx.rule = ("A: every image enumerated by TLC from spec/Vdi.tla (all block maps over {unalloc, zero, position p}, "
                "permuted placements, tail sizes, parent yes/no) x concretisation profiles x derived byte requests; "
                "non-trivial = request crosses a source change (kind change or placement discontinuity), distinct by "
                "(profile, image, offset, length). B: random real-geometry images and op sequences, validated by TraceVdi.")
    ctx.assumptions = ["encoder harness/enc_vdi.py follows VDICore.h", "TLC explores the stated constants exhaustively",
                       "dissect.util AlignedStream is part of the system under test"]
    # 1. design level: TLC checks the transcription of VDI._read against GuestView for every image and request
    cfg = "Vdi_big.cfg" if thorough else "Vdi_small.cfg"
    r = tlc.run("Vdi", cfg, coverage=True)
    ctx.add_tlc(cfg, r, open(f"{tlc.SPEC_DIR}/cfg/{cfg}").readline().strip())
    if r.violated:
        ctx.spec_violation("Vdi", cfg, r)
    elif r.distinct < 100:
        raise core.MachineryError("Vdi model unexpectedly small (vacuous?)")
    # 2. A
    replay_A(ctx, rng, thorough)
    # 3. B
    traces_B(ctx, rng, 400 if thorough else 60, 40 if thorough else 25)


def replay(ctx, body):
    d = body["detail"]
    ctx.quiet = True
    if d.get("kind") == "tlc":
        r = tlc.run(d["module"], d["cfg"])
        print(r.output[-2000:])
        return not r.violated
    if d.get("kind") in ("trace", "trace-gen"):
        print("trace replays re-run the generator with the recorded seed")
        rng = random.Random(body["seed"] * 7919 + 5)
        traces_B(ctx, rng, 60, 25)
        return not ctx.violations
    img = d["img"]
    img["map"] = {int(k): v for k, v in img["map"].items()}
    prof = d["profile"]
    b = build(img, prof, P=4)
    i2 = {"n": img["n"], "cb": img["cb"], "map": img["map"], "size": img["size"], "parent": img["parent"]}
    # recompute the view through TLC-independent means is not allowed: re-derive from the spec via a one-image dump
    sts = [s for s in _states(ctx, "Vdi_img4.cfg" if img["n"] == 4 else "Vdi_img.cfg") if s["img"] == i2]
    if not sts:
        print("image not in the enumerated set")
        return True
    rng = random.Random(0)
    o, n = d.get("read", [0, b.size])
    return diskcheck.check_image(ctx, "vdi", img, sts[0]["view"], b, rng, full=False, attrs={}, extra_requests=[(o, n)])
