"""C05 - VDI: every byte range reads as the guest-visible content.

Spec: spec/Vdi.tla (GuestView from VDICore.h semantics; ImplRead = transcription of VDI._read).
A: every TLC-enumerated image (all block maps incl. permuted placements, both markers, tail sizes) is encoded by
   harness/enc_vdi.py at several concretisations and every derived request is replayed on the real VDI class.
B: random images at real geometry, random operation sequences on the real object; traces validated by TraceDisk."""
from __future__ import annotations

import random

from harness import core, disk, diskprop, enc_vdi, record, tlc

LEVEL = "model_checking"

# hdr: header fields the reader must not let influence the mapping (image type 1 normal / 2 fixed / 3 undo / 4 diff,
# image flags, description)
PROFILES_QUICK = [
    {"block_size": 4096, "blocks_offset": 512, "full": True},
    {"block_size": 1 << 20, "blocks_offset": 512, "full": False, "hdr": {"image_type": 2, "flags": 0x1}},
    {"block_size": 8192, "blocks_offset": 0x200, "data_gap": 4096, "full": True, "sel": 3, "hdr": {"image_type": 4, "flags": 0x100, "desc": b"a description"}},
    {"block_size": 4096, "blocks_offset": 1024, "full": True, "sel": 3, "hdr": {"image_type": 2, "flags": 0x20000}},
    {"block_size": 4096, "blocks_offset": 512, "full": True, "sel": 4, "hdr": {"image_type": 3, "uuid_link": b"\x33" * 16, "uuid_parent": b"\x44" * 16}},
    {"block_size": 4096, "blocks_offset": 520, "data_gap": 8 * 13, "full": True, "sel": 3},     # block map and data area at offsets that are not sector multiples
    {"block_size": 1 << 20, "blocks_offset": 512, "data_gap": 1000, "full": False, "sel": 4},
]
PROFILES_THOROUGH = PROFILES_QUICK + [
    {"block_size": 65536, "blocks_offset": 1024, "full": True},
    {"block_size": 4 << 20, "blocks_offset": 512, "full": False, "sel": 4},
    {"block_size": 2 << 20, "blocks_offset": 0x1000, "data_gap": 1 << 20, "full": False, "sel": 4},
]


def _open_vdi(vf, parent):
    from dissect.hypervisor.disk.vdi import VDI

    vf.seek(0)
    _OPENS[0] += 1
    if parent and _OPENS[0] % 2:
        v = VDI(vf)          # the parent is a public attribute: attached after construction it counts just the same
        v.parent = parent()
        return v
    return VDI(vf, parent=parent() if parent else None)


_OPENS = [0]


def build(img, prof, P=None, size_bytes=None):
    """Concretise abstract image -> disk.Built."""
    bs = prof["block_size"]
    n = img["n"]
    bo = prof.get("blocks_offset", 512)
    doff = None
    if prof.get("data_gap"):
        doff = (bo + 4 * n + 511) // 512 * 512 + prof["data_gap"]    # (need not be a multiple of the sector size)
    if P is None:
        P = n + 1
    vf, cell, data_offset, size_b = enc_vdi.build(img, block_size=bs, blocks_offset=bo, data_offset=doff, P=P, hdr_kw=prof.get("hdr"), file_id=prof.get("fid", 0))
    if size_bytes is not None:
        size_b = size_bytes
        ents = [img["map"][i] for i in range(n)]
        hdr = enc_vdi.header(bo, data_offset, size_b, bs, n, sum(1 for e in ents if e >= 0), **(prof.get("hdr") or {}))
        vf._ext[0] = (0, len(hdr), "bytes", hdr)
    parent = None
    pbase = 0
    if img["parent"]:
        # a real VDI parent: identity map, every block allocated, content = pat(PARENT_F, file offset)
        pimg = {"n": n, "cb": img["cb"], "map": {i: i for i in range(n)}, "size": img["size"], "parent": False}
        pvf, _, pbase, _ = enc_vdi.build(pimg, block_size=bs, blocks_offset=512, file_id=disk.PARENT_F)
        parent = lambda: _open_vdi(pvf, None)  # noqa: E731
    return disk.Built(open=lambda: _open_vdi(vf, parent), cell=cell, size=size_b, bases={0: data_offset}, files=[vf], fids={0: prof.get("fid", 0)},
                      has_parent=bool(img["parent"]), note={k: v for k, v in prof.items() if k != "when"}, parent_base=pbase)


def make_trace(tid, rng, nops=30, **opt):
    """Random real-geometry image + random op sequence on the real object -> trace dict."""
    bs = rng.choice([1 << 20, 1 << 20, 65536, 4096, 2 << 20, 12288, 24576, 3 << 20])   # incl. sizes that are not a power of two
    n = rng.randrange(2, 40 if bs <= (1 << 20) else 12)
    if opt.get("many") == "mid":  # a block map of several hundred entries
        bs, n = rng.choice([4096, 65536]), rng.randrange(200, 700)
    elif opt.get("many"):  # a block map of several thousand entries
        bs, n = rng.choice([4096, 1024, 1536]), rng.choice([rng.randrange(1100, 2500), rng.randrange(4200, 9000), rng.randrange(16500, 20000)])
    npos = n + rng.randrange(0, 3)
    pos = list(range(npos))
    rng.shuffle(pos)
    mp = []
    for i in range(n):
        r = rng.random()
        mp.append(-1 if r < 0.2 else -2 if r < 0.35 else pos.pop())
    runs = opt.get("many") == "runs"
    if runs:  # long runs of each kind of block, blocks of 1-2 MiB
        bs, n = rng.choice([1 << 20, 1 << 20, 2 << 20]), rng.randrange(48, 72)
        plan = diskprop.run_plan(rng, n, ["U", "Z", "D", "Dr"])
        pp, npos = diskprop.run_positions(plan)
        mp = [-1 if k == "U" else -2 if k == "Z" else pp[i] for i, k in enumerate(plan)]
    parent = rng.random() < 0.3
    tail = rng.choice([0, 0, 512, bs // 2, bs - 512])
    img = {"n": n, "cb": 1, "map": {i: mp[i] for i in range(n)}, "size": n, "parent": parent}
    prof = {"block_size": bs, "blocks_offset": rng.choice([512, 1024, 4096, 520]), "fid": rng.randrange(0, 0x90), "data_gap": rng.choice([0, 0, 4096, 8 * 25, 1000]),
            "hdr": {"image_type": rng.choice([1, 1, 2, 3, 4]), "flags": rng.choice([0, 0, 1, 2, 0x100, 0x20000]),
                    "uuid_link": bytes(rng.randrange(256) for _ in range(16)), "uuid_parent": bytes(rng.randrange(256) for _ in range(16))}}
    size_b = n * bs - tail
    b = build(img, prof, P=npos, size_bytes=size_b)
    s = b.open()
    fresh = b.open()
    rec = record.Recorder(s, size_b, probe=fresh.readoffset, align=opt.get("align"))
    if runs:
        diskprop.whole_disk_ops(rec, rng, size_b, bs)
        nops = 6
    record.random_ops(rec, rng, size_b, nops, unit=bs, big=(size_b + 4096) if runs else min(3 * bs + 4096, 6 << 20))
    return {"tid": tid, "fmt": "vdi", "img": {"n": n, "map": mp, "parent": parent}, "sizeB": size_b, "geo": b.geo(), "events": rec.events,
            "image_type": prof["hdr"]["image_type"]}


def trace_for(tid, r, thorough):
    """The history behind trace `tid` (run and --replay build the same one)."""
    if tid % 5 == 0:   # a chain of VDI parents; the session also drives the ancestors' own stream objects
        import importlib
        return importlib.import_module("props.c07").trace_vdi_chain(tid, r, 40 if thorough else 25)
    return make_trace(tid, r, 40 if thorough else 25, many=diskprop.many_of(tid))


def _attrs(img, prof):
    return {"block_size": prof["block_size"], "parent": img["parent"]}


def run(ctx):
    thorough = ctx.tier == "thorough"
    ctx.rule = ("A: every image enumerated by TLC from spec/Vdi.tla (all block maps over {unalloc, zero, position p}, "
                "permuted placements, tail sizes, parent yes/no) x concretisation profiles x derived byte requests; "
                "non-trivial = request crosses a source change (kind change or placement discontinuity), distinct by "
                "(profile, image, offset, length). B: random real-geometry images and op sequences, validated by TraceDisk.")
    ctx.assumptions = ["encoder harness/enc_vdi.py follows VDICore.h", "TLC explores the stated constants exhaustively",
                       "dissect.util AlignedStream is part of the system under test"]
    # 1. design level: TLC checks the transcription of VDI._read against GuestView for every image and request
    diskprop.tlc_check(ctx, "Vdi", "Vdi_big.cfg" if thorough else "Vdi_small.cfg", need_actions=("Next",))
    # 2. A: replay every enumerated image
    sts = diskprop.dump_states(ctx, "Vdi", "Vdi_img4.cfg" if thorough else "Vdi_img.cfg")
    diskprop.replay_states(ctx, "vdi", sts, PROFILES_THOROUGH if thorough else PROFILES_QUICK, build,
                           attrs_of=_attrs, cap=80 if thorough else 48)
    # 3. B: traces from the real code validated by TLC
    diskprop.traces(ctx, "vdi", lambda tid, r: trace_for(tid, r, thorough), 400 if thorough else 80, "TraceDisk", "TraceDisk.cfg",
                    lambda t: {"format": "vdi", "block_size": t["geo"]["cellB"], "parent": t["img"]["parent"] if "img" in t else True, "chain": t["fmt"] == "chain"})


def replay(ctx, body):
    d = body["detail"]
    ctx.quiet = True
    if d.get("kind") == "tlc":
        r = tlc.run(d["module"], d["cfg"])
        print(r.output[-2000:])
        return not r.violated
    if d.get("kind") in ("trace", "trace-gen"):
        tid = d.get("tid") or d["trace"]["tid"]
        from harness import tracecheck
        t = trace_for(tid, random.Random(body["seed"] * 9176 + tid), body.get("tier") == "thorough")
        v, _ = tracecheck.validate("TraceDisk", "TraceDisk.cfg", [t])
        print(v)
        return v[tid][0] == "accept"
    img = d["img"]
    img["map"] = {int(k): v for k, v in img["map"].items()}
    cfg = "Vdi_img4.cfg" if img["n"] == 4 else "Vdi_img.cfg"
    sts = [s for s in diskprop.dump_states(ctx, "Vdi", cfg) if s["img"] == img]
    if not sts:
        print("image not in the enumerated set")
        return True
    from harness import diskcheck
    b = build(img, d["profile"])
    o, n = d.get("read", [0, b.size])
    return diskcheck.check_image(ctx, "vdi", img, sts[0]["view"], b, random.Random(0), full=False, attrs={}, extra_requests=[(o, n)])
