"""C07 - layer precedence in differencing, backing and snapshot chains; mandatory parents.

Spec: spec/Layers.tla (overlay semantics TopmostWins, MissingParentRejected, FirstCandidateUsed), Vhdx.tla differencing
images (partially-present blocks with per-sector bitmaps), VhdxPartial.tla (transcription of the bitmap fetch and
_iter_partial_runs).
A: every TLC-enumerated chain (depth <= 3, per-layer H/Z/A maps) is realised for each format that can express it -
   VDI parents, QCOW2 backing chains (standard and extended L2), VMDK descriptor + delta extents on disk, Parallels HDD
   snapshot chains on disk and HDS(fh, parent=), VHDX differencing chains on disk at several sector alignments - and every
   request is replayed through the top layer; parent-resolution configurations incl. "missing" and the opt-out.
B: random chains at real geometry (random sector bitmaps, depth <= 4) validated by TraceDisk (ChainSrc)."""
from __future__ import annotations

import os
import random
import shutil
import struct
import tempfile
import traceback
from pathlib import Path

from harness import core, disk, diskcheck, diskprop, enc_hds, enc_qcow2, enc_vdi, enc_vhdx, enc_vmdk, patterns, record, tlc, tracecheck
from harness.vfile import VirtualFile

LEVEL = "model_checking"


def _chain_of(st):
    ch = st["chain"]
    return [[layer[c] for c in range(len(layer))] for layer in ch]


def _perm(rng, n):
    p = list(range(n))
    rng.shuffle(p)
    return p


class ChainBuilt(disk.Built):
    pass


def _mk_built(opener, cell, ncells, host, fids, note, has_parent=False, sector=512):
    """host[i][cell] = file byte offset of layer i's data for that guest cell."""

    def tokb(tok, a, n):
        if tok["k"] != "D":
            return None
        return patterns.pat(fids[tok["f"]], host[tok["f"]][tok["c"]] + a, n)

    return disk.Built(open=opener, cell=cell, size=ncells * cell, bases={}, note=note, tok_bytes=tokb, sector=sector)


# ---------------------------------------------------------------- VDI parents (in memory)
def build_vdi(chain, rng, bs=4096):
    from dissect.hypervisor.disk.vdi import VDI

    n = len(chain[0])
    vfs, host = [], []
    for i, layer in enumerate(chain):
        pos = _perm(rng, n)
        mp = {c: (pos[c] if layer[c] == "H" else -2 if layer[c] == "Z" else -1) for c in range(n)}
        vf, cell, doff, _ = enc_vdi.build({"n": n, "cb": 1, "map": mp, "size": n, "parent": i + 1 < len(chain)}, block_size=bs, file_id=i, P=n)
        vfs.append(vf)
        host.append({c: doff + pos[c] * bs for c in range(n)})

    def opener():
        obj = None
        for vf in reversed(vfs):
            vf.seek(0)
            obj = VDI(vf, parent=obj)
        return obj

    return _mk_built(opener, bs, n, host, list(range(len(chain))), {"fmt": "vdi", "bs": bs})


# ---------------------------------------------------------------- QCOW2 backing chains (in memory)
def build_qcow2(chain, rng, ext, cb):
    from dissect.hypervisor.disk.qcow2 import QCow2

    n = len(chain[0])
    cs = 1 << cb
    if ext:
        if 32 % n:
            return None
        cell = cs // n
        nclusters = 1
    else:
        cell = cs
        nclusters = n
    vfs, host = [], []
    for i, layer in enumerate(chain):
        if ext:
            allA = all(x == "A" for x in layer)
            hasH = any(x == "H" for x in layer)
            sub = ["A" if x == "H" else "Z" if x == "Z" else "U" for x in layer]
            e = {"t": "N" if hasH else "U", "h": 1, "sub": sub}
            img = {"ext": True, "datafile": False, "l2n": 2, "s": n, "l1": {0: True}, "l2": {0: e, 1: {"t": "U", "h": 0, "sub": ["U"] * n}},
                   "back": (n if i + 1 < len(chain) else -1), "size": n}
            vf, _, info = enc_qcow2.build(img, cluster_bits=cb, K=1, file_id=i)
            host.append({c: info["data_base"] + 1 * cs + c * cell for c in range(n)})
        else:
            pos = [p + 1 for p in _perm(rng, n)]
            l2 = {c: ({"t": "N", "h": pos[c], "sub": []} if layer[c] == "H" else {"t": "ZP", "h": 0, "sub": []} if layer[c] == "Z"
                      else {"t": "U", "h": 0, "sub": []}) for c in range(n)}
            l2n = cs // 8
            img = {"ext": False, "datafile": False, "l2n": l2n, "s": 1, "l1": {0: True}, "l2": l2, "back": (n if i + 1 < len(chain) else -1), "size": n}
            vf, _, info = enc_qcow2.build(img, cluster_bits=cb, K=1, file_id=i)
            host.append({c: info["data_base"] + pos[c] * cs for c in range(n)})
        vfs.append(vf)

    def opener():
        obj = None
        for vf in reversed(vfs):
            vf.seek(0)
            obj = QCow2(vf, backing_file=obj)
        return obj

    return _mk_built(opener, cell, n, host, list(range(len(chain))), {"fmt": "qcow2", "ext": ext, "cb": cb})


# ---------------------------------------------------------------- HDS(fh, parent=) in memory
def build_hds_mem(chain, rng, cs=4096, ver=2):
    from dissect.hypervisor.disk.hdd import HDS

    if any("Z" in layer for layer in chain):
        return None  # an expanding image cannot mark a cluster as zero
    n = len(chain[0])
    vfs, host = [], []
    for i, layer in enumerate(chain):
        pos = [p + 1 for p in _perm(rng, n)]
        bat = {c: (pos[c] if layer[c] == "H" else 0) for c in range(n)}
        vf, info = enc_hds.build({"ver": ver, "n": n, "cb": 1, "bat": bat, "size": n}, cluster_size=cs, file_id=i, P=n + 1)
        vfs.append(vf)
        host.append({c: pos[c] * cs for c in range(n)})

    def opener():
        obj = None
        for vf in reversed(vfs):
            vf.seek(0)
            obj = HDS(vf, parent=obj)
        return obj

    return _mk_built(opener, cs, n, host, list(range(len(chain))), {"fmt": "hds-mem", "cs": cs, "ver": ver})


# ---------------------------------------------------------------- VHDX differencing chains (files on disk)
def _vhdx_layer(layer, is_base, bs, sector, cb):
    """-> (state, bitmap bytes | None) for a one-block layer of cb cells, or None if not expressible."""
    spb = bs // sector
    spc = spb // cb
    if all(x == "A" for x in layer):
        return (enc_vhdx.ST_NOT_PRESENT, None)
    if all(x == "Z" for x in layer):
        return (enc_vhdx.ST_ZERO, None)
    if all(x == "H" for x in layer):
        return (enc_vhdx.ST_FULL, None)
    if is_base or "Z" in layer:
        return None
    bits = bytearray(spb // 8)
    for c, x in enumerate(layer):
        if x == "H":
            for s in range(c * spc, (c + 1) * spc):
                bits[s // 8] |= 1 << (s % 8)
    return (enc_vhdx.ST_PARTIAL, bytes(bits))


def build_vhdx_disk(chain, rng, work, bs=1 << 20, sector=512, locator_mode="relative"):
    from dissect.hypervisor.disk.vhdx import VHDX

    cb = len(chain[0])
    spb = bs // sector
    if spb % cb:
        return None
    cell = bs // cb
    specs = []
    for i, layer in enumerate(chain):
        sp = _vhdx_layer(layer, i == len(chain) - 1, bs, sector, cb)
        if sp is None:
            return None
        specs.append(sp)
    d = tempfile.mkdtemp(prefix="vhdx-", dir=work)
    names = [f"layer{i}.{'vhdx' if i == len(chain) - 1 else 'avhdx'}" for i in range(len(chain))]
    host = []
    for i, (st, bm) in enumerate(specs):
        is_base = i == len(chain) - 1
        pos = rng.randrange(0, 3)
        blocks = [(st, pos if st in (enc_vhdx.ST_FULL, enc_vhdx.ST_PARTIAL) else None)]
        loc = None
        if not is_base:
            if locator_mode == "relative":
                loc = {"parent_linkage": "{11111111-2222-3333-4444-555555555555}", "relative_path": ".\\" + names[i + 1],
                       "absolute_win32_path": "C:\\nowhere\\" + names[i + 1]}
            else:
                loc = {"parent_linkage": "{11111111-2222-3333-4444-555555555555}", "relative_path": ".\\missing\\" + names[i + 1],
                       "absolute_win32_path": (d.lstrip("/") + "/" + names[i + 1]).replace("/", "\\")}
        vf, info = enc_vhdx.build(blocks, block_size=bs, sector_size=sector, disk_size=bs, has_parent=not is_base, locator=loc,
                                  bitmaps=({0: bm} if bm is not None else None), file_id=i,
                                  layout=rng.choice(["std", "std", "regions-last", "bat-last"]))     # the layers of a chain need not be laid out alike
        vf.materialise(os.path.join(d, names[i]))
        host.append({c: info["data_base"] + (pos if pos is not None else 0) * bs + c * cell for c in range(cb)})
    top = os.path.join(d, names[0])
    return _mk_built(lambda: VHDX(Path(top)), cell, cb, host, list(range(len(chain))), {"fmt": "vhdx", "bs": bs, "sector": sector, "loc": locator_mode},
                     sector=sector), d


# ---------------------------------------------------------------- VMDK descriptor + delta extents (files on disk)
def build_vmdk_disk(chain, rng, work, grain=8, hint_mode="same"):
    from dissect.hypervisor.disk.vmdk import VMDK

    n = len(chain[0])
    gbytes = grain * 512
    d = tempfile.mkdtemp(prefix="vmdk-", dir=work)
    sub = {"same": d, "sibling": os.path.join(os.path.dirname(d), os.path.basename(d) + "-parent")}
    host = []
    names = []
    split = rng.randrange(1, n) if (n > 1 and rng.random() < 0.7) else 0   # two extents per layer: cells [0, split) and [split, n)
    sesparse = rng.random() < 0.4
    for i, layer in enumerate(chain):
        is_base = i == len(chain) - 1
        parts = [(0, n)] if not split else [(0, split), (split, n)]
        if split and rng.random() < 0.3 and not is_base:
            parts = [(0, n)]   # layers need not be split alike
        where = d
        if i > 0 and hint_mode == "sibling":
            where = sub["sibling"]
            os.makedirs(where, exist_ok=True)
        lines, hrow = [], {}
        desc_name = f"disk{i}.vmdk"
        if is_base:
            hint = None
            pcid = "ffffffff"
        else:
            nxt_dir = sub["sibling"] if hint_mode == "sibling" else d
            hint = (f"disk{i + 1}.vmdk" if hint_mode == "same" else f"C:\\vms\\{os.path.basename(nxt_dir)}\\disk{i + 1}.vmdk")
            pcid = "12345678"
        if len(parts) == 1 and not sesparse and rng.random() < 0.4:
            # a monolithic sparse layer: one file, its descriptor (parent CID and hint included) embedded behind the header; the
            # reader learns about the parent only after it has set up the extent
            pos = [p + 1 for p in _perm(rng, n)]
            ents = [("D", pos[c]) if layer[c] == "H" else ("Z", 0) if layer[c] == "Z" else ("U", 0) for c in range(n)]
            vf, info = enc_vmdk.build_hosted(ents, [True] * (-(-n // 4)), capacity=n * grain, grain=grain, gtes=4, file_id=i, max_pos=n + 1,
                                             desc=enc_vmdk.descriptor_text([f'RW {n * grain} SPARSE "{desc_name}"'], parent_cid=pcid, parent_hint=hint, cid=f"0000000{i}"))
            vf.materialise(os.path.join(where, desc_name))
            names.append(os.path.join(where, desc_name))
            host.append({c: info["data_base"] + pos[c] * gbytes for c in range(n)})
            continue
        for k, (lo, hi) in enumerate(parts):
            m = hi - lo
            pos = [p + 1 for p in _perm(rng, m)]
            ext_name = f"disk{i}-s{k + 1:03d}.vmdk"
            if sesparse:
                # SE-sparse delta: an absent grain is either "unallocated" (type 0) or "fall through / unmapped" (type 1) - both
                # defer to the parent
                ents = [("D", pos[c]) if layer[lo + c] == "H" else ("Z", 0) if layer[lo + c] == "Z" else (rng.choice(["U", "F"]), 0) for c in range(m)]
                vf, info = enc_vmdk.build_sesparse(ents, [True], capacity=m * grain, grain=grain, gt_sectors=1, file_id=i, max_pos=m + 1)
                etype = "SESPARSE"
            else:
                ents = [("D", pos[c]) if layer[lo + c] == "H" else ("Z", 0) if layer[lo + c] == "Z" else ("U", 0) for c in range(m)]
                gtes = 4
                present = [True] * (-(-m // gtes))
                vf, info = enc_vmdk.build_hosted(ents, present, capacity=m * grain, grain=grain, gtes=gtes, file_id=i, max_pos=m + 1,
                                                 desc=enc_vmdk.descriptor_text([f'RW {m * grain} SPARSE "{ext_name}"']))
                etype = "SPARSE"
            vf.materialise(os.path.join(where, ext_name))
            lines.append(f'RW {m * grain} {etype} "{ext_name}"')
            for c in range(m):
                hrow[lo + c] = info["data_base"] + pos[c] * gbytes
        text = enc_vmdk.descriptor_text(lines, parent_cid=pcid, parent_hint=hint, cid=f"0000000{i}")
        with open(os.path.join(where, desc_name), "w") as f:
            f.write(text)
        names.append(os.path.join(where, desc_name))
        host.append(hrow)
    top = names[0]
    return _mk_built(lambda: VMDK(Path(top)), gbytes, n, host, list(range(len(chain))), {"fmt": "vmdk", "grain": grain, "hint": hint_mode, "sesparse": sesparse}), d


# ---------------------------------------------------------------- Parallels HDD snapshot chains (files on disk)
def build_hdd_disk(chain, rng, work, cs=4096, top_default=True):
    from dissect.hypervisor.disk.hdd import HDD

    if any("Z" in layer for layer in chain):
        return None
    n = len(chain[0])
    d = tempfile.mkdtemp(prefix="hdd-", dir=work) + ".hdd"
    guids = [enc_hds.DEFAULT_TOP if (top_default and i == 0) else "{%08x-aaaa-bbbb-cccc-%012x}" % (i + 1, rng.getrandbits(40)) for i in range(len(chain))]
    files, images, shots, host = {}, [], [], []
    for i, layer in enumerate(chain):
        pos = [p + 1 for p in _perm(rng, n)]
        bat = {c: (pos[c] if layer[c] == "H" else 0) for c in range(n)}
        vf, info = enc_hds.build({"ver": 2, "n": n, "cb": 1, "bat": bat, "size": n}, cluster_size=cs, file_id=i, P=n + 1)
        fn = f"disk.{i}.hds"
        files[fn] = vf
        images.append((guids[i], "Compressed", fn))
        shots.append((guids[i], guids[i + 1] if i + 1 < len(chain) else enc_hds.NULL_GUID))
        host.append({c: pos[c] * cs for c in range(n)})
    order = list(range(len(chain)))
    rng.shuffle(order)  # the order of <Image>/<Shot> elements must not matter
    split = rng.randrange(1, n) if (n > 1 and rng.random() < 0.6) else 0
    if not split:
        enc_hds.write_hdd_dir(d, [(0, n * cs // 512, [images[k] for k in order])], [shots[k] for k in order], files, top_guid=guids[0])
    else:
        # two storages, each with its own image per snapshot: cells [0, split) and [split, n)
        files, host = {}, []
        st_imgs = [[], []]
        for i, layer in enumerate(chain):
            hrow = {}
            for sidx, (lo, hi) in enumerate(((0, split), (split, n))):
                m = hi - lo
                pos = [p + 1 for p in _perm(rng, m)]
                bat = {c: (pos[c] if layer[lo + c] == "H" else 0) for c in range(m)}
                vf, info = enc_hds.build({"ver": 2, "n": m, "cb": 1, "bat": bat, "size": m}, cluster_size=cs, file_id=i, P=m + 1)
                fn = f"disk.{i}.s{sidx}.hds"
                files[fn] = vf
                st_imgs[sidx].append((guids[i], "Compressed", fn))
                for c in range(m):
                    hrow[lo + c] = ("s%d" % sidx, pos[c] * cs)
            host.append(hrow)
        storages = [(0, split * cs // 512, [st_imgs[0][k] for k in order]), (split * cs // 512, n * cs // 512, [st_imgs[1][k] for k in order])]
        if rng.random() < 0.5:
            storages.reverse()
        enc_hds.write_hdd_dir(d, storages, [shots[k] for k in order], files, top_guid=guids[0])
        # both storage files of a layer share the layer's pattern id; the host map keeps only the byte offset
        host = [{c: v[1] for c, v in row.items()} for row in host]
    shared = []

    def opener():
        # every other stream comes from one shared HDD object that has handed out streams before
        if not shared:
            shared.append(HDD(Path(d)))
            shared[0].open().read(512)
        return shared[0].open() if len(shared) % 2 or rng.random() < 0.5 else HDD(Path(d)).open()

    return _mk_built(opener, cs, n, host, list(range(len(chain))), {"fmt": "hdd", "cs": cs, "top_default": top_default, "split": split}), d


# ---------------------------------------------------------------- direction A driver
def realisations(chain, rng, work, thorough):
    """Yield (label, Built, tmpdir|None) for every format that can express `chain`."""
    n = len(chain[0])
    yield "vdi", build_vdi(chain, rng, rng.choice([4096, 65536])), None
    yield "qcow2-std", build_qcow2(chain, rng, False, rng.choice([9, 12, 16])), None
    if 32 % n == 0:
        yield "qcow2-ext", build_qcow2(chain, rng, True, rng.choice([14, 16])), None
    b = build_hds_mem(chain, rng, rng.choice([4096, 65536]), rng.choice([1, 2]))
    if b:
        yield "hds-mem", b, None
    r = build_hdd_disk(chain, rng, work, top_default=rng.random() < 0.5)
    if r:
        yield "hdd-disk", r[0], r[1]
    yield ("vmdk-disk",) + build_vmdk_disk(chain, rng, work, rng.choice([8, 128]), rng.choice(["same", "sibling"]))
    r = build_vhdx_disk(chain, rng, work, locator_mode=rng.choice(["relative", "relative", "absolute"]))
    if r:
        yield "vhdx-disk", r[0], r[1]


def direction_A(ctx, sts, thorough):
    def work(sub, chunk, idx):
        rng = random.Random(ctx.seed * 77 + idx)
        wdir = tempfile.mkdtemp(prefix="verif-c07-")
        try:
            for st in chunk:
                chain = _chain_of(st)
                view = disk.norm_view(st["view"])
                for label, b, tmp in realisations(chain, rng, wdir, thorough):
                    if b is not None:
                        sapi = (lambda s, sec, cnt: s.read_sectors(sec, cnt)) if label in ("vhdx-disk", "vmdk-disk") else None
                        diskcheck.check_image(sub, label, {"chain": chain}, view, b, rng, full=True,
                                              attrs={"realisation": label, "depth": len(chain)}, cap=24, sectors_api=sapi)
                        sub.extra["chains_replayed"] = sub.extra.get("chains_replayed", 0) + 1
                    if tmp:
                        shutil.rmtree(tmp, ignore_errors=True)
                        shutil.rmtree(os.path.dirname(tmp) + "/" + os.path.basename(tmp) + "-parent", ignore_errors=True)
                    if len(sub.violations) >= sub.max_violations:
                        return
        finally:
            shutil.rmtree(wdir, ignore_errors=True)

    core.parallel(ctx, work, sts)


def chain_states(ctx, cfg):
    """Chains with their TLC-computed guest view (the dump also enumerates fs/optOut: one representative per chain)."""
    seen, out = set(), []
    for s in diskprop.dump_states(ctx, "Layers", cfg):
        k = repr(s["chain"])
        if k not in seen:
            seen.add(k)
            out.append({"chain": s["chain"], "view": s["view"]})
    return out


def run(ctx):
    thorough = ctx.tier == "thorough"
    rng = random.Random(ctx.seed + 707)
    ctx.rule = ("A: chains enumerated by TLC from spec/Layers.tla (depth <= 2-3, per-layer {holds, zero, absent}^3) realised as VDI parents, "
                "QCOW2 backing chains (std / extended L2), HDS(fh, parent), Parallels HDD snapshot chains on disk (default and non-default "
                "TopGUID, shuffled element order), VMDK descriptor + delta extents on disk (same / sibling directory), VHDX differencing "
                "chains on disk (relative / absolute locator) x all requests; B: random chains at real geometry (VHDX per-sector bitmaps "
                "with sector-addressed reads at every bit alignment, QCOW2 32-bit sub-cluster bitmaps, VDI), depth 2-4, validated by "
                "TraceDisk!ChainSrc; QCOW2 internal snapshots opened before/after reads on the active image; parent-resolution "
                "configurations from Layers_res (first existing candidate wins, none -> rejected, QCOW2 opt-out). "
                "Non-trivial = request crossing a source change / every resolution configuration.")
    ctx.assumptions = ["encoders as in C01-C06", "a VHDX base layer is block-granular, sub-block precedence is exercised in B"]
    diskprop.tlc_check(ctx, "Layers", "Layers_small.cfg", need_actions=("Open",))
    sts = chain_states(ctx, "Layers_img.cfg")
    if not thorough:
        sts = [s for s in sts if len(s["chain"]) > 1]
        sts = rng.sample(sts, min(len(sts), 160))
    direction_A(ctx, sts, thorough)
    direction_B(ctx, thorough)
    qcow2_snapshots(ctx, rng, 40 if thorough else 10)
    vhdx_late_chunk(ctx, rng, thorough)
    diskprop.tlc_check(ctx, "Layers", "Layers_res.cfg", min_states=100)
    resolution(ctx, thorough)
    diskprop.tlc_check(ctx, "VhdxPartial", "VhdxPartial_big.cfg" if thorough else "VhdxPartial_small.cfg", min_states=200)
    diskprop.tlc_check(ctx, "Vhdx", "VhdxDiff_small.cfg", min_states=200)


def session(top, fresh, size_b, align, attr, depth, sizes=None):
    """Recorders for the opened stream (obj 1) and for the stream objects of its ancestors (obj 2..), sharing one event list."""
    events, recs = [], []
    o, f = top, fresh
    for k in range(1, depth + 1):
        if o is None:
            break
        recs.append(record.Recorder(o, sizes[k - 1] if sizes else size_b, probe=f.readoffset, align=align, events=events, obj=k))
        o, f = getattr(o, attr, None), getattr(f, attr, None)
    return events, recs


def interleaved_ops(recs, rng, size_b, nops, **kw):
    """Short bursts of random operations on the objects of a session in random order: what an object returns must not
    depend on what was done to the others.  The opened stream is driven with the full repertoire; an ancestor object is
    a handle the stream above it owns (QCow2 positions its backing file with seek + read), so its cursor is not asserted:
    every operation on it seeks to an absolute offset first."""
    left = nops
    while left > 0:
        burst = min(left, rng.randrange(1, 6))
        k = 0 if rng.random() < 0.6 else rng.randrange(len(recs))
        record.random_ops(recs[k], rng, recs[k].sizeB, burst, absolute=(k > 0), **kw)
        left -= burst


# ---------------------------------------------------------------- VHDX: partially-present block in a later chunk (second sector-bitmap entry)
def vhdx_late_chunk(ctx, rng, thorough):
    """Differencing disk larger than one chunk: the partially-present block lies in chunk 1 (or 2), so its sector bitmap is
    found through a later sector-bitmap BAT entry.  Byte offsets exceed 2^31, so this is compared in Python against the
    overlay semantics of Layers (child sector if its bit is set, else the parent's)."""
    from dissect.hypervisor.disk.vhdx import VHDX

    work = tempfile.mkdtemp(prefix="verif-c07l-")
    try:
        for bs, sector in ((256 << 20, 512), (32 << 20, 512)) if thorough else ((256 << 20, 512),):
            cr = (2 ** 23 * sector) // bs
            nblk = 2 * cr + 3
            spb = bs // sector
            for chunk, inchunk in ((1, 2), (2, 0), (0, cr - 1)):
                blk = chunk * cr + inchunk
                if blk >= nblk:
                    continue
                bits = bytearray(1 << 20)
                present = sorted(rng.sample(range(0, 200), 90))
                for x in present:
                    g = inchunk * spb + x
                    bits[g // 8] |= 1 << (g % 8)
                cblocks = [(enc_vhdx.ST_NOT_PRESENT, None)] * nblk
                cblocks[blk] = (enc_vhdx.ST_PARTIAL, 0)
                pblocks = [(enc_vhdx.ST_NOT_PRESENT, None)] * nblk
                pblocks[blk] = (enc_vhdx.ST_FULL, 0)
                d = tempfile.mkdtemp(prefix="late-", dir=work)
                loc = {"parent_linkage": "{1}", "relative_path": ".\\base.vhdx", "absolute_win32_path": "C:\\x\\base.vhdx"}
                cv, ci = enc_vhdx.build(cblocks, block_size=bs, sector_size=sector, disk_size=nblk * bs, has_parent=True, locator=loc,
                                        bitmaps={chunk: bytes(bits)}, file_id=0)
                pv, pi = enc_vhdx.build(pblocks, block_size=bs, sector_size=sector, disk_size=nblk * bs, file_id=1)
                cv.materialise(os.path.join(d, "child.avhdx"))
                pv.materialise(os.path.join(d, "base.vhdx"))
                v = VHDX(Path(d) / "child.avhdx")
                for s0, cnt in [(0, 200), (3, 17), (7, 9), (8, 8), (1, 8), (100, 64)] + [(rng.randrange(0, 190), rng.randrange(1, 40)) for _ in range(10)]:
                    got = v.read_sectors(blk * spb + s0, cnt)
                    exp = b"".join(patterns.pat(0 if (s0 + j) in present else 1,
                                                (ci if (s0 + j) in present else pi)["data_base"] + (s0 + j) * sector, sector) for j in range(cnt))
                    ctx.case(key=("late", bs, chunk, s0, cnt), nontrivial=True,
                             sample={"realisation": "vhdx-late-chunk", "block": blk, "chunk": chunk, "read_sectors": [s0, cnt]} if (s0, cnt) == (3, 17) and chunk == 1 else None)
                    if got != exp:
                        ctx.violation({"realisation": "vhdx-late-chunk", "format": "vhdx-late-chunk", "fail": "read-mismatch", "chunk": chunk},
                                      {"block_size": bs, "chunk": chunk, "block": blk, "read_sectors": [s0, cnt], "diff": disk.first_diff(exp, got)})
                        break
                shutil.rmtree(d, ignore_errors=True)
    finally:
        shutil.rmtree(work, ignore_errors=True)


# ---------------------------------------------------------------- direction B: random chains at real geometry
def trace_vhdx_chain(tid, rng, nops, align=None):
    from dissect.hypervisor.disk.vhdx import VHDX

    sector = rng.choice([512, 512, 4096])
    if align and align % 4096:
        sector = 512  # the buffer size must be a multiple of the logical sector size
    bs = 1 << 20
    spb = bs // sector
    nb = rng.randrange(1, 4)
    depth = rng.randrange(2, 5)
    work = tempfile.mkdtemp(prefix="verif-c07b-")
    try:
        names = [f"l{i}.{'vhdx' if i == depth - 1 else 'avhdx'}" for i in range(depth)]
        layers, bases = [], []
        win = min(spb, 96)
        nodata = rng.randrange(0, depth - 1) if rng.random() < 0.3 else None    # a differencing layer without any payload block
        for i in range(depth):
            is_base = i == depth - 1
            blocks, st, pp, bm, bitmaps = [], [], [], [], {}
            allbits = bytearray((2 ** 23) // 8 if False else spb * nb // 8 + 8)
            for b in range(nb):
                if is_base:
                    s_ = rng.choice([6, 6, 2, 0, 3])
                else:
                    s_ = rng.choice([7, 7, 7, 0, 6, 2])
                if i == nodata:
                    s_ = rng.choice([0, 2, 2, 3])
                p = b if s_ in (6, 7) else None
                present = []
                if s_ == 7:
                    style = rng.random()
                    if style < 0.4:
                        present = [x for x in range(win) if rng.random() < 0.5]
                    elif style < 0.7:
                        lo = rng.randrange(0, win)
                        hi = rng.randrange(lo, win + 1)
                        present = list(range(lo, hi))
                    else:
                        present = [x for x in range(win) if (x // rng.choice([1, 3, 8])) % 2 == 0]
                    if rng.random() < 0.6:   # some sectors at the very end of the block as well
                        present += [x for x in range(spb - 24, spb) if rng.random() < 0.5]
                    for x in present:
                        g = b * spb + x
                        allbits[g // 8] |= 1 << (g % 8)
                blocks.append((s_, p))
                st.append(s_)
                pp.append(p if p is not None else 0)
                bm.append(present)
            loc = None
            if not is_base:
                loc = {"parent_linkage": "{11111111-2222-3333-4444-555555555555}", "relative_path": ".\\" + names[i + 1],
                       "absolute_win32_path": "C:\\nowhere\\" + names[i + 1]}
            vf, info = enc_vhdx.build(blocks, block_size=bs, sector_size=sector, disk_size=nb * bs, has_parent=not is_base, locator=loc,
                                      bitmaps=({0: bytes(allbits)} if any(s_ == 7 for s_ in st) else None), file_id=i,
                                      layout=rng.choice(["std", "std", "regions-last", "bat-last"]))     # the layers of a chain need not be laid out alike
            vf.materialise(os.path.join(work, names[i]))
            layers.append({"fmt": "vhdx", "img": {"n": nb, "cb": spb, "st": st, "p": pp, "bm": bm, "size": nb * spb, "parent": not is_base}})
            bases.append(info["data_base"])
        top = os.path.join(work, names[0])
        s = VHDX(Path(top))
        fresh = VHDX(Path(top))
        size_b = nb * bs
        events, recs = session(s, fresh, size_b, align, "parent", depth)
        for _ in range(nops):
            rec = recs[0] if rng.random() < 0.6 else rng.choice(recs)
            s = rec.s
            b = rng.randrange(nb)
            r = rng.random()
            if r < 0.15 and b + 1 < nb:
                # a request that leaves one block through its last sectors and enters the next one
                s0 = spb - rng.randrange(1, 20)
                c = rng.randrange(spb - s0 + 1, spb - s0 + 30)
                if rng.random() < 0.5:
                    rec.sectors(s.read_sectors, b * spb + s0, c, sector)
                else:
                    rec.readoffset((b * spb + s0) * sector, c * sector)
            elif r < 0.6:
                s0 = rng.randrange(0, win + 4)
                c = rng.randrange(1, 24)
                if b * spb + s0 + c <= nb * spb:
                    rec.sectors(s.read_sectors, b * spb + s0, c, sector)
            elif r < 0.9:
                o = b * bs + rng.randrange(0, (win + 8) * sector)
                n = rng.choice([sector, 3 * sector, 8192, 12345, 16 * sector + 7])
                rec.readoffset(o - o % 8, n - n % 8 if n < 16 else n)
            else:
                rec.seek(rng.randrange(0, size_b))
                rec.read(rng.choice([4096, 65536]))
        geo = {"cellB": sector, "cb": spb, "stride": bs, "bases": bases, "pbase": 0}
        return {"tid": tid, "fmt": "chain", "kind": "vhdx", "chain": layers, "sizeB": size_b, "sector": sector, "geo": geo, "events": events}
    finally:
        shutil.rmtree(work, ignore_errors=True)


def trace_qcow2_chain(tid, rng, nops, align=None):
    from dissect.hypervisor.disk.qcow2 import QCow2

    cb = rng.choice([14, 16])
    cs = 1 << cb
    nc0 = rng.randrange(2, 8)
    depth = rng.randrange(2, 5)
    # a backing image may be shorter (reads beyond its end are zeros) or longer than the image on top of it
    ncs = [nc0] + [max(1, nc0 + rng.choice([0, 0, 0, -1, -2, -3, 1])) for _ in range(depth - 1)]
    vfs, layers, bases = [], [], []
    nodata = rng.randrange(0, depth - 1) if rng.random() < 0.3 else None    # an overlay without any allocated sub-cluster (zero bits only)
    for i in range(depth):
        is_base = i == depth - 1
        nc = ncs[i]
        back_cells = -1 if is_base else ncs[i + 1] * 32
        pos = list(range(1, nc + 2))
        rng.shuffle(pos)
        t, h, al, ze, l2 = [], [], [], [], {}
        for c in range(nc):
            k = rng.choice(["U", "N", "N", "N"])
            a = z = 0
            style = rng.random()
            if style < 0.4:
                a = rng.getrandbits(32)
                z = rng.getrandbits(32) & ~a
            elif style < 0.7:
                lo = rng.randrange(0, 32)
                hi = rng.randrange(lo, 33)
                a = ((1 << hi) - 1) & ~((1 << lo) - 1)
                z = rng.choice([0, (1 << lo) - 1])
            else:
                a = rng.choice([0xFFFFFFFF, 0x0000FFFF, 0x55555555, 0x80000001, 0])
                z = rng.choice([0, ~a & 0xFF00FF00])
            if i == nodata:
                k, z, a = "U", z | (a & rng.getrandbits(32)), 0
            if k == "U":
                a = 0
            hh = pos.pop() if k == "N" else 0
            t.append(k); h.append(hh); al.append(a); ze.append(z)
            l2[c] = {"t": k, "h": hh, "sub": ["A" if (a >> b) & 1 else "Z" if (z >> b) & 1 else "U" for b in range(32)]}
        img = {"ext": True, "datafile": False, "l2n": cs // 16, "s": 32, "l1": {0: True}, "l2": l2, "back": back_cells, "size": nc * 32}
        vf, _, info = enc_qcow2.build(img, cluster_bits=cb, K=1, file_id=i)
        vfs.append(vf)
        bases.append(info["data_base"])
        layers.append({"fmt": "qcow2", "img": {"ext": True, "datafile": False, "nc": nc, "s": 32, "t": t, "h": h,
                                               "al_lo": [a & 0xFFFF for a in al], "al_hi": [a >> 16 for a in al],
                                               "ze_lo": [z & 0xFFFF for z in ze], "ze_hi": [z >> 16 for z in ze],
                                               "back": back_cells}})

    def opener():
        obj = None
        for vf in reversed(vfs):
            vf.seek(0)
            obj = QCow2(vf, backing_file=obj)
        return obj

    size_b = ncs[0] * cs
    s, fresh = opener(), opener()
    events, recs = session(s, fresh, size_b, align, "backing_file", depth, sizes=[n_ * cs for n_ in ncs])
    interleaved_ops(recs, rng, size_b, nops, unit=cs // 32, big=min(3 * cs, 1 << 20))
    geo = {"cellB": cs // 32, "cb": 1, "stride": cs // 32, "bases": bases, "pbase": 0}
    return {"tid": tid, "fmt": "chain", "kind": "qcow2", "chain": layers, "sizeB": size_b, "sizes": [n_ * cs for n_ in ncs], "sector": 512, "geo": geo,
            "events": events}


def trace_qcow2_chain_std(tid, rng, nops, align=None):
    """Backing chains of standard-L2 images with small clusters: several L1 entries, some of them empty (no L2 table)."""
    from dissect.hypervisor.disk.qcow2 import QCow2

    cb = rng.choice([9, 9, 10])
    cs = 1 << cb
    l2n = cs // 8
    depth = rng.randrange(2, 4)
    nc0 = rng.randrange(l2n + 3, 4 * l2n)
    ncs = [nc0] + [max(1, nc0 + rng.choice([0, 0, -1, -l2n // 2, 3])) for _ in range(depth - 1)]
    vfs, layers, bases = [], [], []
    nodata = rng.randrange(0, depth - 1) if rng.random() < 0.35 else None    # an overlay that holds no data cluster at all (zero clusters only)
    for i in range(depth):
        is_base = i == depth - 1
        nc = ncs[i]
        nl1 = -(-nc // l2n)
        l1 = {x: rng.random() < 0.6 for x in range(nl1)}
        back_cells = -1 if is_base else ncs[i + 1]
        pos = list(range(1, nc + 2))
        rng.shuffle(pos)
        t, h, l2 = [], [], {}
        for c in range(nc):
            k = rng.choice(["U", "U", "N", "N", "ZP", "ZA"]) if l1[c // l2n] else "U"
            if i == nodata and k in ("N", "ZA"):
                k = "ZP"
            hh = pos.pop() if k in ("N", "ZA") else 0
            t.append(k)
            h.append(hh)
            l2[c] = {"t": k, "h": hh, "sub": []}
        # an overlay may keep its guest clusters in an external data file (feature bit, with or without the name extension):
        # host cluster 0 of that file is a valid place for data
        dfile = rng.random() < 0.3
        if dfile:
            zero_pos = [c for c in range(nc) if t[c] in ("N", "ZA")]
            if zero_pos:
                c0 = rng.choice(zero_pos)
                h[c0] = 0
                l2[c0]["h"] = 0
        img = {"ext": False, "datafile": dfile, "l2n": l2n, "s": 1, "l1": l1, "l2": l2, "back": back_cells, "size": nc}
        vf, dvf, info = enc_qcow2.build(img, cluster_bits=cb, K=1, file_id=i, data_fid=i, datafile_ext=rng.random() < 0.4)
        vfs.append((vf, dvf))
        bases.append(0 if dfile else info["data_base"])
        layers.append({"fmt": "qcow2", "img": {"ext": False, "datafile": dfile, "nc": nc, "s": 1, "t": t, "h": h, "al_lo": [0] * nc, "al_hi": [0] * nc,
                                               "ze_lo": [0] * nc, "ze_hi": [0] * nc, "back": back_cells}})

    def opener():
        obj = None
        for vf, dvf in reversed(vfs):
            vf.seek(0)
            obj = QCow2(vf, data_file=dvf, backing_file=obj if obj is not None else None)
        return obj

    size_b = ncs[0] * cs
    s, fresh = opener(), opener()
    events, recs = session(s, fresh, size_b, align, "backing_file", depth, sizes=[n_ * cs for n_ in ncs])
    interleaved_ops(recs, rng, size_b, nops, unit=l2n * cs, big=min(3 * l2n * cs, 1 << 20))
    geo = {"cellB": cs, "cb": 1, "stride": cs, "bases": bases, "pbase": 0}
    return {"tid": tid, "fmt": "chain", "kind": "qcow2-std", "chain": layers, "sizeB": size_b, "sizes": [n_ * cs for n_ in ncs], "sector": 512, "geo": geo,
            "events": events}


def trace_vdi_chain(tid, rng, nops, align=None):
    from dissect.hypervisor.disk.vdi import VDI

    bs = rng.choice([4096, 65536, 1 << 20])
    n = rng.randrange(2, 12)
    depth = rng.randrange(2, 5)
    # the layers of a chain need not share a block size: layer i uses cbs[i] cells (of bs bytes) per block
    mixed = rng.random() < 0.4
    if mixed:
        bs = rng.choice([4096, 65536])
        n = 4 * rng.randrange(1, 5)
    vfs, layers, bases = [], [], []
    # a layer without a single data block (a snapshot that only discarded: zero blocks hide what lies below) is a layer all the same
    nodata = rng.randrange(0, depth - 1) if rng.random() < 0.35 else None
    for i in range(depth):
        cbi = rng.choice([1, 2, 4]) if mixed else 1
        ni = n // cbi
        pos = _perm(rng, ni + 1)
        mp = [(-1 if rng.random() < 0.45 else -2 if rng.random() < 0.2 else pos.pop()) for _ in range(ni)]
        if i == nodata:
            mp = [rng.choice([-1, -2, -2]) for _ in range(ni)]
        vf, cell, doff, _ = enc_vdi.build({"n": ni, "cb": 1, "map": {c: mp[c] for c in range(ni)}, "size": ni, "parent": i < depth - 1},
                                          block_size=bs * cbi, file_id=i, P=ni + 1)
        vfs.append(vf)
        bases.append(doff)
        layers.append({"fmt": "vdi", "img": {"n": ni, "cb": cbi, "map": mp, "parent": i < depth - 1}})

    def opener():
        obj = None
        for vf in reversed(vfs):
            vf.seek(0)
            obj = VDI(vf, parent=obj)
        return obj

    size_b = n * bs
    s, fresh = opener(), opener()
    events, recs = session(s, fresh, size_b, align, "parent", depth)
    interleaved_ops(recs, rng, size_b, nops, unit=bs, big=min(3 * bs + 4096, 4 << 20))
    geo = {"cellB": bs, "cb": 1, "stride": bs, "bases": bases, "pbase": 0}
    return {"tid": tid, "fmt": "chain", "kind": "vdi", "chain": layers, "sizeB": size_b, "sector": 512, "geo": geo, "events": events}


def direction_B(ctx, thorough):
    makers = [trace_vhdx_chain, trace_vhdx_chain, trace_qcow2_chain, trace_vdi_chain, trace_qcow2_chain_std]

    def mk(tid, rng):
        return makers[tid % len(makers)](tid, rng, 60 if thorough else 30)

    diskprop.traces(ctx, "chain", mk, 240 if thorough else 60, "TraceDisk", "TraceDisk.cfg",
                    lambda t: {"format": "chain", "kind": t["kind"], "depth": len(t["chain"]), "mode": "B"}, label="random chains")


# ---------------------------------------------------------------- QCOW2 internal snapshots (alternative L1 tables in one file)
def qcow2_snapshots(ctx, rng, nsets):
    """Active image + internal snapshots built from TLC-enumerated Qcow2 images (each with its TLC view); the snapshot views
    are opened before/after reads on the active image (shared state must not leak)."""
    from dissect.hypervisor.disk.qcow2 import QCow2

    import props.c01 as c01
    sts = [s for s in diskprop.dump_states(ctx, "Qcow2", "Qcow2_img.cfg")
           if not s["img"]["datafile"] and s["img"]["back"] == -1 and s["img"]["size"] == 8 and all(s["img"]["l1"].values())]
    inter = [s for s in sts if disk.view_features(disk.norm_view(s["view"]))["discontinuous"]]
    # snapshots taken before the disk was grown: their L1 table is shorter than the active one
    short = [s for s in diskprop.dump_states(ctx, "Qcow2", "Qcow2_img.cfg")
             if not s["img"]["datafile"] and s["img"]["back"] == -1 and s["img"]["size"] == 8 and s["img"]["l1"][0] and not s["img"]["l1"][1]
             and disk.view_features(disk.norm_view(s["view"]))["discontinuous"]]
    for k in range(nsets):
        picks = rng.sample(inter, 3)
        cb, K = rng.choice([(9, 32), (9, 32), (13, 512), (16, 4096)])      # clusters below and above the size of the stream buffer
        snap_imgs = [p["img"] for p in picks[1:]]
        if k % 2 and short:
            sp = rng.choice(short)
            picks[2] = sp
            i2 = sp["img"]
            l2n = i2["l2n"]
            snap_imgs[1] = {**i2, "l1": {0: True}, "l2": {c: i2["l2"][c] for c in range(l2n)}, "size": l2n * i2["s"]}
        vf, infos = enc_qcow2.build_with_snapshots(picks[0]["img"], snap_imgs, cluster_bits=cb, K=K, l1_garbage=True,
                                                   snap_meta=[("1", "first", 16), ("2", "zweite-✓", 24)])
        for inf in infos:
            inf["size"] = infos[0]["size"]   # the snapshot view is read over the active image's size; beyond its own L1 it is unallocated
        views = [disk.norm_view(p["view"]) for p in picks]
        cs = 1 << cb

        def tokb_for(info):
            def tokb(tok, a, n, cell=info["cell"], cs=cs, K=K):
                if tok["k"] != "C":
                    return None
                x = tok["c"] * cell + a
                out = []
                while n > 0:
                    j, off = divmod(x, cs)
                    t = min(n, cs - off)
                    out.append(patterns.cpat(tok["f"] * K + j + info["csalt"], off, t))
                    x += t
                    n -= t
                return b"".join(out)
            return tokb

        builts = [disk.Built(open=None, cell=i["cell"], size=i["size"], bases={0: i["data_base"]}, tok_bytes=tokb_for(i)) for i in infos]
        attrs = {"realisation": "qcow2-snapshot", "format": "qcow2-snapshot"}
        det = {"images": [p["img"] for p in picks]}
        try:
            vf.seek(0)
            q = QCow2(vf)
            order = rng.choice(["active-first", "snapshot-first"])
            objs = {}
            if order == "active-first":
                q.seek(0)
                q.read(rng.choice([1, 512, 5000]))  # fills the alignment buffer of the active image at position 0
            snaps = q.snapshots
            if len(snaps) != 2:
                ctx.violation({**attrs, "fail": "snapshot-count"}, {**det, "got": len(snaps)})
                continue
            objs = {0: q, 1: snaps[0].open(), 2: snaps[1].open()}
            for step in range(24):
                which = rng.randrange(3)
                b = builts[which]
                # the same few guest clusters are visited through every view in turn (first / second / last real cluster of an abstract one)
                o = rng.choice([0, rng.randrange(0, b.size), min(b.size - 1, (rng.randrange(8) * K + rng.choice([0, 0, 1, K - 1])) * cs + rng.choice([0, 0, 512]))])
                n = rng.choice([1, 512, 4096, 9000, min(b.size, 1 << 20), cs, 2 * cs])
                exp = disk.expected(views[which], o, n, b)
                objs[which].seek(o)
                got = objs[which].read(n)
                nt = True
                ctx.case(key=("snap", k, step, which, o, n), nontrivial=nt,
                         sample={"realisation": "qcow2-snapshot", "view": which, "read": [o, n]} if step == 0 and k == 0 else None)
                if got != exp:
                    ctx.violation({**attrs, "fail": "read-mismatch", "view": which, "order": order},
                                  {**det, "order": order, "step": step, "view": which, "read": [o, n], "diff": disk.first_diff(exp, got)})
                    break
        except Exception as e:  # noqa: BLE001
            ctx.violation({**attrs, "fail": "raised", "exc": type(e).__name__}, {**det, "error": repr(e)[:300], "tb": traceback.format_exc()[-1200:]})


# ---------------------------------------------------------------- parent resolution configurations (MissingParentRejected, FirstCandidateUsed)
def _which_parent(buf):
    t = patterns.decode_cell(buf[:512], 512)
    if t[0] == "Z":
        return 0
    if t[0] == "D":
        return t[1]  # pattern file id: candidate k has id k
    return -1


def _mk_parent_vhdx(path, fid, bs=1 << 20):
    vf, _ = enc_vhdx.build([(enc_vhdx.ST_FULL, 0)], block_size=bs, sector_size=512, disk_size=bs, file_id=fid)
    os.makedirs(os.path.dirname(path), exist_ok=True)
    vf.materialise(path)


VIAS = ("path", "str", "named-handle", "anon-bytesio", "anon-buffered")


def _hand_over(path, via, keep):
    """The child image as the caller passes it: a Path, a str, an open file (has .name), or an anonymous stream."""
    import io
    if via == "path":
        return Path(path)
    if via == "str":
        return str(path)
    if via == "named-handle":
        fh = open(path, "rb")  # noqa: SIM115
        keep.append(fh)
        return fh
    data = open(path, "rb").read()
    return io.BytesIO(data) if via == "anon-bytesio" else io.BufferedReader(io.BytesIO(data))


def res_vhdx(fs, work, via="path"):
    from dissect.hypervisor.disk.vhdx import VHDX

    d = tempfile.mkdtemp(prefix="res-vhdx-", dir=work)
    d2 = tempfile.mkdtemp(prefix="res-vhdx-abs-", dir=work)
    # the child lives in d/child; the relative entry names a sub-directory of it or a sibling directory ("..\\")
    sib = via in ("str", "named-handle", "anon-buffered")
    rel_dir = os.path.join(d, "sibling dir") if sib else os.path.join(d, "child", "rel dir")
    if fs[0]:
        _mk_parent_vhdx(os.path.join(rel_dir, "parent.vhdx"), 1)
        if sib:   # a stale copy below the child's own directory must not be picked up instead
            _mk_parent_vhdx(os.path.join(d, "child", "sibling dir", "parent.vhdx"), 7)
    if fs[1]:
        _mk_parent_vhdx(os.path.join(d2, "parent.vhdx"), 2)
    loc = {"parent_linkage": "{11111111-2222-3333-4444-555555555555}", "relative_path": ("..\\sibling dir\\parent.vhdx" if sib else ".\\rel dir\\parent.vhdx"),
           "absolute_win32_path": (d2.lstrip("/") + "/parent.vhdx").replace("/", "\\")}
    vf, _ = enc_vhdx.build([(enc_vhdx.ST_NOT_PRESENT, None)], block_size=1 << 20, sector_size=512, disk_size=1 << 20, has_parent=True, locator=loc, file_id=9)
    os.makedirs(os.path.join(d, "child"), exist_ok=True)
    vf.materialise(os.path.join(d, "child", "child.avhdx"))
    keep = []
    try:
        v = VHDX(_hand_over(os.path.join(d, "child", "child.avhdx"), via, keep))
        return _which_parent(v.read(512))
    finally:
        for fh in keep:
            fh.close()


def res_vmdk_embedded(fs, work, via="path"):
    """A monolithic sparse delta whose embedded descriptor names the parent (parentCID set, parentFileNameHint)."""
    from dissect.hypervisor.disk.vmdk import VMDK

    root = tempfile.mkdtemp(prefix="res-vmdke-", dir=work)
    cdir, sdir = os.path.join(root, "child"), os.path.join(root, "base vm")
    os.makedirs(cdir)
    os.makedirs(sdir)
    for k, where in ((0, cdir), (1, sdir)):
        if fs[k]:
            vf, _ = enc_vmdk.build_hosted([("D", 1)], [True], capacity=8, grain=8, gtes=4, file_id=k + 1,
                                          desc=enc_vmdk.descriptor_text(['RW 8 SPARSE "parent.vmdk"']))
            vf.materialise(os.path.join(where, "parent.vmdk"))
    vf, _ = enc_vmdk.build_hosted([("U", 0)], [True], capacity=8, grain=8, gtes=4, file_id=9,
                                  desc=enc_vmdk.descriptor_text(['RW 8 SPARSE "delta.vmdk"'], parent_cid="1234abcd", parent_hint="C:\\vms\\base vm\\parent.vmdk"))
    vf.materialise(os.path.join(cdir, "delta.vmdk"))
    keep = []
    try:
        v = VMDK(_hand_over(os.path.join(cdir, "delta.vmdk"), via, keep))
        return _which_parent(v.read(512))
    finally:
        for fh in keep:
            fh.close()


def res_vmdk(fs, work):
    from dissect.hypervisor.disk.vmdk import VMDK

    root = tempfile.mkdtemp(prefix="res-vmdk-", dir=work)
    cdir, sdir = os.path.join(root, "child"), os.path.join(root, "base vm")
    os.makedirs(cdir)
    os.makedirs(sdir)

    def mk_parent(where, fid):
        vf, _ = enc_vmdk.build_hosted([("D", 1)], [True], capacity=8, grain=8, gtes=4, file_id=fid,
                                      desc=enc_vmdk.descriptor_text(['RW 8 SPARSE "parent.vmdk"']))
        vf.materialise(os.path.join(where, "parent.vmdk"))

    if fs[0]:
        mk_parent(cdir, 1)
    if fs[1]:
        mk_parent(sdir, 2)
    vf, _ = enc_vmdk.build_hosted([("U", 0)], [True], capacity=8, grain=8, gtes=4, file_id=9)
    vf.materialise(os.path.join(cdir, "child-s001.vmdk"))
    with open(os.path.join(cdir, "child.vmdk"), "w") as f:
        f.write(enc_vmdk.descriptor_text(['RW 8 SPARSE "child-s001.vmdk"'], parent_cid="1234abcd", parent_hint="C:\\vms\\base vm\\parent.vmdk"))
    v = VMDK(Path(cdir) / "child.vmdk")
    return _which_parent(v.read(512))


def res_hdd(fs, work):
    from dissect.hypervisor.disk.hdd import HDD

    top = tempfile.mkdtemp(prefix="res-hdd-", dir=work)
    root = os.path.join(top, "cur.pvm", "cur.hdd")
    os.makedirs(root)
    cs = 4096
    # the descriptor names the base image by an absolute path: that file itself if it exists, then the places a moved copy may be in
    absent = os.path.join(top, "elsewhere", "orig.pvm", "orig.hdd", "base.hds")
    cands = [absent, os.path.join(root, "base.hds"), os.path.join(top, "cur.pvm", "orig.hdd", "base.hds"), os.path.join(top, "orig.pvm", "orig.hdd", "base.hds")]
    for k, (ex, p) in enumerate(zip(fs, cands)):
        if ex:
            os.makedirs(os.path.dirname(p), exist_ok=True)
            vf, _ = enc_hds.build({"ver": 2, "n": 1, "cb": 1, "bat": {0: 1}, "size": 1}, cluster_size=cs, file_id=k + 1, P=2)
            vf.materialise(p)
    tvf, _ = enc_hds.build({"ver": 2, "n": 1, "cb": 1, "bat": {0: 0}, "size": 1}, cluster_size=cs, file_id=9, P=2)
    g0, g1 = enc_hds.DEFAULT_TOP, "{aaaaaaaa-1111-2222-3333-444444444444}"
    enc_hds.write_hdd_dir(root, [(0, cs // 512, [(g1, "Compressed", absent), (g0, "Compressed", "top.hds")])],
                          [(g0, g1), (g1, enc_hds.NULL_GUID)], {"top.hds": tvf}, top_guid=g0)
    s = HDD(Path(root)).open()
    return _which_parent(s.read(512))


def res_qcow2(fs, opt_out):
    from dissect.hypervisor.disk import qcow2 as q

    cb = 9
    img = {"ext": False, "datafile": False, "l2n": 64, "s": 1, "l1": {0: True}, "l2": {0: {"t": "U", "h": 0, "sub": []}}, "back": 1, "size": 1}
    vf, _, info = enc_qcow2.build(img, cluster_bits=cb, K=1)
    backing = disk.ParentStream(512, f=1) if fs[0] else (q.ALLOW_NO_BACKING_FILE if opt_out else None)
    obj = q.QCow2(vf, backing_file=backing)
    return _which_parent(obj.read(512))


def resolution(ctx, thorough):
    sts = [s for s in diskprop.dump_states(ctx, "Layers", "Layers_res.cfg") if s["phase"] != "closed" and s["last"]["op"] == "open" and len(s["chain"]) == 2]
    seen = set()
    work = tempfile.mkdtemp(prefix="verif-c07r-")
    try:
        for st in sts:
            fs = list(st["fs"]) if isinstance(st["fs"], list) else [st["fs"][k] for k in (1, 2, 3, 4)]
            key = (tuple(fs), st["optOut"])
            if key in seen:
                continue
            seen.add(key)
            for fmt, ncand, fn in (("vhdx", 2, res_vhdx), ("vmdk", 2, res_vmdk), ("hdd", 4, res_hdd), ("qcow2", 1, None)):
                if fmt != "qcow2" and st["optOut"]:
                    continue  # only QCOW2 has an explicit opt-out
                f = fs[:ncand]
                first = next((k + 1 for k, x in enumerate(f) if x), 0)
                if first == 0 and not st["optOut"]:
                    want = "rejected"
                else:
                    want = first
                ctx.case(key=("res", fmt, tuple(f), st["optOut"]), nontrivial=True,
                         sample={"resolution": fmt, "fs": f, "optOut": st["optOut"], "spec_phase": st["phase"], "want": want} if fmt == "hdd" and first == 2 else None)
                try:
                    got = fn(f, work) if fn else res_qcow2(f, st["optOut"])
                except Exception as e:  # noqa: BLE001
                    got = "rejected"
                    err = repr(e)[:200]
                if got != want:
                    ctx.violation({"format": fmt, "fail": "resolution", "realisation": "resolution"},
                                  {"format": fmt, "fs": f, "optOut": st["optOut"], "want": want, "got": got})
            # the same configurations with the child handed over in every way a caller can: without a location (anonymous
            # stream) no candidate exists, so the open must fail; with one the first existing candidate is used
            if not st["optOut"]:
                for fmt, fn in (("vhdx", res_vhdx), ("vmdk-embedded", res_vmdk_embedded)):
                    for via in VIAS:
                        f = fs[:2]
                        first = next((k + 1 for k, x in enumerate(f) if x), 0)
                        want = "rejected" if (first == 0 or via.startswith("anon")) else first
                        ctx.case(key=("res-via", fmt, tuple(f), via), nontrivial=True)
                        try:
                            got = fn(f, work, via)
                        except Exception:  # noqa: BLE001
                            got = "rejected"
                        if got != want:
                            ctx.violation({"format": fmt, "fail": "resolution", "realisation": "resolution", "via": via},
                                          {"format": fmt, "fs": f, "via": via, "want": want, "got": got})
        # a Parallels storage that holds no image for an ancestor the snapshot chain names: that layer cannot be resolved
        from dissect.hypervisor.disk.hdd import HDD
        for depth in (1, 2):
            d = tempfile.mkdtemp(prefix="res-hddx-", dir=work) + ".hdd"
            g = [enc_hds.DEFAULT_TOP, "{11111111-aaaa-bbbb-cccc-000000000001}", "{22222222-aaaa-bbbb-cccc-000000000002}"]
            files = {}
            for k, nm in enumerate(("a.hds", "m.hds", "b.hds")):
                files[nm], _ = enc_hds.build({"ver": 2, "n": 1, "cb": 1, "bat": {0: 0 if k < 2 else 1}, "size": 1}, cluster_size=4096, P=2, file_id=k + 1)
            images = [(g[k], "Compressed", nm) for k, nm in enumerate(("a.hds", "m.hds", "b.hds")) if k != depth]
            enc_hds.write_hdd_dir(d, [(0, 8, images)], [(g[0], g[1]), (g[1], g[2]), (g[2], enc_hds.NULL_GUID)], files, top_guid=g[0])
            ctx.case(key=("res", "hdd", "ancestor-image-missing", depth), nontrivial=True)
            try:
                got = _which_parent(HDD(Path(d)).open().read(512))
            except Exception:  # noqa: BLE001
                got = "rejected"
            if got != "rejected":
                ctx.violation({"format": "hdd", "fail": "resolution", "realisation": "resolution", "sub": "ancestor-image-missing"},
                              {"format": "hdd", "missing_depth": depth, "want": "rejected", "got": got})
    finally:
        shutil.rmtree(work, ignore_errors=True)
