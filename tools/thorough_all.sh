#!/bin/sh
# run the thorough tier of every check (or of those named on the command line, in that order) on the unchanged tree
cd "$(dirname "$0")/.."
mkdir -p ev_thorough
for p in ${@:-C09 C12 C15 C16 C17 C19 C11 C13 C14 C18 C20 C10 C04 C05 C06 C03 C02 C08 C07 C01}; do
  echo "=== $p"
  t0=$(date +%s)
  VERIF_EVIDENCE_DIR=./ev_thorough VERIF_REPLAY_DIR=./ev_thorough timeout 7200 ./check $p --tier thorough > ev_thorough/$p.out 2>&1
  rc=$?
  tail -3 ev_thorough/$p.out | cut -c1-400
  echo "rc=$rc secs=$(( $(date +%s) - t0 ))"
done
