#!/venv/bin/python
"""Regenerate MANIFEST.json from the table below (single source of truth for the interface)."""
import json
import os

ROOT = os.path.dirname(os.path.dirname(os.path.abspath(__file__)))

CHECKS = {
    "C09": dict(
        cat="other", engine="Effects",
        text="spec/Effects.tla is a trace specification with an action only for allowed effects (read-only OS opens, read-side methods on "
             "caller handles, read-only or private-buffer call sites, unchanged evidence directory, the CLI's single writer); TLC validates "
             "three event streams against it: sys.addaudithook events plus before/after content hashes during path-based workloads (VHDX "
             "chains, VMDK descriptors with every extent type and access mode and a parent, Parallels HDD directories, vmtar by path, the "
             "envelope CLI succeeding and failing), method logs of writable-claiming caller handles for every handle-based parser (incl. a "
             "Hyper-V file with a dirty replay log), and an AST inventory of every open / mutating call site of the package.",
        note="TLA+ does not analyse code: the AST pass is an event source and the specification judges events; dynamic coverage is the listed "
             "workloads, other paths are covered by the call-site inventory only",
        technique="TLA+ trace specification of allowed effects; TLC validation of audit-hook, handle-method and AST call-site event streams",
        design="5/C09"),
    "C13": dict(
        cat="model_checking", engine="IoCost",
        text="spec/IoCost.tla models a reader with a table cache (header once, tables covering the request at most once while cached, data "
             "for the request plus buffer slack) with the invariant CostBound checked by TLC, and judges recorded I/O logs (RunOK); multi-"
             "terabyte images on sparse virtual files (QCOW2 64 TiB with tables beyond 2^41 and data near 2^54, SE-sparse 20 TiB with grains "
             "beyond sector 2^36, hosted VMDK > 2^32 sectors, VHDX 64 TiB with MB offsets near 2^38, VHD at the 32-bit sector limit, VDI "
             "2 TiB, HDS 1-4 TiB) are opened and read at extreme offsets: content is compared byte for byte and the logs of every read of "
             "the backing file are validated by TLC against the bound and against a densely allocated twin.",
        note="Meta counts all mapping tables (eager metadata loading is allowed by the property), so the bound is weak for formats that "
             "load a whole table at open; Align is the default 8 KiB buffer",
        technique="TLA+ cost model + TLC; I/O logs of multi-terabyte virtual images validated by TLC, content replay at extreme offsets",
        design="5/C13"),
    "C12": dict(
        cat="model_checking", engine="Gates",
        text="spec/Gates.tla models every parser's open sequence as a chain of gates in code order and TLC checks AcceptImpliesSupported, "
             "RejectBeforeServe and RejectNamesFirstBadGate over all feature vectors with at most two bad gates (10 parsers); every vector "
             "is realised on an otherwise valid encoder output and opened by the real parser; every single-gate fault is expanded to every "
             "concrete value of its class (all single-bit flips of each magic, version / geometry / method values, image types, cipher "
             "names, keystore modes, locator kinds); the all-ok vector must open and serve data.",
        note="any exception from the constructor/open call counts as refusal; one model gate per code gate named in the property",
        technique="TLA+ gate-chain spec + TLC enumeration of fault vectors, replay of concrete faulty inputs into the parsers",
        design="5/C12"),
    "C14": dict(
        cat="model_checking", engine="Meta",
        text="spec/Meta.tla models the byte layouts of QCOW2 header extensions and of the snapshot table (padding, variable-size extra "
             "data, strings) with a transcription of the parser's walks (ExposedEqualsStored) and structures stored twice with sequence "
             "numbers (HighestSeqWins); every enumerated record list is encoded into real QCOW2/VHDX files and the exposed attributes "
             "compared; for every format stored values of every exposed field (sizes, units, ids, UTF-16 locator entries, descriptor "
             "key/values and extent lines, Parallels storages/images/snapshots) are recorded with the exposed values and judged by TLC.",
        note="normalised fields (QCOW2 backing format is upper-cased) are compared case-insensitively; values cross to TLC as text",
        technique="TLA+ layout spec + TLC enumeration replayed into the readers, recorded metadata facts validated by TLC",
        design="5/C14"),
    "C11": dict(
        cat="fault_enumeration", engine="Fault",
        text="spec/Progress.tla models the reference walks (Parallels snapshot chain, Hyper-V object-table discovery) one action per loop "
             "iteration and TLC checks Termination (liveness under weak fairness) and Bounded for all parent functions / reference sets; "
             "spec/Fault.tla defines the fault catalogue (13 input kinds x listed fields x 9 value classes, truncations at every structure "
             "boundary, cycles, inflate bombs, empty/random input) and the linear resource bound; TLC enumerates the catalogue, every entry "
             "is applied to a valid encoder output and run in a supervised worker (deadline, address-space limit), and every recorded run "
             "is judged by TLC against Fault!Bounded.",
        note="'all byte strings' is approached by classes, not enumerated; the bounds are deliberately loose; PBKDF2 iteration counts "
             "from the input are outside the bound",
        technique="TLA+ liveness model of reference walks + TLC-enumerated fault catalogue replayed under a watchdog, runs validated by TLC",
        design="5/C11"),
    "C15": dict(
        cat="model_checking", engine="VmxCrypto",
        text="spec/VmxCrypto.tla models the unlock protocol with symbolic cryptography (locator fall-through, decrypt, verify, commit) and "
             "TLC checks RoundTrip, FailLeavesAttr, CommitOnlyIfVerified and FailsWhenItMust; every terminal state is realised as a real "
             "bundle (AES-CBC/PKCS#7, HMAC, PBKDF2 via pycryptodome/hashlib) with random algorithms, rounds, salts and content lengths and "
             "unlocked by the real VMX class; all 18 algorithm triples x content lengths round-trip; every byte of encryption.data is "
             "altered in turn; the committed sample is unlocked.",
        note="bit-level AES/HMAC correctness is the crypto libraries'; the specification decides ordering, fall-through and atomicity",
        technique="TLA+ protocol spec (symbolic crypto) + TLC, replay of terminal states as real encrypted bundles",
        design="5/C15"),
    "C16": dict(
        cat="model_checking", engine="Envelope",
        text="spec/Envelope.tla models ParseHeader -> KeyHashGate -> Decrypt/VerifyTag -> Return|Fail with symbolic cryptography and TLC "
             "checks RoundTrip, NoPlaintextOnFailure, AuthFailsClosed; every terminal state (payload length class, extra attributes, "
             "sealed AAD, 12 tamper sites, given key/AAD) is realised as a real AES-256-GCM envelope (attribute sets of every type and "
             "order, explicit padding) and decrypted by the real Envelope; the CLI runs in-process on temp files; keystore texts in "
             "several styles derive keys via the real KeyStore; the committed pair is decrypted and re-sealed.",
        note="the reader authenticates a re-serialised header: zero padding, the unused size field and reserved record bytes are outside "
             "the property's wording and are not asserted",
        technique="TLA+ protocol spec (symbolic crypto) + TLC, replay of terminal states as real envelopes and CLI runs",
        design="5/C16"),
    "C17": dict(
        cat="model_checking", engine="HyperV",
        text="spec/HyperV.tla defines the stored tree, its distribution over key tables, stale lower-sequence copies, free entries and "
             "header sequence numbers, and the decoder (highest sequence wins, free ignored, parents resolved in the active copy); TLC "
             "checks DecodedEqualsStored and HighestSeqWins for all 13k file descriptions of 3 nodes; each is written as a real file with "
             "values of all seven types (extreme integers, non-BMP strings, >= 0x800-byte values in file objects, long UTF-8 keys) and "
             "decoded by the real HyperVFile; the two committed samples are decoded, re-encoded and decoded again.",
        note="values are compared in Python, structure by the TLA+ decoder; <= 3 nodes exhaustively, fixtures give real-size trees",
        technique="TLA+ spec + TLC exhaustive enumeration of file descriptions, replay of encoded files into the reader",
        design="5/C17"),
    "C18": dict(
        cat="model_checking", engine="VmConfig",
        text="spec/VmConfig.tla defines, for VMX device sets, OVF reference graphs, VirtualBox media registries and PVS hardware lists, "
             "the exact disk list; TLC enumerates every configuration in the small scope and each is rendered in several textual styles "
             "(casing, quoting, order, comments, CRLF, duplicate keys, namespace prefixes, identifier alphabets, noise devices) and parsed "
             "by the real classes; the reported list must equal the specification's.",
        note="trusts TLC and the independent renderers; <= 2-3 devices per configuration; 'hard disk' for OVF/VBox is the filter named in "
             "the property's mechanisms",
        technique="TLA+ spec + TLC exhaustive enumeration of configurations, replay of rendered configurations into the parsers",
        design="5/C18"),
    "C19": dict(
        cat="fault_enumeration", engine="XmlGuard",
        text="spec/XmlGuard.tla is the truth table (entity declarations refused, nothing fetched, benign documents parse) over all entry "
             "points and feature subsets; TLC enumerates its 512 states and each is rendered as a hostile/benign real document (nested "
             "entity bombs, file:/http: external entities, parameter entities, external DTD subsets; attribute/text use, late DOCTYPE, "
             "UTF-16/Latin-1 descriptor files) and fed to the real entry point under an audit hook and a watchdog.",
        note="the model is a small truth table; the substance is the hostile-document replay; defusedxml is the trusted mechanism",
        technique="TLA+ truth-table spec + TLC enumeration, hostile-document replay under audit hook and watchdog",
        design="5/C19"),
    "C20": dict(
        cat="model_checking", engine="Vmtar",
        text="spec/Vmtar.tla models the archive layout (headers, inline data, data area) and the reader's cursor rule and TLC checks "
             "AllListed / NeverLost for all member lists in the small scope; every enumerated member list is written by an independent "
             "tar writer in several layouts (alignments, gaps, long names/prefixes, nested-tar content, trailing padding, offsets beyond "
             "2 GiB), plain and gzip-wrapped, and listing + extraction through vmtar.open / VisorTarFile are compared with the stored "
             "bytes; non-visor archives are compared with the stock tarfile reader; the committed sample is re-encoded and re-read.",
        note="trusts TLC, the independent header writer and CPython's tarfile as the standard reader; <= 3-4 members",
        technique="TLA+ spec + TLC exhaustive enumeration of member lists, replay of encoded archives into the reader",
        design="5/C20"),
    "C10": dict(
        cat="model_checking", engine="Extents",
        text="spec/Extents.tla states Concatenation, SizeIsSum and NoneDropped for extent lists and TLC checks a transcription of "
             "VMDK.__init__'s offset bookkeeping and read_sectors' bisect walk against them; every enumerated extent list is realised as "
             "a descriptor plus extent files on disk (FLAT/VMFS raw, SPARSE hosted, VMFSSPARSE COWD, SESPARSE; names with spaces, "
             "unicode, emoji), as an explicit handle list, and as Parallels storages (plain/expanding, shuffled), and every request "
             "incl. extent-straddling and disk-tail ones is replayed through read() and read_sectors().",
        note="trusts TLC, the extent encoders (C02/C06) and the pattern codec; <= 3 extents of <= 3 cells; ZERO extents and flat start "
             "offsets are outside the property's wording",
        technique="TLA+ spec + TLC exhaustive enumeration of extent lists, replay into the real readers on disk",
        design="5/C10"),
    "C07": dict(
        cat="model_checking", engine="Layers",
        text="spec/Layers.tla states the overlay semantics (TopmostWins), MissingParentRejected and FirstCandidateUsed and TLC checks a "
             "recursive read-through-the-chain against them for all chains up to depth 3; Vhdx.tla differencing images and "
             "VhdxPartial.tla (transcription of the bitmap fetch and _iter_partial_runs) cover partially-present blocks. Every "
             "enumerated chain is realised for VDI, QCOW2 (std/ext L2), HDS, Parallels HDD (on disk), VMDK descriptor+delta (on disk) "
             "and VHDX differencing (on disk) and replayed; random real-geometry chains (per-sector / per-sub-cluster bitmaps) are "
             "trace-validated by TLC (TraceDisk!ChainSrc); QCOW2 internal snapshots and all parent-resolution configurations are replayed.",
        note="trusts TLC, the encoders and the pattern codec; VHDX base layers are block-granular; chain depth <= 4",
        technique="TLA+ spec + TLC exhaustive enumeration of chains, replay into real layered readers, TLC trace validation",
        design="5/C07"),
    "C08": dict(
        cat="model_checking", engine="Stream",
        text="spec/Stream.tla models the buffered layer over an abstract back-end contract and TLC checks ReadCorrect / PosAdvance / "
             "BufCoherent for every history up to depth 3-4 (and by simulation to depth 40); simulated histories are replayed on all six "
             "stream classes over TLC-enumerated images with the buffer below/at/above the allocation unit; long random histories on "
             "cache-overflowing images at five buffer sizes are recorded from the real objects and validated by TLC (TraceDisk); the "
             "back-end calls are checked against the contract; DISSECT_STREAM_BUFFER_SIZE is exercised in subprocesses.",
        note="trusts TLC, encoders, pattern codec; AlignedStream is an external dependency that is modelled and observed, not repaired; "
             "VHDX > 4096-entry BAT cache overflow is compared in Python (byte offsets exceed TLC integers)",
        technique="TLA+ spec of the buffered stream + TLC exhaustive/simulated histories replayed into the readers + TLC trace validation",
        design="5/C08"),
    "C01": dict(
        cat="model_checking", engine="Qcow2",
        text="spec/Qcow2.tla defines the QCOW2 guest view from qcow2.txt; TLC checks an implementation-shaped transcription of the "
             "reader's run-building loop against it for every image/request in the small scope; every enumerated image is encoded "
             "independently and replayed on the real reader at several concretisations (direction A: cluster bits 9..21 by scale embedding, v2/v3 headers, extended L2, data file, short backing, compressed clusters, host offsets up to 2^55); recorded traces of "
             "random operation sequences on random real-geometry images are validated by TLC against TraceDisk (direction B).",
        note="trusts TLC, the independent encoder (harness/enc_*.py, written from the format specification) and the location-coded "
             "pattern codec; exhaustive only within the stated constants; bit-level layout covered by concretisation sweeps",
        technique="TLA+ spec + TLC exhaustive enumeration, replay of TLC states into the real reader, TLC trace validation",
        design="5/C01"),
    "C02": dict(
        cat="model_checking", engine="Vmdk",
        text="spec/Vmdk.tla defines the VMDK sparse-extent guest view from the VMDK 5.0 specification / libvmdk / qemu vmdk.c; TLC checks an implementation-shaped transcription of the "
             "reader's run-building loop against it for every image/request in the small scope; every enumerated image is encoded "
             "independently and replayed on the real reader at several concretisations (direction A: hosted header/footer GD, stream-optimised, COWD, SE-sparse, flat; real table sizes by scale embedding); recorded traces of "
             "random operation sequences on random real-geometry images are validated by TLC against TraceDisk (direction B).",
        note="trusts TLC, the independent encoder (harness/enc_*.py, written from the format specification) and the location-coded "
             "pattern codec; exhaustive only within the stated constants; bit-level layout covered by concretisation sweeps",
        technique="TLA+ spec + TLC exhaustive enumeration, replay of TLC states into the real reader, TLC trace validation",
        design="5/C02"),
    "C03": dict(
        cat="model_checking", engine="Vhdx",
        text="spec/Vhdx.tla defines the VHDX guest view from [MS-VHDX]; TLC checks an implementation-shaped transcription of the "
             "reader's run-building loop against it for every image/request in the small scope; every enumerated image is encoded "
             "independently and replayed on the real reader at several concretisations (direction A: block sizes 1..256 MiB, 512/4096-byte sectors, chunk ratios 16..4096 with interleaved sector-bitmap entries, MB offsets up to the 44-bit limit); recorded traces of "
             "random operation sequences on random real-geometry images are validated by TLC against TraceDisk (direction B).",
        note="trusts TLC, the independent encoder (harness/enc_*.py, written from the format specification) and the location-coded "
             "pattern codec; exhaustive only within the stated constants; bit-level layout covered by concretisation sweeps",
        technique="TLA+ spec + TLC exhaustive enumeration, replay of TLC states into the real reader, TLC trace validation",
        design="5/C03"),
    "C04": dict(
        cat="model_checking", engine="Vhd",
        text="spec/Vhd.tla defines the VHD guest view from the VHD 1.0 specification; TLC checks an implementation-shaped transcription of the "
             "reader's run-building loop against it for every image/request in the small scope; every enumerated image is encoded "
             "independently and replayed on the real reader at several concretisations (direction A: fixed/dynamic, block sizes 1 KiB..16 MiB (1/2/8 bitmap sectors), 511-byte footer, sizes not a block multiple); recorded traces of "
             "random operation sequences on random real-geometry images are validated by TLC against TraceDisk (direction B).",
        note="trusts TLC, the independent encoder (harness/enc_*.py, written from the format specification) and the location-coded "
             "pattern codec; exhaustive only within the stated constants; bit-level layout covered by concretisation sweeps",
        technique="TLA+ spec + TLC exhaustive enumeration, replay of TLC states into the real reader, TLC trace validation",
        design="5/C04"),
    "C06": dict(
        cat="model_checking", engine="Hds",
        text="spec/Hds.tla defines the Parallels HDS/HDD guest view from parallels.txt / prl-xml.txt; TLC checks an implementation-shaped transcription of the "
             "reader's run-building loop against it for every image/request in the small scope; every enumerated image is encoded "
             "independently and replayed on the real reader at several concretisations (direction A: v1 sector-granular and v2 cluster entries, cluster sizes 1 KiB..8 MiB, through HDS(fh) and HDD(path).open(), plain images); recorded traces of "
             "random operation sequences on random real-geometry images are validated by TLC against TraceDisk (direction B).",
        note="trusts TLC, the independent encoder (harness/enc_*.py, written from the format specification) and the location-coded "
             "pattern codec; exhaustive only within the stated constants; bit-level layout covered by concretisation sweeps",
        technique="TLA+ spec + TLC exhaustive enumeration, replay of TLC states into the real reader, TLC trace validation",
        design="5/C06"),
    "C05": dict(
        cat="model_checking", engine="Vdi",
        text="spec/Vdi.tla defines the VDI guest view from VDICore.h; TLC checks a transcription of VDI._read against it for "
             "every block map/placement/request in the small scope, every enumerated image is encoded independently and "
             "replayed on the real VDI class at several block sizes (direction A), and recorded traces of random operation "
             "sequences on random real-geometry images are validated by TLC against TraceVdi (direction B).",
        note="trusts TLC, the independent encoder harness/enc_vdi.py (VDICore.h layout) and the location-coded pattern codec; "
             "exhaustive only within the stated constants (3-4 blocks); bit-level layout covered by concretisation sweeps",
        technique="TLA+ spec + TLC exhaustive enumeration, replay of TLC states into the real reader, TLC trace validation",
        design="5/C05"),
}

PENDING_REASON = "check not built yet in this round (planned, see DESIGN.md section 5); not claimed until it exists"


def main():
    props = [json.loads(l) for l in open(os.path.join(ROOT, "properties.jsonl"))]
    checks = []
    for pid, c in sorted(CHECKS.items()):
        checks.append({
            "property_id": pid,
            "quick_cmd": f"./check {pid} --tier quick",
            "thorough_cmd": f"./check {pid} --tier thorough",
            "evidence_file": f"/verif/evidence/{pid}.json",
            "replay_cmd_template": f"./check {pid} --replay {{path}}",
            "engine": c["engine"],
            "level_claimed": {"category": c["cat"], "text": c["text"], "design_ref": c["design"]},
            "level_note": c["note"],
            "technique": c["technique"],
        })
    na = [{"property_id": p["id"], "reason": NA.get(p["id"], PENDING_REASON)} for p in props if p["id"] not in CHECKS]
    man = {
        "version": 1,
        "setup_cmd": "./setup.sh",
        "hooks": {
            "guard": "DISSECT_HYPERVISOR_VERIF",
            "enable": "no source hooks are needed: recorders are external (VirtualFile I/O log, sys.addaudithook, instance wrappers); "
                      "checks import the package from /repo's working tree (VERIF_REPO overrides)",
            "baseline_off_cmd": "cd /repo && /venv/bin/python -m pytest -ra -q -p no:cacheprovider --timeout=900 --continue-on-collection-errors",
            "source_commits": [],
            "add_only": True,
        },
        "engines": ENGINES,
        "checks": checks,
        "not_applicable": na,
        "notes": "One entry point: ./check <id> --tier quick|thorough [--replay FILE]; VERIF_SEED / VERIF_TIER honoured. "
                 "TLA+ modules in spec/, configs in spec/cfg/, harness in harness/, per-property drivers in props/. "
                 "known_findings.json lists fixed/known defects. Exit 2 = machinery failure.",
    }
    with open(os.path.join(ROOT, "MANIFEST.json"), "w") as f:
        json.dump(man, f, indent=1)
    print(f"MANIFEST.json: {len(checks)} checks, {len(na)} not_applicable")


NA = {}
ENGINES = [
    {"name": "tlc", "path": "spec/", "serves_properties": sorted(CHECKS), "kind_free_text": "TLA+ modules checked by TLC 1.8 (exhaustive, simulate, trace validation)"},
    {"name": "harness", "path": "harness/", "serves_properties": sorted(CHECKS), "kind_free_text": "Python conformance harness: independent encoders, virtual files, replay of TLC states, trace recorders"},
]

if __name__ == "__main__":
    main()
