#!/venv/bin/python
"""Markdown table of the seeded changes under /verif/seeded (from their meta.json)."""
import glob, json, os
rows = []
for p in sorted(glob.glob(os.path.join(os.path.dirname(os.path.dirname(os.path.abspath(__file__))), "seeded", "*", "meta.json"))):
    m = json.load(open(p))
    notes = (m.get("needs_to_manifest") or "").strip().splitlines()
    first = next((l.strip("# ").strip() for l in notes if l.strip() and not l.startswith("#")), "")[:150]
    det = ", ".join(f"{k}:{'caught' if v['detected'] else 'MISSED'}" + (f" ({'; '.join(list(v['violation_classes'])[:2])})" if v.get('violation_classes') else "") for k, v in m.get("checks", {}).items())
    if m.get("note"):
        det += " - " + m["note"]
    rows.append(f"| {m['name']} | {m['breaks_property']} | {'yes' if m.get('valid') else 'NO'} | {det} | {first} |")
print("| seeded change | property | verified (tests pass, demo fails/passes) | quick checks | what it needs to manifest |")
print("|---|---|---|---|---|")
print("\n".join(rows))
