#!/venv/bin/python
"""Summarise replay files: tools/viols.py C04 [n_examples]"""
import collections, glob, json, sys
pid = sys.argv[1]; nex = int(sys.argv[2]) if len(sys.argv) > 2 else 2
c = collections.Counter(); ex = {}
for p in sorted(glob.glob(f'/verif/replays/{pid}-*.json')):
    b = json.load(open(p)); a = b['attrs']
    k = tuple((x, a.get(x)) for x in ('fail','api','clause','exc','where','invariant','kind','block_size','format') if a.get(x) is not None)
    c[k] += 1; ex.setdefault(k, (p, b))
for k, v in c.most_common(): print(v, dict(k))
for k, (p, b) in list(ex.items())[:nex]:
    d = b['detail']; print('---', p); print(json.dumps(b['attrs'])[:400])
    print(json.dumps({x: d[x] for x in d if x not in ('tb', 'prefix', 'tail')})[:1400]); print((d.get('tb') or '')[-500:]); print((d.get('tail') or '')[-800:])
