#!/bin/sh
# run every quick check for the given seeds on the unchanged tree (evidence/replays redirected); report any non-zero exit
cd "$(dirname "$0")/.."
for seed in "$@"; do
  for p in C01 C02 C03 C04 C05 C06 C07 C08 C09 C10 C11 C12 C13 C14 C15 C16 C17 C18 C19 C20; do
    d=$(mktemp -d /tmp/sweep-XXXXXX)
    out=$(VERIF_SEED=$seed VERIF_EVIDENCE_DIR=$d VERIF_REPLAY_DIR=$d ./check $p --tier quick 2>&1); rc=$?
    echo "seed=$seed $p rc=$rc $(echo "$out" | tail -1)"
    if [ $rc -ne 0 ]; then mkdir -p /tmp/sweep-fail; cp -r $d /tmp/sweep-fail/$p-$seed; echo "$out" | tail -20 > /tmp/sweep-fail/$p-$seed.log; fi
    rm -rf $d
  done
done
