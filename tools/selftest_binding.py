#!/venv/bin/python
"""Demonstrate that the trace specifications bite: take real recorded traces, corrupt one field / drop one event,
and show that TLC rejects exactly the corrupted ones (and accepts the untouched ones)."""
import copy
import os
import random
import sys

ROOT = os.path.dirname(os.path.dirname(os.path.abspath(__file__)))
sys.path.insert(0, ROOT)
from harness import core, tracecheck  # noqa: E402

core.use_repo()
import props.c04 as c04  # noqa: E402
import props.c05 as c05  # noqa: E402
import props.c01 as c01  # noqa: E402


def main():
    rng = random.Random(1)
    traces = []
    expect = {}
    tid = 0
    for mod in (c05, c04, c01):
        for k in range(4):
            base = mod.make_trace(1000 + k, random.Random(k), 20)
            # untouched
            tid += 1
            t = copy.deepcopy(base)
            t["tid"] = tid
            traces.append(t)
            expect[tid] = "accept"
            reads = [i for i, e in enumerate(base["events"]) if e["e"] in ("read", "readinto") and e["len"] > 0 and e["runs"]]
            if not reads:
                continue
            # 1. one run's file offset shifted by one sector
            tid += 1
            t = copy.deepcopy(base)
            t["tid"] = tid
            i = rng.choice(reads)
            r = rng.choice([x for x in t["events"][i]["runs"]])
            if r["k"] == "Z":
                r["k"], r["f"], r["o"] = "D", 0, 4096
            else:
                r["o"] += 512
            traces.append(t)
            expect[tid] = "reject"
            # 2. one read event dropped (the position no longer adds up)
            tid += 1
            t = copy.deepcopy(base)
            t["tid"] = tid
            del t["events"][rng.choice(reads)]
            traces.append(t)
            expect[tid] = "reject-or-accept-if-peek"
            # 3. reported length one byte short
            tid += 1
            t = copy.deepcopy(base)
            t["tid"] = tid
            t["events"][rng.choice(reads)]["len"] -= 1
            traces.append(t)
            expect[tid] = "reject"
    verdicts, res = tracecheck.validate("TraceDisk", "TraceDisk.cfg", traces)
    bad = 0
    for t in traces:
        v = verdicts[t["tid"]]
        e = expect[t["tid"]]
        ok = (e == "accept" and v[0] == "accept") or (e == "reject" and v[0] == "reject") or e.startswith("reject-or")
        print(t["tid"], t["fmt"], e, "->", v)
        bad += 0 if ok else 1
    print("binding self-test:", "OK" if not bad else f"{bad} unexpected verdicts")
    return 1 if bad else 0


if __name__ == "__main__":
    sys.exit(main())
