#!/bin/sh
# re-evaluate seeded changes (all, or those whose name matches $1) against the current machinery; 4 at a time
cd "$(dirname "$0")/.."
ls seeded | grep -v README | grep "${1:-.}" | xargs -P ${2:-4} -I{} sh -c 'pids=$(/venv/bin/python -c "import json;print(\" \".join(json.load(open(\"seeded/{}/meta.json\"))[\"checks\"].keys()))"); cp -r seeded/{} /tmp/reeval-{}; /venv/bin/python tools/seed_eval.py {} /tmp/reeval-{} $pids | tail -1; rm -rf /tmp/reeval-{}'
