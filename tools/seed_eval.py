#!/venv/bin/python
"""Verify a seeded mutant and run checks against it.

  tools/seed_eval.py <name> <mutant_dir> <PID> [more PIDs...]   (mutant_dir holds patch.diff, demo.py, notes.md)

Creates a scratch worktree of /repo HEAD outside /repo and /verif, confirms: existing tests pass with the patch, demo fails
with the patch and passes without; runs `./check PID --tier quick` with VERIF_REPO pointing at the patched worktree
(evidence/replays redirected to a scratch dir), records everything in /verif/seeded/<name>/meta.json, removes the worktree."""
import json
import os
import shutil
import subprocess
import sys
import tempfile
import time

ROOT = os.path.dirname(os.path.dirname(os.path.abspath(__file__)))


def sh(cmd, cwd=None, env=None, timeout=3600):
    p = subprocess.run(cmd, cwd=cwd, env=env, capture_output=True, text=True, timeout=timeout)
    return p.returncode, p.stdout + p.stderr


def main():
    name, mdir, pids = sys.argv[1], sys.argv[2], sys.argv[3:]
    out = os.path.join(ROOT, "seeded", name)
    os.makedirs(out, exist_ok=True)
    wt = tempfile.mkdtemp(prefix="seedwt-")
    os.rmdir(wt)
    meta = {"name": name, "breaks_property": pids[0], "source": "independent sub-agent (given only the property text)", "at": time.strftime("%Y-%m-%dT%H:%M:%S")}
    try:
        old = json.load(open(os.path.join(out, "meta.json")))
        for k in ("note", "base_commit"):
            if k in old:
                meta[k] = old[k]
    except Exception:  # noqa: BLE001
        pass
    meta["evaluated_at_commit"] = sh(["git", "-C", "/repo", "log", "--format=%h", "-1"])[1].strip()
    rc, o = sh(["git", "-C", "/repo", "worktree", "add", "-q", "--detach", wt, "HEAD"])
    assert rc == 0, o
    try:
        env = dict(os.environ, PYTHONPATH=wt, PYTHONDONTWRITEBYTECODE="1")
        demo = os.path.join(mdir, "demo.py")
        rc0, o0 = sh(["/venv/bin/python", demo], cwd=wt, env=env, timeout=900)
        meta["demo_clean_exit"] = rc0
        rc, o = sh(["git", "apply", os.path.join(mdir, "patch.diff")], cwd=wt)
        if rc != 0:
            # later fix: commits moved the context: fall back to a 3-way merge, then to patch(1) with fuzz
            rc, o = sh(["git", "apply", "--3way", os.path.join(mdir, "patch.diff")], cwd=wt)
            if rc != 0:
                sh(["git", "checkout", "--", "."], cwd=wt)
                rc, o = sh(["patch", "-p1", "--fuzz=3", "-i", os.path.join(mdir, "patch.diff")], cwd=wt)
            meta["applied_with_fallback"] = rc == 0
        meta["patch_applies_to_head"] = rc == 0
        if rc != 0:
            meta["apply_error"] = o[-500:]
        else:
            rc, o = sh(["/venv/bin/python", "-m", "pytest", "-q", "-p", "no:cacheprovider", "tests"], cwd=wt, env=env, timeout=1200)
            meta["tests_with_patch"] = o.strip().splitlines()[-1] if o.strip() else ""
            meta["tests_pass_with_patch"] = rc == 0
            rc1, o1 = sh(["/venv/bin/python", demo], cwd=wt, env=env, timeout=900)
            meta["demo_patched_exit"] = rc1
            meta["demo_patched_output"] = o1[-600:]
            meta["valid"] = bool(rc0 == 0 and rc1 != 0 and meta["tests_pass_with_patch"])
            meta["checks"] = {}
            scratch = tempfile.mkdtemp(prefix="seedev-")
            for pid in pids:
                e2 = dict(os.environ, VERIF_REPO=wt, VERIF_EVIDENCE_DIR=scratch, VERIF_REPLAY_DIR=scratch)
                t0 = time.time()
                rc, o = sh([os.path.join(ROOT, "check"), pid, "--tier", "quick"], cwd=ROOT, env=e2, timeout=3600)
                nv = sum(1 for l in o.splitlines() if l.startswith("VIOLATION"))
                classes = {}
                for fn in os.listdir(scratch):
                    if fn.startswith(pid + "-"):
                        try:
                            a = json.load(open(os.path.join(scratch, fn)))["attrs"]
                            k = "/".join(str(a.get(x)) for x in ("fail", "api", "clause", "format") if a.get(x) is not None)
                            classes[k] = classes.get(k, 0) + 1
                        except Exception:  # noqa: BLE001
                            pass
                meta["checks"][pid] = {"cmd": f"VERIF_REPO=<patched worktree> ./check {pid} --tier quick", "exit": rc, "violation_lines": nv,
                                       "detected": rc == 1 and nv > 0, "wall_s": round(time.time() - t0, 1), "violation_classes": classes,
                                       "tail": o.strip().splitlines()[-1][:300] if o.strip() else ""}
            shutil.rmtree(scratch, ignore_errors=True)
        for fn in ("patch.diff", "demo.py", "notes.md"):
            if os.path.exists(os.path.join(mdir, fn)):
                shutil.copy(os.path.join(mdir, fn), os.path.join(out, fn))
        if os.path.exists(os.path.join(mdir, "notes.md")):
            meta["needs_to_manifest"] = open(os.path.join(mdir, "notes.md")).read()[:1500]
        meta["what_was_run"] = ["demo.py on clean worktree (expect exit 0)", "git apply patch.diff", "pytest tests (expect 47 passed)",
                                "demo.py on patched worktree (expect exit 1)"] + [f"./check {p} --tier quick against the patched worktree" for p in pids]
    finally:
        sh(["git", "-C", "/repo", "worktree", "remove", "--force", wt])
        shutil.rmtree(wt, ignore_errors=True)
    with open(os.path.join(out, "meta.json"), "w") as f:
        json.dump(meta, f, indent=1)
    det = {p: c["detected"] for p, c in meta.get("checks", {}).items()}
    print(name, "valid=", meta.get("valid"), "detected=", det)


if __name__ == "__main__":
    main()
