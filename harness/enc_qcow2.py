"""Independent QCOW2 encoder written from qemu's docs/interop/qcow2.txt (big-endian)."""
from __future__ import annotations

import struct
import zlib

from . import patterns
from .vfile import VirtualFile

MAGIC = 0x514649FB
COPIED = 1 << 63
COMPRESSED = 1 << 62
ZERO = 1
EXT_BACKING_FORMAT = 0xE2792ACA
EXT_FEATURE_TABLE = 0x6803F857
EXT_DATA_FILE = 0x44415441
INCOMPAT_DIRTY, INCOMPAT_CORRUPT, INCOMPAT_DATA_FILE, INCOMPAT_COMPRESSION, INCOMPAT_EXTL2 = 1, 2, 4, 8, 16


def ext_record(magic, data: bytes):
    return struct.pack(">II", magic, len(data)) + data + bytes((-len(data)) % 8)


def header(*, version, cluster_bits, size, l1_size, l1_offset, refcount_offset, backing_name=b"", backing_offset=0,
           incompat=0, compat=0, autoclear=0, refcount_order=4, header_length=104, compression_type=None, crypt=0,
           nb_snapshots=0, snapshots_offset=0, extensions=(), magic=MAGIC, end_marker=True, refcount_clusters=1):
    h = struct.pack(">IIQIIQIIQQIIQ", magic, version, backing_offset if backing_name else 0, len(backing_name), cluster_bits, size,
                    crypt, l1_size, l1_offset, refcount_offset, refcount_clusters, nb_snapshots, snapshots_offset)
    assert len(h) == 72
    if version >= 3:
        h += struct.pack(">QQQII", incompat, compat, autoclear, refcount_order, header_length)
        if header_length > 104:
            h += struct.pack(">B7x", compression_type or 0)
            h += bytes(header_length - 112)
        assert len(h) == header_length, (len(h), header_length)
    body = h
    for m, d in extensions:
        body += ext_record(m, d)
    if end_marker:
        body += struct.pack(">II", 0, 0)
    return body


class CompArea:
    """Lazily compressed clusters: real compressed cluster `cid` lives at byte base + cid*slot (+ skew)."""

    def __init__(self, base, slot, cluster_size, skew=37, level=6, csalt=0):
        self.base, self.slot, self.cs, self.skew, self.level, self.csalt = base, slot, cluster_size, skew, level, csalt
        self.cache = {}

    def stream(self, cid):
        b = self.cache.get(cid)
        if b is None:
            co = zlib.compressobj(self.level, zlib.DEFLATED, -12)
            b = co.compress(patterns.cpat(cid + self.csalt, 0, self.cs)) + co.flush()
            assert len(b) + self.skew <= self.slot, ("compressed cluster does not fit its slot", len(b), self.slot)
            if len(self.cache) > 64:
                self.cache.clear()
            self.cache[cid] = b
        return b

    def offset(self, cid):
        return self.base + cid * self.slot + self.skew

    def gen(self, off, n):
        out = []
        while n > 0:
            cid, o = divmod(off, self.slot)
            t = min(n, self.slot - o)
            blob = (bytes(self.skew) + self.stream(cid)).ljust(self.slot, b"\xAA")
            out.append(blob[o:o + t])
            off += t
            n -= t
        return b"".join(out)

    def descriptor(self, cid, cluster_bits, maximal=False):
        coff = self.offset(cid)
        shift = 62 - (cluster_bits - 8)
        mask = (1 << (cluster_bits - 8)) - 1
        if maximal:
            nb = mask + 1
        else:
            # bound by the slot, so that descriptors can be written without compressing anything
            nb = min(mask + 1, -(-((coff & 511) + self.slot - self.skew) // 512))
        assert 1 <= nb <= mask + 1 and coff < (1 << shift)
        return COMPRESSED | ((nb - 1) << shift) | coff


def build(img, *, cluster_bits, K=1, version=3, header_length=104, host_shift=0, l2_shift=0, copied=True, backing_name=None,
          comp_maximal=False, comp_base_cluster=None, file_id=0, data_fid=1, snapshots=(), extra_ext=(), name=None,
          incompat_extra=0, compression_type=None, crypt=0, size_bytes=None, reserved_l1_bits=0, l1_pad=0, lazy_desc=True,
          meta_base=2, snap_table=None, comp_level=6, want_extents=False, datafile_ext=True, backing_fmt_ext=True, end_marker=True, l1_garbage=False,
          hdr_extra=None, csalt=0):
    """img: abstract Qcow2 image {"ext","datafile","l2n","s","l1","l2","back","size"}; K real clusters per abstract
    cluster.  Returns (image VirtualFile, data VirtualFile|None, info)."""
    cs = 1 << cluster_bits
    ext = img["ext"]
    esz = 16 if ext else 8
    l2_real = cs // esz
    S = img["s"]
    l2n = img["l2n"]
    nl1 = len(img["l1"])
    nc = len(img["l2"])
    if ext:
        assert K == 1 and 32 % S == 0
    else:
        assert K * l2n == l2_real, (K, l2n, l2_real)
    cell = K * cs // S
    size_b = img["size"] * cell if size_bytes is None else size_bytes
    nl1_real = nl1 + l1_pad
    l1_clusters = -(-(nl1_real * 8) // cs)
    l1_cluster = meta_base
    l2_cluster0 = l1_cluster + l1_clusters + l2_shift
    comp_cluster = l2_cluster0 + nl1 if comp_base_cluster is None else comp_base_cluster
    ncomp_real = (max([e["h"] for e in img["l2"].values() if e["t"] == "C"], default=-1) + 1) * K
    slot = max(256, cs // 8 + 128) if comp_level else cs + 128
    comp = CompArea(comp_cluster * cs, slot, cs, level=comp_level, csalt=csalt)
    comp_clusters = -(-(ncomp_real * slot + 64) // cs) if ncomp_real else 0
    maxh = max([e["h"] for e in img["l2"].values() if e["t"] in ("N", "ZA")], default=-1)
    data_base = (comp_cluster + comp_clusters + host_shift) if not img["datafile"] else 0
    exts = []
    # L1
    l1 = []
    for t in range(nl1):
        v = ((l2_cluster0 + t) * cs) | (COPIED if copied else 0) | reserved_l1_bits if img["l1"][t] else 0
        l1.append(v)
    l1 += [0] * l1_pad
    l1_bytes = struct.pack(f">{nl1_real}Q", *l1)
    if l1_garbage:
        # stale bytes behind the L1 table (e.g. of a longer, older table): plausible L1 entries that must never be followed
        l1_bytes += struct.pack(">QQ", ((l2_cluster0) * cs) | COPIED, ((l2_cluster0) * cs) | COPIED)
    exts.append((l1_cluster * cs, len(l1_bytes), "bytes", l1_bytes))
    # L2 tables
    for t in range(nl1):
        if not img["l1"][t]:
            continue
        words = []
        if ext:
            for r in range(l2_real):
                c = t * l2n + r if r < l2n else None
                if c is None or c >= nc:
                    words += [0, 0]
                    continue
                e = img["l2"][c]
                if e["t"] == "C":
                    words += [comp.descriptor(e["h"], cluster_bits, comp_maximal), 0]
                    continue
                rep = 32 // S
                alloc = zero = 0
                for si in range(S):
                    st = e["sub"][si]
                    bits = ((1 << rep) - 1) << (si * rep)
                    if st == "A":
                        alloc |= bits
                    elif st == "Z":
                        zero |= bits
                ent = 0
                if e["t"] == "N":
                    ent = ((data_base + e["h"]) * cs) | (COPIED if copied or (img["datafile"] and data_base + e["h"] == 0) else 0)
                words += [ent, (zero << 32) | alloc]
        else:
            for r in range(l2_real):
                c = t * l2n + r // K
                j = r % K
                e = img["l2"][c] if c < nc else {"t": "U", "h": 0}
                k = e["t"]
                if k == "U":
                    words.append(0)
                elif k == "ZP":
                    words.append(ZERO)
                elif k == "ZA":
                    words.append(((data_base + e["h"] * K + j) * cs) | ZERO | (COPIED if copied else 0))
                elif k == "N":
                    words.append(((data_base + e["h"] * K + j) * cs) | (COPIED if copied or (img["datafile"] and data_base + e["h"] * K + j == 0) else 0))
                else:
                    words.append(comp.descriptor(e["h"] * K + j, cluster_bits, comp_maximal))
        exts.append(((l2_cluster0 + t) * cs, len(words) * 8, "bytes", struct.pack(f">{len(words)}Q", *words)))
    # header + extensions + backing name
    incompat = incompat_extra | (INCOMPAT_EXTL2 if ext else 0) | (INCOMPAT_DATA_FILE if img["datafile"] else 0)
    xs = list(extra_ext)
    bname = b""
    if img["back"] >= 0:
        bname = (backing_name or "base image.raw").encode()
        if backing_fmt_ext:
            xs.append((EXT_BACKING_FORMAT, b"raw"))
    if img["datafile"] and datafile_ext:
        xs.append((EXT_DATA_FILE, b"data file.raw"))
    snap_off, nsnap = (snap_table if snap_table else (0, 0))
    hdr_len = 72 if version == 2 else header_length
    hb = header(version=version, cluster_bits=cluster_bits, size=size_b, l1_size=nl1_real, l1_offset=l1_cluster * cs,
                refcount_offset=1 * cs, backing_name=bname, backing_offset=0, incompat=incompat, header_length=hdr_len,
                compression_type=compression_type, crypt=crypt, extensions=xs, nb_snapshots=nsnap, snapshots_offset=snap_off, end_marker=end_marker,
                **(hdr_extra or {}))
    if bname:
        boff = len(hb)
        hb = header(version=version, cluster_bits=cluster_bits, size=size_b, l1_size=nl1_real, l1_offset=l1_cluster * cs,
                    refcount_offset=1 * cs, backing_name=bname, backing_offset=boff, incompat=incompat, header_length=hdr_len,
                    compression_type=compression_type, crypt=crypt, extensions=xs, nb_snapshots=nsnap, snapshots_offset=snap_off, end_marker=end_marker,
                **(hdr_extra or {}))
        assert len(hb) == boff
        hb += bname
    assert len(hb) <= cs, "header area exceeds the first cluster"
    exts.append((0, len(hb), "bytes", hb))
    if ncomp_real:
        exts.append((comp_cluster * cs, comp_clusters * cs, "fn", comp.gen))
    data_vf = None
    span = (maxh + 1) * K * cs
    if img["datafile"]:
        data_vf = VirtualFile(max(span, 1), [(0, span, "pat", data_fid)] if span else [], fid=data_fid)
    elif span:
        exts.append((data_base * cs, span, "pat", file_id))
    info = {"cell": cell, "size": size_b, "data_base": data_base * cs, "cs": cs, "K": K, "l1_offset": l1_cluster * cs, "l1_size": nl1_real,
            "end_cluster": max(-(-(e[0] + e[1]) // cs) for e in exts), "csalt": csalt}
    if want_extents:
        return exts, data_vf, info
    fsize = max(e[0] + e[1] for e in exts)
    vf = VirtualFile(fsize, exts, fid=file_id, name=name)
    return vf, data_vf, info


def snapshot_entry(l1_offset, l1_size, id_str, name, *, extra_size=16, disk_size=0, vm_state_size=0, date_sec=0x5F000000,
                   date_nsec=7, vm_clock=123456789, icount=0xFFFFFFFFFFFFFFFF, pad=True):
    idb, nb = id_str.encode(), name.encode()
    extra = struct.pack(">QQQ", vm_state_size, disk_size, icount)[:extra_size].ljust(extra_size, b"\xEE")
    e = struct.pack(">QIHHIIQII", l1_offset, l1_size, len(idb), len(nb), date_sec, date_nsec, vm_clock, vm_state_size & 0xFFFFFFFF, extra_size)
    e += extra + idb + nb
    if pad:
        e += bytes((-len(e)) % 8)
    return e


def build_with_snapshots(active, snaps, *, cluster_bits, K=1, file_id=0, snap_meta=None, **kw):
    """active / snaps: abstract images over the same geometry. Every snapshot gets its own L1/L2 tables and host
    clusters in a disjoint region of the same file. snap_meta: [(id, name, extra_size)].
    Returns (VirtualFile, [info_active, info_snap0, ...])."""
    cs = 1 << cluster_bits
    csalt0 = kw.pop("csalt", 0)     # every state of the disk has its own compressed content (unit ids salted per snapshot)
    kw_a = dict(kw, csalt=csalt0)
    ex_a, _, ia = build(active, cluster_bits=cluster_bits, K=K, file_id=file_id, want_extents=True, **kw_a)
    base = ia["end_cluster"] + 1
    infos = [ia]
    all_ext = []
    entries = b""
    for k, sn in enumerate(snaps):
        ex_s, _, isn = build(sn, cluster_bits=cluster_bits, K=K, file_id=file_id, want_extents=True, meta_base=base, **dict(kw, csalt=csalt0 + (k + 1) * 0x10000))
        all_ext += [e for e in ex_s if e[0] != 0]  # drop the snapshot build's header
        infos.append(isn)
        sid, sname, xs = (snap_meta[k] if snap_meta else (str(k + 1), f"snap {k + 1}", 16))
        entries += snapshot_entry(isn["l1_offset"], isn["l1_size"], sid, sname, extra_size=xs, disk_size=isn["size"])
        base = isn["end_cluster"] + 1
    snap_off = base * cs
    ex_a, _, ia = build(active, cluster_bits=cluster_bits, K=K, file_id=file_id, want_extents=True, snap_table=(snap_off, len(snaps)), **kw_a)
    all_ext += ex_a + [(snap_off, len(entries), "bytes", entries)]
    fsize = max(e[0] + e[1] for e in all_ext)
    return VirtualFile(fsize, all_ext, fid=file_id), infos
