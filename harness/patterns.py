"""Location-coded content.

Every aligned 8-byte word of file `f` (0 <= f < 0xB0) at byte offset x is  ((f+1) << 56) | (x >> 3)  little-endian:
never zero, different for every (file, offset) pair, so data fetched from the wrong place, file or layer differs in
every word from the right data, and result bytes decode back to their source.

Compressible variant for compressed clusters/grains: every word of a 512-byte sector s of compressed unit `cid`
is  0xC0 << 56 | cid << 24 | s  (sector-constant, so deflate shrinks it ~60x).
"""
from __future__ import annotations

import sys
from array import array

assert sys.byteorder == "little"
MAXF = 0xB0


def pat(f: int, off: int, n: int) -> bytes:
    """Bytes [off, off+n) of pattern file f."""
    if n <= 0:
        return b""
    assert 0 <= f < MAXF
    w0 = off >> 3
    w1 = (off + n + 7) >> 3
    base = (f + 1) << 56
    buf = array("Q", range(base + w0, base + w1)).tobytes()
    s = off - (w0 << 3)
    return buf[s : s + n]


def cpat(cid: int, off: int, n: int) -> bytes:
    """Bytes [off, off+n) of the uncompressed content of compressed unit cid."""
    if n <= 0:
        return b""
    s0 = off >> 9
    s1 = (off + n + 511) >> 9
    base = (0xC0 << 56) | (cid << 24)
    buf = b"".join(array("Q", [base + s]).tobytes() * 64 for s in range(s0, s1))
    s = off - (s0 << 9)
    return buf[s : s + n]


def decode_cell(buf: bytes, cell: int):
    """Classify one cell (len(buf) == cell, multiple of 8) -> ("Z",) | ("D", f, off) | ("C", cid, off) | ("G",)."""
    if buf.count(0) == len(buf):
        return ("Z",)
    if len(buf) < 8:
        return ("G",)
    w = int.from_bytes(buf[:8], "little")
    top = w >> 56
    if top == 0xC0:
        cid = (w >> 24) & 0xFFFFFFFF
        off = (w & 0xFFFFFF) << 9
        if cpat(cid, off, len(buf)) == buf:
            return ("C", cid, off)
        return ("G",)
    if 1 <= top <= MAXF:
        f = top - 1
        off = (w & ((1 << 56) - 1)) << 3
        if pat(f, off, len(buf)) == buf:
            return ("D", f, off)
    return ("G",)


def decode_runs(buf: bytes, cell: int):
    """Run-length decode `buf` (length multiple of `cell`) to [[kind, file, first_cell_index, count], ...].

    For D runs first_cell_index = off // cell (must be cell-aligned, else "G")."""
    runs = []
    n = len(buf) // cell
    for i in range(n):
        t = decode_cell(buf[i * cell : (i + 1) * cell], cell)
        if t[0] == "Z":
            cur = ["Z", 0, 0]
        elif t[0] == "G" or t[2] % cell:
            cur = ["G", 0, 0]
        else:
            cur = [t[0], t[1], t[2] // cell]
        if runs:
            k, f, c0, cnt = runs[-1]
            if k == cur[0] and f == cur[1] and (k in ("Z", "G") or c0 + cnt == cur[2]):
                runs[-1][3] += 1
                continue
        runs.append(cur + [1])
    if len(buf) % cell:
        runs.append(["G", 0, 0, 1])
    return runs


def npat(cid: int, noise: int, off: int, n: int) -> bytes:
    """Like cpat, but the first `noise` bytes of the unit are incompressible (deterministic pseudo-random), which
    lets an encoder tune the compressed size of a unit byte by byte."""
    import hashlib

    if n <= 0:
        return b""
    out = []
    if off < noise:
        nz = hashlib.shake_128(b"verif-noise-%d" % cid).digest(noise)
        out.append(nz[off : min(noise, off + n)])
    if off + n > noise:
        a = max(off, noise)
        out.append(cpat(cid, a, off + n - a))
    return b"".join(out)
