"""Independent Hyper-V VMCX/VMRS writer (layout from the committed samples and VmDataStore.dll field names; packed
little-endian structures; checksums are not verified by readers and are filled with a CRC-32)."""
from __future__ import annotations

import struct
import zlib

SIG_HEADER = 0x01282014
SIG_REPLAY = 0x01110003
SIG_OBJTAB = 0x01110001
SIG_KEYTAB = 0x0002
T_FREE, T_INT, T_UINT, T_DOUBLE, T_STRING, T_ARRAY, T_BOOL, T_NODE = 1, 3, 4, 5, 6, 7, 8, 9
OBJ_OBJTAB, OBJ_KEYTAB, OBJ_FILE, OBJ_FREE, OBJ_REPLAY = 1, 2, 3, 4, 6
ALIGN = 0x1000


def file_header(seq, *, sig=SIG_HEADER, version=0x400, alignment=ALIGN, log_off=0x3000, log_size=0x1000, header_size=0x1000):
    return struct.pack("<IIHIQIQQI", sig, 0xC0FFEE, seq, version, 0, alignment, log_off, log_size, header_size)


def replay_log(sig=SIG_REPLAY, num_entries=0, max_entries=16):
    return struct.pack("<IIIBIIIIIB", sig, 0, num_entries, 0, max_entries, 0, 0, 0, 0, 0)


def value_bytes(vtype, value):
    if vtype == T_INT:
        return struct.pack("<q", value)
    if vtype == T_UINT:
        return struct.pack("<Q", value)
    if vtype == T_DOUBLE:
        return struct.pack("<d", value)
    if vtype == T_BOOL:
        # a boolean is a 32-bit word, true for any non-zero value; ("raw", word) stores that word
        if isinstance(value, tuple):
            return struct.pack("<I", value[1])
        return struct.pack("<I", 1 if value else 0)
    if vtype == T_STRING:
        b = value.encode("utf-16-le")
        return struct.pack("<I", len(b)) + b
    if vtype == T_ARRAY:
        return struct.pack("<I", len(value)) + bytes(value)
    if vtype == T_NODE:
        return bytes(8) + struct.pack("<I", value or 0)
    raise ValueError(vtype)


def entry(vtype, key: str, parent_tbl, parent_off, payload: bytes, *, flags=0, pad=0, seq=1):
    kb = key.encode("utf-8") + b"\0"
    assert len(kb) <= 255
    size = 21 + len(kb) + len(payload) + pad
    hdr = struct.pack("<HIHIIIB", vtype | (flags << 8), size, parent_tbl, parent_off, zlib.crc32(kb) & 0xFFFFFFFF, seq, len(kb))
    return hdr + kb + payload + bytes(pad)


def free_entry(size, flags=0, stale_key=b"", stale_hdr=(0, 0, 0, 0)):
    """A released entry: type Free (low byte); flag bits, the old key / data and the old header words (parent reference - its
    table or entry may be gone by now -, key checksum, sequence number) may still be there."""
    assert size >= 21
    body = (stale_key + b"\0")[:size - 21] if stale_key else b""
    return struct.pack("<HIHIIIB", T_FREE | (flags << 8), size, *stale_hdr, len(body)) + body.ljust(size - 21, b"\xEE" if stale_key else b"\0")


class Layout:
    def __init__(self):
        self.objs = []  # (type, offset, size, allocated)
        self.blobs = []  # (offset, bytes)
        self.cur = 0x4000

    def alloc(self, size, align=ALIGN):
        off = -(-self.cur // align) * align
        self.cur = off + -(-size // align) * align
        return off


def build(tables, file_objects=None, *, hdr_seqs=(2, 1), sigs=None, version=0x400, extra_objects=(), objtab_chain=False,
          table_size=0x1000, more_objtabs=None, stale_header_differs=True, chain=1, chain_rng=None, more_sigs=None, alignment=ALIGN,
          stale_header=None):
    """tables: list of {"idx", "seq", "entries": [bytes...]} in object-table order (entries already encoded, with resolved
    parent offsets).  file_objects: {offset_placeholder_key: bytes} handled by the caller through Layout.
    Returns bytes."""
    sigs = sigs or {}
    lay = Layout()
    out = {}
    objs = []
    for t in tables:
        body = struct.pack("<HHHI", t.get("sig", sigs.get("keytab", SIG_KEYTAB)), t["idx"], t["seq"], 0) + b"".join(t["entries"])
        size = -(-max(len(body) + 32, table_size) // ALIGN) * ALIGN
        off = t.get("offset") or lay.alloc(size)
        out[off] = body.ljust(size, b"\0")
        objs.append((OBJ_KEYTAB, off, size, 1))
    for off, data, osize in (file_objects or []):
        out[off] = data.ljust(osize, b"\0")
        objs.append((OBJ_FILE, off, osize, 1))
    objs += list(extra_objects)
    if chain_rng is not None and objs:
        # the objects may be listed in any order (a child's key table before its parent's, file objects first, ...)
        chain_rng.shuffle(objs)
        # released slots (allocated = 0) anywhere between the live ones: they are skipped, not an end marker
        for _ in range(chain_rng.randrange(0, 3)):
            objs.insert(chain_rng.randrange(0, len(objs) + 1), (chain_rng.choice([OBJ_KEYTAB, OBJ_FILE, OBJ_OBJTAB]), chain_rng.choice([0, 0x7000, 0x123000]), 0x1000, 0))
    more_objtabs = dict(more_objtabs or {})
    if chain > 1 and len(objs) >= chain:
        # distribute the objects over a chain of object tables: table i lists its share and the next object table
        if chain_rng:
            chain_rng.shuffle(objs)
        end0 = -(-max([o + len(b) for o, b in out.items()] + [0x4000]) // 0x1000) * 0x1000
        offs = [0x2000] + [end0 + 0x1000 * (2 * k + 1) for k in range(chain - 1)]
        parts = [objs[k::chain] for k in range(chain)]
        for k in range(chain - 1, 0, -1):
            ents = parts[k] + ([(OBJ_OBJTAB, offs[k + 1], 0x1000, 1)] if k + 1 < chain else []) + [(OBJ_FREE, 0, 0, 0)]
            more_objtabs[offs[k]] = ents
        objs = parts[0] + [(OBJ_OBJTAB, offs[1], 0x1000, 1)]
    objs.append((OBJ_FREE, 0, 0, 0))
    ot = struct.pack("<II", sigs.get("objtab", SIG_OBJTAB), len(objs))
    for typ, off, size, alloc in objs:
        ot += struct.pack("<BIQIB", typ, 0x1234, off, size, alloc)
    if len(ot) > 0x1000:
        # more entries than fit the usual single page: the table simply continues (nothing else may live up to its end)
        assert all(o >= 0x2000 + len(ot) or o < 0x2000 for o in out), "object table would overlap another structure"
    out[0x2000] = ot
    for off, ents in (more_objtabs or {}).items():
        # additional object tables (reachable through ObjectTable entries): {offset: [(type, offset, size, allocated)]}
        t = struct.pack("<II", (more_sigs or {}).get(off, SIG_OBJTAB), len(ents))
        for typ, o2, size, alloc in ents:
            t += struct.pack("<BIQIB", typ, 0x1234, o2, size, alloc)
        out[off] = t if off < 0x2000 else t.ljust(0x1000, b"\0")   # below 0x2000: in the slack behind the second header copy
    log_off = 0x3000
    if len(ot) > 0x1000:
        # the first object table runs over the page the replay log usually has: the log (located by the header) lives behind everything
        log_off = -(-max(o + len(b) for o, b in out.items()) // 0x1000) * 0x1000 + 0x1000
    out[log_off] = replay_log(sig=sigs.get("replay", SIG_REPLAY)).ljust(0x1000, b"\0")
    # the header copy with the lower sequence number is stale: its replay log pointer leads nowhere (a reader that picks it fails)
    lo1 = log_off if (hdr_seqs[0] >= hdr_seqs[1] or not stale_header_differs) else log_off + 0x800
    lo2 = log_off if (hdr_seqs[1] >= hdr_seqs[0] or not stale_header_differs) else log_off + 0x800
    # alignment: the allocation unit the writer used; decoding does not depend on it
    out[0] = file_header(hdr_seqs[0], sig=sigs.get("head1", SIG_HEADER), version=version, log_off=lo1, alignment=alignment)
    out[0x1000] = file_header(hdr_seqs[1], sig=sigs.get("head2", SIG_HEADER), version=version, log_off=lo2, alignment=alignment)
    if stale_header and hdr_seqs[0] != hdr_seqs[1]:
        # the superseded header copy is not consulted: it may be of an older version, carry another signature, or never have been written
        k = 0x1000 if hdr_seqs[0] > hdr_seqs[1] else 0
        lo_seq = min(hdr_seqs)
        if stale_header == "blank" and max(hdr_seqs) > 0:
            out[k] = bytes(len(out[k]))
        elif stale_header == "old-version":
            out[k] = file_header(lo_seq, version=0x300, log_off=0x3800, alignment=alignment)
        elif stale_header == "other-signature":
            out[k] = file_header(lo_seq, sig=0x0BADF00D, version=version, log_off=0x3800, alignment=alignment)
    end = max(o + len(b) for o, b in out.items())
    if end > (1 << 30):
        # objects far into the file (file objects / key tables beyond 4 GiB): a sparse virtual file instead of bytes
        from .vfile import VirtualFile
        ext, last = [], -1
        for o, b in sorted(out.items()):      # later entries win where structures were written over one another
            if o < last:
                raise ValueError("overlapping structures in a far layout")
            ext.append((o, len(b), "bytes", b))
            last = o + len(b)
        return VirtualFile(end, ext)
    buf = bytearray(end)
    for o, b in out.items():
        buf[o:o + len(b)] = b
    return bytes(buf)


def plan_tables(nodes, *, ntables_free=(), stale=(), newer_first=True, big_threshold=0x800, pad_rng=None, flag_rng=None, far=0, emptied=()):
    """nodes: list of {"id", "parent" (id or 0), "tbl", "key", "type", "value"} (parents before children).
    Lays the entries out per table (with optional free entries), resolves parent references to (table index, entry
    offset) and returns (tables in object-table order, file_objects, layout)."""
    lay = Layout()
    if far:
        lay.cur = far     # file objects and key tables start this far into the file (e.g. beyond 4 GiB)
    per = {}
    for n in nodes:
        per.setdefault(n["tbl"], []).append(n)
    # first pass: sizes and offsets
    off_of = {}
    enc = {}
    file_objects = []
    plans = {}
    for t, ns in per.items():
        cur = 10
        seq_entries = []
        for k, n in enumerate(ns):
            if t in ntables_free and k % 2 == 0:
                fsz = 21 + (pad_rng.randrange(0, 40) if pad_rng else 11)
                seq_entries.append(("free", fsz))
                cur += fsz
            payload = value_bytes(n["type"], n.get("stored", n["value"]))
            flags = 0
            if n["type"] in (T_STRING, T_ARRAY) and len(payload) - 4 >= big_threshold:
                data = payload[4:]
                fo_size = -(-len(data) // ALIGN) * ALIGN
                fo_off = lay.alloc(fo_size)
                file_objects.append((fo_off, data, fo_size))
                payload = struct.pack("<IQ", len(data), fo_off)
                flags = 1
            if flag_rng is not None and n["type"] in (T_STRING, T_ARRAY) and flag_rng.random() < 0.5:
                flags |= 0x02   # a flag bit real files carry on string entries next to the file-object bit; readers test bits
            pad = pad_rng.randrange(0, 16) if pad_rng else (12 if n["type"] in (T_INT, T_UINT, T_DOUBLE, T_BOOL) else 0)
            kb = len(n["key"].encode("utf-8")) + 1
            size = 21 + kb + len(payload) + pad
            off_of[n["id"]] = (t, cur)
            seq_entries.append(("node", n, payload, flags, pad))
            cur += size
        plans[t] = seq_entries
    # second pass: encode with resolved parent offsets
    tables = []
    for t, seq_entries in plans.items():
        def encode(ghost):
            out = []
            for e in seq_entries:
                if e[0] == "free":
                    if flag_rng is not None and flag_rng.random() < 0.6:
                        out.append(free_entry(e[1], flags=flag_rng.choice([1, 2, 3]), stale_key=b"stale-key",
                                              stale_hdr=flag_rng.choice([(0, 0, 0, 0), (77, 10, 0x1234, 5), (t, 0x7FF0, 0xFFFFFFFF, 9), (0xFFFF, 0xFFFFFFFF, 1, 0xFFFFFFFF), (t, 11, 3, 3)])))
                    else:
                        out.append(free_entry(e[1]))
                else:
                    _, n, payload, flags, pad = e
                    pt, po = off_of[n["parent"]] if n["parent"] else (0, 0)
                    pl = payload
                    if ghost and n["type"] in (T_INT, T_UINT) and not flags:
                        pl = value_bytes(n["type"], 777)  # the stale copy holds an outdated value
                    out.append(entry(n["type"], n["key"], pt, po, pl, flags=flags, pad=pad, seq=n["id"]))
            if ghost:
                # an entry that only exists in the stale copy
                out.append(entry(T_INT, "ghost-entry", 0, 0, value_bytes(T_INT, 666)))
            return out
        # sequence numbers are 16-bit counters: any pair with current > superseded, a lone table may carry any number (0 included)
        sq = flag_rng.choice([(7, 3), (1, 0), (0xFFFF, 0x7FFF), (0x8000, 0x7FFF), (2, 1), (0xFFFF, 0)]) if flag_rng is not None else (7, 3)
        if flag_rng is not None and t not in stale:
            sq = (flag_rng.choice([7, 0, 0, 1, 0xFFFF]), None)
        cur = {"idx": t, "seq": sq[0], "entries": encode(False)}
        if t in stale:
            old = {"idx": t, "seq": sq[1], "entries": encode(True)}
            tables += [cur, old] if newer_first else [old, cur]
        else:
            tables.append(cur)
    # table indices whose keys have all been deleted since: the current copy holds released entries only, the superseded copy still
    # has what was deleted (it must stay invisible)
    for t in emptied:
        if t in plans:
            continue
        cur = {"idx": t, "seq": 9, "entries": [free_entry(40), free_entry(33, flags=1, stale_key=b"gone")]}
        old = {"idx": t, "seq": 4, "entries": [entry(T_INT, f"ghost-deleted-{t}", 0, 0, value_bytes(T_INT, 666))]}
        tables += [cur, old] if newer_first else [old, cur]
    # key tables are allocated after the file objects
    for tb in tables:
        size = -(-max(10 + sum(len(e) for e in tb["entries"]) + 32, 0x1000) // ALIGN) * ALIGN
        tb["offset"] = lay.alloc(size)
    return tables, file_objects, lay
