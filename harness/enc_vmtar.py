"""Independent (vm)tar writer: ustar headers written field by field; visor headers carry magic "visor  " and the data
offset at byte 496 (layout taken from the committed sample and /bin/vmtar's behaviour)."""
from __future__ import annotations

import struct


def _oct(v, width):
    return (("%0*o" % (width - 1, v)).encode() + b"\0")[:width]


def header(name: str, size: int, *, typeflag=b"0", visor=False, offset=0, text_pgs=0, fixup_pgs=0, word500=0, mode=0o644, mtime=0x5F5E1000,
           prefix: str = "", uname="root", gname="root", linkname=""):
    nb = name if isinstance(name, bytes) else name.encode()     # (a name is bytes on disk; it need not be valid UTF-8)
    assert len(nb) <= 100
    h = bytearray(512)
    h[0:len(nb)] = nb
    h[100:108] = _oct(mode, 8)
    h[108:116] = _oct(0, 8)
    h[116:124] = _oct(0, 8)
    h[124:136] = _oct(size, 12)
    h[136:148] = _oct(mtime, 12)
    h[148:156] = b" " * 8
    h[156:157] = typeflag
    lb = linkname if isinstance(linkname, bytes) else linkname.encode()
    h[157:157 + len(lb)] = lb
    if visor:
        h[257:265] = b"visor  \0"
    else:
        h[257:263] = b"ustar\0"
        h[263:265] = b"00"
    h[265:265 + len(uname)] = uname.encode()
    h[297:297 + len(gname)] = gname.encode()
    h[329:337] = _oct(0, 8)
    h[337:345] = _oct(0, 8)
    pb = prefix.encode()
    assert len(pb) <= 155
    h[345:345 + len(pb)] = pb
    if visor:
        h[496:500] = struct.pack("<I", offset)
        h[500:504] = struct.pack("<I", word500)     # a separate header word (text offset of executables), not part of the data offset
        h[504:512] = struct.pack("<II", text_pgs, fixup_pgs)
    chk = sum(h)
    h[148:156] = ("%06o" % chk).encode() + b"\0 "
    return bytes(h)


def ext_record(m):
    """Extension record written in front of a member's header: GNU long name ("L": payload = name + NUL) or pax ("x":
    payload = "<len> path=<name>\\n"); the record's own header is an ordinary (non-visor) one, or a visor one with offset 0."""
    if not m.get("ext_kind"):
        return b""
    full = m["fullname"].encode()
    if m["ext_kind"] == "gnu":
        payload = full + b"\0"
        h = bytearray(header("././@LongLink", len(payload), typeflag=b"L", mode=0))
        h[257:265] = b"visor  \0" if m.get("ext_visor") else b"ustar  \0"
    else:
        rec = b" path=" + full + b"\n"
        n = len(rec) + len(str(len(rec) + len(str(len(rec)))))
        if len(str(n)) + len(rec) != n:
            n = len(str(n)) + len(rec)
        payload = str(n).encode() + rec
        assert len(payload) == n
        h = bytearray(header("./PaxHeaders/member", len(payload), typeflag=b"x"))
        if m.get("ext_visor"):
            h[257:265] = b"visor  \0"
    h[148:156] = b" " * 8
    h[148:156] = ("%06o" % sum(h)).encode() + b"\0 "
    return bytes(h) + payload + bytes((-len(payload)) % 512)


def build(members, *, data_align=4096, data_gap=0, trailing_blocks=2, extra_tail=b""):
    """members: [{"name","visor","dir","size","inline","slot","data": bytes, "prefix": str}] -> archive bytes.
    Inline data follows the header (padded to 512); external data of visor members goes to the data area in slot order.
    Optional "ext_kind" ("gnu" / "pax") + "fullname": an extension record carrying the real (long) name precedes the header."""
    # pass 1: header-area length
    hdr_len = 0
    for m in members:
        hdr_len += len(ext_record(m))
        hdr_len += 512 + (-(-m["size"] // 512) * 512 if m["inline"] else 0)
    hdr_len += 512 * trailing_blocks
    ext = sorted([m for m in members if not m["inline"] and m.get("abs_offset") is None], key=lambda m: m["slot"])
    cur = -(-(hdr_len + data_gap) // data_align) * data_align
    offs = {}
    for m in ext:
        offs[id(m)] = cur
        cur = -(-(cur + m["size"]) // data_align) * data_align
    out = bytearray()
    for m in members:
        tf = b"5" if m["dir"] else m.get("typeflag", b"0")
        out += ext_record(m)
        # abs_offset: the member's bytes are stored somewhere else in the archive already (e.g. inside an earlier member's data)
        out += header(m["name"], m["size"], typeflag=tf, visor=m["visor"], offset=m["abs_offset"] if m.get("abs_offset") is not None else offs.get(id(m), 0),
                      prefix=m.get("prefix", ""), mode=0o755 if m["dir"] else 0o644, **m.get("hdr", {}))
        if m["inline"] and m["size"]:
            out += m["data"] + bytes((-m["size"]) % 512)
    out += bytes(512 * trailing_blocks)
    if cur > (1 << 28):
        return bytes(out), offs  # data area too far away to materialise: the caller places the data (sparse virtual file)
    for m in ext:
        out += bytes(offs[id(m)] - len(out))
        out += m["data"]
    out += extra_tail
    return bytes(out), offs
