"""Independent encrypted-VMX encoder: key safe grammar, PBKDF2, AES-CBC + PKCS#7, HMAC (hashlib / pycryptodome)."""
from __future__ import annotations

import base64
import hashlib
import hmac

from Crypto.Cipher import AES

KEYLEN = {"AES-128": 16, "AES-192": 24, "AES-256": 32}
MACS = {"HMAC-SHA-1": ("sha1", 20), "HMAC-SHA-1-128": ("sha1", 16), "HMAC-SHA-256": ("sha256", 32)}
KDFS = {"PBKDF2-HMAC-SHA-1": "sha1", "PBKDF2-HMAC-SHA-256": "sha256"}


def esc(s: str) -> str:
    """VMware's escaping: everything but ASCII letters and digits becomes %xx (lower-case hex)."""
    return "".join(c if (c.isascii() and c.isalnum()) else "".join("%%%02x" % b for b in c.encode()) for c in s)


def blob(key: bytes, plain: bytes, mac_name: str, iv: bytes) -> bytes:
    pad = 16 - len(plain) % 16
    ct = AES.new(key, AES.MODE_CBC, iv=iv).encrypt(plain + bytes([pad]) * pad)
    alg, n = MACS[mac_name]
    return iv + ct + hmac.new(key, plain, alg).digest()[:n]


def pair_text(passphrase: str, data_key: bytes, *, cipher="AES-256", mac="HMAC-SHA-1", kdf="PBKDF2-HMAC-SHA-1", rounds=1000,
              salt=b"\x01" * 16, iv=b"\x02" * 16, phrase_id="JTHVQF8/BHU=", data_cipher="AES-256", tamper=None, escape_inner=True, order=None):
    """order: a permutation of (0, 1, 2, 3) - the locator's fields (pass2key, cipher, rounds, salt) and the inner dictionary's fields are
    key=value lists, their order carries no meaning."""
    wrap_key = hashlib.pbkdf2_hmac(KDFS[kdf], passphrase.encode(), salt, rounds, KEYLEN[cipher])
    e_in = esc if escape_inner else (lambda x: x)
    ifields = ["type=key", f"cipher={e_in(data_cipher)}", f"key={e_in(base64.b64encode(data_key).decode())}"]
    if order:
        ifields = [ifields[k] for k in order if k < 3]
    inner = ":".join(ifields).encode()
    b = bytearray(blob(wrap_key, inner, mac, iv))
    if tamper:
        tamper(b)
    fields = [f"pass2key={esc(kdf)}", f"cipher={esc(cipher)}", f"rounds={rounds}", f"salt={esc(base64.b64encode(salt).decode())}"]
    if order:
        fields = [fields[k] for k in order]
    d = ":".join(fields)
    return f"pair/(phrase/{esc(phrase_id)}/{esc(d)},{esc(mac)},{esc(base64.b64encode(bytes(b)).decode())})"


def keysafe(pairs) -> str:
    return "vmware:key/list/(" + ",".join(pairs) + ")"


def vmx_text(visible: dict, keysafe_text: str, data_blob: bytes, *, key_case="asis"):
    lines = [f'{k} = "{v}"' for k, v in visible.items()]
    ks, dk = ("encryption.keySafe", "encryption.data") if key_case == "asis" else ("ENCRYPTION.KEYSAFE", "Encryption.Data")
    lines.append(f'{ks} = "{keysafe_text}"')
    lines.append(f'{dk} = "{base64.b64encode(data_blob).decode()}"')
    return "\n".join(lines) + "\n"
