"""Run TLC (exhaustive / simulate / trace validation) and collect statistics."""
from __future__ import annotations

import os
import re
import shutil
import subprocess
import tempfile
import time
from dataclasses import dataclass, field

SPEC_DIR = os.path.join(os.path.dirname(os.path.dirname(os.path.abspath(__file__))), "spec")
JAR_CP = "/opt/veriftools/tla/tla2tools.jar:/opt/veriftools/tla/CommunityModules-deps.jar"


class TlcError(Exception):
    """Machinery failure (exit code 2 territory)."""


@dataclass
class TlcResult:
    ok: bool
    generated: int = 0
    distinct: int = 0
    depth: int = 0
    wall_s: float = 0.0
    violated: str | None = None  # name of violated invariant/property
    output: str = ""
    dump: str | None = None
    coverage: dict = field(default_factory=dict)  # action name -> (distinct, generated)
    printed: list = field(default_factory=list)
    cmd: str = ""


def scratch_dir(prefix="verif-") -> str:
    base = os.environ.get("VERIF_SCRATCH") or tempfile.gettempdir()
    return tempfile.mkdtemp(prefix=prefix, dir=base)


_RE_STATES = re.compile(r"(\d+) states generated, (\d+) distinct states found")
_RE_DEPTH = re.compile(r"The depth of the complete state graph search is (\d+)")
_RE_VIOL = re.compile(r"Error: (?:Invariant|Action property|Temporal properties?) ?(\w+)? ?(?:is|were) violated")
_RE_COV = re.compile(r"^<(\w+) line \d+, col \d+ to line \d+, col \d+ of module (\w+)>: (\d+):(\d+)", re.M)


def run(
    module: str,
    cfg: str,
    *,
    workers: int | str = "auto",
    dump: bool = False,
    coverage: bool = False,
    simulate: str | None = None,
    depth: int | None = None,
    seed: int | None = None,
    env: dict | None = None,
    timeout: int = 3600,
    deadlock: bool = False,
    extra: list | None = None,
    jvm: list | None = None,
    keep_dir: str | None = None,
) -> TlcResult:
    """Run TLC on spec/<module>.tla with spec/cfg/<cfg>.  Returns TlcResult.

    Raises TlcError on parse errors / crashes (not on property violations)."""
    work = keep_dir or scratch_dir("tlc-")
    meta = os.path.join(work, "meta")
    jtmp = os.path.join(work, "jtmp")   # TLC unpacks its standard modules into java.io.tmpdir and leaves them behind
    os.makedirs(jtmp, exist_ok=True)
    cmd = ["java", "-XX:+UseParallelGC", "-Xmx8g", "-Xss32m", f"-Djava.io.tmpdir={jtmp}"] + (jvm or []) + ["-cp", JAR_CP, "tlc2.TLC"]
    cmd += ["-workers", str(workers), "-metadir", meta, "-noGenerateSpecTE"]
    cfg_path = cfg if os.path.isabs(cfg) else os.path.join(SPEC_DIR, "cfg", cfg)
    cmd += ["-config", cfg_path]
    if not deadlock:
        cmd += ["-deadlock"]  # -deadlock DISABLES deadlock checking
    dump_path = None
    if dump:
        dump_path = os.path.join(work, "states.dump")
        cmd += ["-dump", dump_path]
    if coverage:
        cmd += ["-coverage", "1"]
    if simulate:
        cmd += ["-simulate", simulate]
    if depth is not None:
        cmd += ["-depth", str(depth)]
    if seed is not None:
        cmd += ["-seed", str(seed)]
    cmd += extra or []
    cmd += [os.path.join(SPEC_DIR, module + ".tla")]
    e = dict(os.environ)
    if env:
        e.update({k: str(v) for k, v in env.items()})
    t0 = time.time()
    try:
        p = subprocess.run(cmd, cwd=SPEC_DIR, env=e, capture_output=True, text=True, timeout=timeout)
    except subprocess.TimeoutExpired as ex:
        subprocess.run(["pkill", "-f", meta], check=False)
        raise TlcError(f"TLC timed out after {timeout}s: {' '.join(cmd)}") from ex
    out = p.stdout + p.stderr
    res = TlcResult(ok=False, output=out, wall_s=time.time() - t0, cmd=" ".join(cmd))
    if not keep_dir and not dump:
        shutil.rmtree(work, ignore_errors=True)   # scratch (TLC metadir) is not needed any more
    elif not keep_dir:
        shutil.rmtree(meta, ignore_errors=True)
        shutil.rmtree(jtmp, ignore_errors=True)
    ms = _RE_STATES.findall(out)
    if ms:
        res.generated, res.distinct = int(ms[-1][0]), int(ms[-1][1])
    m = _RE_DEPTH.search(out)
    if m:
        res.depth = int(m.group(1))
    for m in _RE_COV.finditer(out):
        res.coverage[m.group(1)] = (int(m.group(3)), int(m.group(4)))
    res.printed = [l for l in out.splitlines() if l.startswith('<<"') or l.startswith("<<")]
    if dump_path and os.path.exists(dump_path):
        res.dump = dump_path
    elif dump_path and os.path.exists(dump_path + ".dump"):
        res.dump = dump_path + ".dump"
    mv = _RE_VIOL.search(out)
    if mv or "is violated" in out or "Deadlock reached" in out:
        res.violated = (mv.group(1) if mv and mv.group(1) else None) or "property"
        if "Deadlock reached" in out and not mv:
            res.violated = "Deadlock"
        return res
    finished = "Model checking completed. No error has been found." in out or (
        simulate and ("Progress" in out or "The number of states generated" in out or p.returncode == 0)
    )
    if p.returncode != 0 or not finished or "Error:" in out:
        # postcondition failure is a property-ish outcome: report separately
        if "Postcondition" in out and "violated" in out.lower():
            res.violated = "Postcondition"
            return res
        raise TlcError(f"TLC failed (rc={p.returncode}){' [StackOverflowError]' if 'StackOverflowError' in out else ''}: {' '.join(cmd)}\n{out[-4000:]}")
    res.ok = True
    return res


def cleanup(res_or_dir):
    d = res_or_dir
    if isinstance(res_or_dir, TlcResult):
        d = os.path.dirname(res_or_dir.dump) if res_or_dir.dump else None
    if d and os.path.isdir(d):
        shutil.rmtree(d, ignore_errors=True)


def sany(module: str) -> None:
    p = subprocess.run(
        ["java", "-cp", JAR_CP, "tla2sany.SANY", os.path.join(SPEC_DIR, module + ".tla")],
        cwd=SPEC_DIR, capture_output=True, text=True,
    )
    if p.returncode != 0 or "Semantic errors" in p.stdout or "Parse Error" in p.stdout or "*** Errors" in p.stdout:
        raise TlcError(f"SANY failed for {module}:\n{p.stdout[-3000:]}{p.stderr[-1000:]}")
