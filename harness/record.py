"""Code -> spec recorders: run operations on a real stream object and log one event per public call, with the
result bytes decoded into byte runs (see spec/TraceCommon.tla).  Also random operation sequences."""
from __future__ import annotations

import io
import json
import random

from . import patterns


def _common_prefix(a: bytes, b: bytes) -> int:
    n = min(len(a), len(b))
    if a[:n] == b[:n]:
        return n
    lo, hi = 0, n  # a[:lo] == b[:lo]; a[:hi] != b[:hi]
    while hi - lo > 1:
        mid = (lo + hi) // 2
        if a[lo:mid] == b[lo:mid]:
            lo = mid
        else:
            hi = mid
    return lo


def _extend(gen, buf, i):
    """Length of the longest prefix of buf[i:] equal to gen(k bytes) (doubling search)."""
    n = len(buf) - i
    step = 4096
    done = 0
    while done < n:
        take = min(step, n - done)
        cand = gen(done, take)
        cp = _common_prefix(cand, buf[i + done : i + done + take])
        done += cp
        if cp < take:
            break
        step = min(step * 4, 1 << 22)
    return done


def _word_token(w8: bytes, goff: int):
    """Decode one full aligned word at guest offset goff -> ("Z",) | ("D", f, off) | ("C", cid, off) | None."""
    w = int.from_bytes(w8, "little")
    if w == 0:
        return ("Z",)
    top = w >> 56
    if 1 <= top <= patterns.MAXF:
        return ("D", top - 1, (w & ((1 << 56) - 1)) << 3)
    if top == 0xC0:
        return ("C", (w >> 24) & 0xFFFFFFFF, ((w & 0xFFFFFF) << 9) + (goff & 511))
    return None


def decode_byte_runs(buf: bytes, g0: int, probe=None):
    """Decode result bytes that start at guest byte g0 into [{k,f,o,n}, ...] byte runs.

    probe(off, n): optional aligned read of the same guest address space on a *fresh* object, used to decode a
    partial word at an unaligned start/end that is not the continuation of its neighbour (the fragment must equal
    the corresponding bytes of the probed word, which is then decoded - and judged by the specification - like
    any other word)."""
    runs = []
    n = len(buf)
    i = 0

    def push(k, f, o, cnt):
        if cnt <= 0:
            return
        if runs:
            r = runs[-1]
            if r["k"] == k and r["f"] == f and (k in ("Z", "G") or r["o"] + r["n"] == o):
                r["n"] += cnt
                return
        runs.append({"k": k, "f": f, "o": o if k in ("D", "C") else 0, "n": cnt})

    def probed(frag, goff):
        """classify fragment `frag` located at guest offset goff (inside one word) via the probe."""
        if probe is None:
            return None
        gw = goff - goff % 8
        pw = probe(gw, 8)
        if len(pw) != 8 or pw[goff - gw : goff - gw + len(frag)] != frag:
            return None
        t = _word_token(pw, gw)
        if t is None:
            return None
        if t[0] == "Z":
            return ("Z", 0, 0)
        return (t[0], t[1], t[2] + (goff - gw))

    head = (-g0) % 8
    if head and n:
        head = min(head, n)
        hb = buf[:head]
        pr = None
        if n - head >= 8:
            w = int.from_bytes(buf[head : head + 8], "little")
            top = w >> 56
            cont = (1 <= top <= patterns.MAXF and (((w & ((1 << 56) - 1)) << 3) >= head)
                    and patterns.pat(top - 1, ((w & ((1 << 56) - 1)) << 3) - head, head) == hb)
            if not cont or probe is not None:
                # the high-order bytes of neighbouring words often coincide: with a probe, never guess
                pr = probed(hb, g0)
                if pr is None and probe is not None:
                    pr = ("G", 0, 0)
        else:
            pr = probed(hb, g0)
        if pr is not None:
            push(pr[0], pr[1], pr[2], head)
        elif n - head >= 8:
            w = int.from_bytes(buf[head : head + 8], "little")
            top = w >> 56
            if 1 <= top <= patterns.MAXF and patterns.pat(top - 1, ((w & ((1 << 56) - 1)) << 3) - head, head) == hb:
                push("D", top - 1, ((w & ((1 << 56) - 1)) << 3) - head, head)
            elif top == 0xC0:
                cid = (w >> 24) & 0xFFFFFFFF
                off = ((w & 0xFFFFFF) << 9) + ((g0 + head) & 511)
                if off >= head and patterns.cpat(cid, off - head, head) == hb:
                    push("C", cid, off - head, head)
                elif hb.count(0) == head:
                    push("Z", 0, 0, head)
                else:
                    push("G", 0, 0, head)
            elif hb.count(0) == head:
                push("Z", 0, 0, head)
            else:
                push("G", 0, 0, head)
        elif hb.count(0) == head:
            push("Z", 0, 0, head)
        else:
            push("G", 0, 0, head)
        i = head
    while i < n:
        rem = n - i
        if rem < 8:
            tb = buf[i:]
            pr = probed(tb, g0 + i)
            if pr is not None:
                push(pr[0], pr[1], pr[2], rem)
            elif probe is not None:
                push("G", 0, 0, rem)  # with a probe, never guess from coinciding bytes
            elif runs and runs[-1]["k"] == "D" and patterns.pat(runs[-1]["f"], runs[-1]["o"] + runs[-1]["n"], rem) == tb:
                push("D", runs[-1]["f"], runs[-1]["o"] + runs[-1]["n"], rem)
            elif runs and runs[-1]["k"] == "C" and patterns.cpat(runs[-1]["f"], runs[-1]["o"] + runs[-1]["n"], rem) == tb:
                push("C", runs[-1]["f"], runs[-1]["o"] + runs[-1]["n"], rem)
            elif tb.count(0) == rem:
                push("Z", 0, 0, rem)
            else:
                push("G", 0, 0, rem)
            break
        w = int.from_bytes(buf[i : i + 8], "little")
        top = w >> 56
        if w == 0:
            rest = buf[i:]
            z = len(rest) - len(rest.lstrip(b"\x00"))
            z -= z % 8  # a trailing partial word is classified by the tail branch (probe)
            push("Z", 0, 0, z)
            i += z
        elif 1 <= top <= patterns.MAXF:
            f = top - 1
            off = (w & ((1 << 56) - 1)) << 3
            ln = _extend(lambda d, t, f=f, off=off: patterns.pat(f, off + d, t), buf, i)
            ln -= ln % 8  # a trailing partial word is classified by the tail branch (probe)
            push("D", f, off, ln)
            i += ln
        elif top == 0xC0:
            cid = (w >> 24) & 0xFFFFFFFF
            off = ((w & 0xFFFFFF) << 9) + ((g0 + i) & 511)
            ln = _extend(lambda d, t, cid=cid, off=off: patterns.cpat(cid, off + d, t), buf, i)
            ln -= ln % 8
            if ln <= 0:
                push("G", 0, 0, n - i)
                break
            push("C", cid, off, ln)
            i += ln
        else:
            push("G", 0, 0, n - i)
            break
    return runs


class _Tagged:
    """append-only view on a shared event list that stamps the object index"""

    def __init__(self, shared, obj):
        self.shared, self.obj = shared, obj

    def append(self, ev):
        ev["obj"] = self.obj
        self.shared.append(ev)


class Recorder:
    """Drives a real stream and records API-level events."""

    def __init__(self, stream, sizeB, probe=None, align=None, events=None, obj=None):
        """events / obj: several recorders of one session (a stream and the stream objects of its ancestors) append to one
        shared event list; every event then carries the index of the object it was recorded on."""
        self.probe = probe
        self.s = stream
        if align:
            # same effect as DISSECT_STREAM_BUFFER_SIZE: AlignedStream.__init__ only stores the value
            stream.align = align
        sz = getattr(stream, "size", None)
        self.events = _Tagged(events, obj) if events is not None else []
        self.events.append({"e": "open", "size": int(sz) if sz is not None else -1})
        self.sizeB = sizeB

    def seek(self, arg, whence=0):
        ret = self.s.seek(arg, whence)
        self.events.append({"e": "seek", "whence": whence, "arg": arg, "ret": int(ret)})

    def tell(self):
        self.events.append({"e": "tell", "ret": int(self.s.tell())})

    def _res(self, e, pos0, n, data, extra=None):
        ev = {"e": e, "pos0": pos0, "n": n, "len": len(data), "runs": decode_byte_runs(data, pos0, self.probe), "tell": int(self.s.tell())}
        if extra:
            ev.update(extra)
        self.events.append(ev)
        return ev

    def read(self, n):
        p = int(self.s.tell())
        return self._res("read", p, n, self.s.read(n))

    def peek(self, n):
        p = int(self.s.tell())
        return self._res("peek", p, n, self.s.peek(n))

    def readinto(self, n):
        p = int(self.s.tell())
        b = bytearray(n)
        k = self.s.readinto(b)
        return self._res("readinto", p, n, bytes(b[:k]))

    def readoffset(self, o, n):
        data = self.s.readoffset(o, n)
        ev = {"e": "readoffset", "o": o, "n": n, "len": len(data), "runs": decode_byte_runs(data, o, self.probe), "tell": int(self.s.tell())}
        self.events.append(ev)
        return ev

    def sectors(self, fn, sector, count, ssize):
        data = fn(sector, count)
        ev = {"e": "sectors", "s": sector, "c": count, "len": len(data), "runs": decode_byte_runs(data, sector * ssize, self.probe),
              "tell": int(self.s.tell())}
        self.events.append(ev)
        return ev


def random_ops(rec: Recorder, rng: random.Random, sizeB: int, nops: int, *, unit: int, big: int, sectors_fn=None, ssize=512, absolute=False):
    """Random operation sequence. unit: an interesting boundary granularity (allocation unit);
    big: upper bound for read lengths.  absolute: every operation first seeks to an absolute offset and nothing depends on
    the position left by earlier calls (for objects whose cursor another object may legitimately move)."""
    def pick_off():
        r = rng.random()
        if r < 0.2:
            # close to where the stream is now (what was served last - a cluster, a table, a read-ahead window - may be remembered)
            near = int(rec.s.tell()) + rng.choice([-1, 1]) * rng.choice([rng.randrange(0, 4096), rng.randrange(0, 262144), unit, unit // 2])
            return max(0, min(sizeB + 9, near))
        r = (r - 0.2) / 0.8
        if r < 0.35:
            b = rng.randrange(0, sizeB // unit + 2) * unit
            return max(0, min(sizeB + 9, b + rng.choice([0, 0, -1, 1, -512, 512, -8, 8, -513, 7])))
        if r < 0.5:
            return rng.choice([0, sizeB, max(0, sizeB - 1), max(0, sizeB - 512), sizeB + 5])
        return rng.randrange(0, sizeB + 1)

    def pick_len():
        r = rng.random()
        if r < 0.1:
            return rng.choice([0, -1, 8, 16])
        if r < 0.2:
            return rng.choice([24576, 40960, 100000, 131072, 131072 + 512, 65536 - 512, 1000])
        if r < 0.4:
            return rng.choice([512, 4096, 8192, unit, unit + 512, 2 * unit, unit - 8])
        return rng.randrange(16, max(17, big))

    def fix_short(pos, n):
        # results shorter than 16 bytes must be word aligned to be decodable
        ln = max(0, min(n if n >= 0 else sizeB, sizeB - pos))
        if 0 < ln < 16 and (pos % 8 or ln % 8):
            return None
        return n

    for _ in range(nops):
        if sectors_fn is not None and rng.random() < 0.08:
            # a request for sectors that do not exist (beyond the end, or running over it): whatever the reader answers - an error,
            # a short result - is not recorded; what it is asked next must not be affected
            nsec = sizeB // ssize
            try:
                sectors_fn(nsec + rng.choice([0, 1, 7, rng.randrange(0, 4096), 1 << 20]), rng.randrange(1, 16))
            except Exception:  # noqa: BLE001
                pass
            try:
                sectors_fn(max(0, nsec - 2), 8)
            except Exception:  # noqa: BLE001
                pass
        r = rng.random()
        if absolute:
            rec.seek(pick_off(), 0)
            r = 0.30 + r * 0.63          # read / peek / readinto / readoffset only
        if r < 0.30:
            wh = rng.choice([0, 0, 0, 1, 2])
            if wh == 0:
                rec.seek(pick_off(), 0)
            elif wh == 1:
                k = rng.randrange(-sizeB // 2 - 1, sizeB // 2 + 2)
                # TLC integers are 32-bit: keep position + k representable in the trace specification
                rec.seek(min(k, (1 << 31) - 1 - int(rec.s.tell())), 1)
            else:
                rec.seek(-rng.choice([0, 1, 512, unit, unit + 1, rng.randrange(0, sizeB + 10)]), 2)
        elif r < 0.70:
            n = pick_len()
            if fix_short(rec.s.tell(), n) is not None:
                rec.read(min(n, big) if n > 0 else n) if n != -1 or sizeB - rec.s.tell() <= big else rec.read(big)
        elif r < 0.78:
            n = min(pick_len(), big)
            if n >= 0 and fix_short(rec.s.tell(), n) is not None:
                rec.peek(n)
        elif r < 0.85:
            n = min(max(0, pick_len()), big)
            if fix_short(rec.s.tell(), n) is not None:
                rec.readinto(n)
        elif r < 0.93:
            o, n = pick_off(), min(max(0, pick_len()), big)
            if fix_short(o, n) is not None:
                rec.readoffset(o, n)
        elif r < 0.96:
            rec.tell()
        elif sectors_fn is not None:
            s = rng.randrange(0, max(1, sizeB // ssize))
            c = rng.randrange(1, max(2, min(big // ssize, sizeB // ssize - s) + 1))
            if s + c <= sizeB // ssize:
                rec.sectors(sectors_fn, s, c, ssize)


def dump_traces(path, traces):
    with open(path, "w") as f:
        for t in traces:
            f.write(json.dumps(t, separators=(",", ":")) + "\n")
