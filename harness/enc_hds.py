"""Independent Parallels HDS / HDD encoder (qemu docs/interop/parallels.txt, prl-xml.txt; little-endian)."""
from __future__ import annotations

import os
import struct

from .vfile import VirtualFile

SIG_V1 = b"WithoutFreeSpace"
SIG_V2 = b"WithouFreSpacExt"
DEFAULT_TOP = "{5fbaabe3-6958-40ff-92a7-860e329aab41}"
NULL_GUID = "{00000000-0000-0000-0000-000000000000}"


def header(ver, spc, nbat, size_sectors, first_block, *, sig=None, in_use=0, heads=16, cyl=1024, flags=0, ext_off=0, v1_unused=0):
    sig = sig if sig is not None else (SIG_V1 if ver == 1 else SIG_V2)
    h = struct.pack("<16sIIIII", sig, 2, heads, cyl, spc, nbat)
    h += struct.pack("<II", size_sectors & 0xFFFFFFFF, v1_unused) if ver == 1 else struct.pack("<Q", size_sectors)
    h += struct.pack("<IIIQ", in_use, first_block, flags, ext_off)
    assert len(h) == 64
    return h


def build(img, *, cluster_size=1 << 20, file_id=0, P=None, size_bytes=None, hdr_kw=None, name=None, pos_shift=0, first_cluster=0):
    """img: {"ver","n","cb","bat","size"} (entries: v2 cluster positions, v1 *cell* positions) -> (VirtualFile, info).
    pos_shift: added to every allocated position (clusters for v2, cells for v1): entries with the top bit set."""
    cb, n, ver = img["cb"], img["n"], img["ver"]
    if pos_shift:
        img = dict(img, bat={i: (e + pos_shift if e else 0) for i, e in img["bat"].items()})
        P = (P if P is not None else max(img["bat"].values())) + pos_shift
    cell = cluster_size // cb
    assert cell * cb == cluster_size and cell % 512 == 0
    spc = cluster_size // 512
    ents = [img["bat"][i] for i in range(n)]
    size_b = img["size"] * cell if size_bytes is None else size_bytes
    hdr_cells = -(-(64 + 4 * n) // cell)  # header + BAT occupy this many cells
    if ver == 2:
        raw = ents
        # first_cluster: the data area may start further into the file than header + BAT need (space reserved for a growing BAT)
        hdr_clusters = max(1, -(-(64 + 4 * n) // cluster_size), first_cluster)
        first = hdr_clusters                      # m_FirstBlockOffset: where the data blocks start (header + BAT, rounded up)
        top = max((max(ents + [0]) + 1) if P is None else (P + 1), hdr_clusters)
        assert all(e == 0 or e * cluster_size >= 64 + 4 * n for e in ents), "cluster overlaps header"
        data = (hdr_clusters * cluster_size, (top - hdr_clusters) * cluster_size)
    else:
        assert all(e == 0 or e >= hdr_cells for e in ents), "cluster overlaps header"
        raw = [e * (cell // 512) for e in ents]
        first = min([r for r in raw if r] + [hdr_cells * (cell // 512)])
        top_cell = (max(ents + [0]) + cb) if P is None else (P + 1) * cb
        data = (hdr_cells * cell, top_cell * cell - hdr_cells * cell)
    h = header(ver, spc, n, -(-size_b // 512), first if ver == 1 else first * spc, **(hdr_kw or {}))
    bat = struct.pack(f"<{n}I", *raw)
    ext = [(0, 64, "bytes", h), (64, len(bat), "bytes", bat)]
    if data[1] > 0:
        ext.append((data[0], data[1], "pat", file_id))
    vf = VirtualFile(max(data[0] + data[1], 64 + len(bat)), ext, fid=file_id, name=name)
    return vf, {"cell": cell, "size": size_b, "base": pos_shift * (cluster_size if ver == 2 else cell)}


def descriptor_xml(storages, shots, top_guid=DEFAULT_TOP, disk_size=None, extra=""):
    """storages: [(start, end, [(guid, type, file), ...])]; shots: [(guid, parent_guid)]."""
    st = "".join(
        f"<Storage><Start>{s}</Start><End>{e}</End><Blocksize>2048</Blocksize>"
        + "".join(f"<Image><GUID>{g}</GUID><Type>{t}</Type><File>{_xml_text(fn)}</File></Image>" for g, t, fn in imgs)
        + "</Storage>"
        for s, e, imgs in storages
    )
    sh = "".join(f"<Shot><GUID>{g}</GUID><ParentGUID>{p}</ParentGUID></Shot>" for g, p in shots)
    tg = f"<TopGUID>{top_guid}</TopGUID>" if top_guid is not None else ""
    size = disk_size if disk_size is not None else (max(e for _, e, _ in storages) if storages else 0)
    return (
        '<?xml version="1.0" encoding="UTF-8"?>\n<Parallels_disk_image Version="1.0">'
        f"<Disk_Parameters><Disk_size>{size}</Disk_size><Cylinders>1024</Cylinders><Heads>16</Heads><Sectors>63</Sectors>"
        "<Padding>0</Padding></Disk_Parameters>"
        f"<StorageData>{st}</StorageData><Snapshots>{tg}{sh}</Snapshots>{extra}</Parallels_disk_image>\n"
    )


def _xml_text(s):
    return s.replace("&", "&amp;").replace("<", "&lt;").replace(">", "&gt;")


def write_hdd_dir(path, storages, shots, files, top_guid=DEFAULT_TOP):
    """files: {filename: VirtualFile}. Writes DiskDescriptor.xml and the image files (sparse)."""
    os.makedirs(path, exist_ok=True)
    with open(os.path.join(path, "DiskDescriptor.xml"), "w", encoding="utf-8") as f:
        f.write(descriptor_xml(storages, shots, top_guid))
    for fn, vf in files.items():
        vf.materialise(os.path.join(path, fn))
