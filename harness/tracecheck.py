"""Direction B: validate recorded traces with TLC (batch; one verdict per trace)."""
from __future__ import annotations

import os
import re

from . import record, tlc
from .core import MachineryError

_RE_ACC = re.compile(r'<<"ACCEPT", (-?\d+)>>')
_RE_REJ = re.compile(r'<<"REJECT", (-?\d+), (\d+), "([^"]*)">>')


def validate(module: str, cfg: str, traces: list, *, timeout=1800):
    """Returns (verdicts: {tid: ("accept",) | ("reject", event_index, clause)}, TlcResult)."""
    if not traces:
        raise MachineryError("no traces to validate")
    work = tlc.scratch_dir("trace-")
    path = os.path.join(work, "traces.ndjson")
    record.dump_traces(path, traces)
    try:
        res = tlc.run(module, cfg, workers=1, env={"TRACE_FILE": path}, timeout=timeout, keep_dir=work)
    except tlc.TlcError as e:
        # A recorded result so fragmented that evaluating it exhausts TLC's stack (thousands of byte runs where a handful are
        # possible) cannot be a behaviour of the specification: find the trace(s) concerned, judge the others as usual.
        tlc.cleanup(work)
        if "StackOverflowError" not in str(e):
            raise
        if len(traces) == 1:
            ls = re.findall(r"/\\ l = (\d+)", str(e))
            return {traces[0]["tid"]: ("reject", int(ls[-1]) if ls else 1, "not-evaluable")}, tlc.TlcResult(ok=False, output=str(e)[-4000:])
        verdicts, last = {}, None
        for t in traces:
            v, last = validate(module, cfg, [t], timeout=timeout)
            verdicts.update(v)
        return verdicts, last
    verdicts = {}
    for line in res.output.splitlines():
        m = _RE_ACC.search(line)
        if m:
            verdicts[int(m.group(1))] = ("accept",)
            continue
        m = _RE_REJ.search(line)
        if m:
            verdicts[int(m.group(1))] = ("reject", int(m.group(2)), m.group(3))
    tlc.cleanup(work)
    missing = [t["tid"] for t in traces if t["tid"] not in verdicts]
    if missing:
        raise MachineryError(f"trace validation produced no verdict for {len(missing)} traces (first {missing[:3]}):\n{res.output[-2000:]}")
    return verdicts, res


def judge(ctx, module, cfg, traces, attrs_of, *, label):
    """Validate and turn rejections into violations. attrs_of(trace) -> attrs dict for known-finding matching."""
    verdicts, res = validate(module, cfg, traces)
    ctx.add_tlc(f"{cfg} ({label}, {len(traces)} traces)", res)
    nrej = 0
    for t in traces:
        v = verdicts[t["tid"]]
        ctx.traces_validated += 1
        if v[0] == "reject":
            nrej += 1
            a = dict(attrs_of(t))
            a.update({"fail": "trace-rejected", "clause": v[2]})
            ev = t["events"][v[1] - 1] if 0 < v[1] <= len(t["events"]) else None
            ctx.violation(a, {"kind": "trace", "module": module, "cfg": cfg, "trace": {k: t[k] for k in t if k != "events"},
                              "event_index": v[1], "clause": v[2], "event": ev,
                              "prefix": t["events"][max(0, v[1] - 4): v[1] - 1]})
    return nrej
