"""Shared driver for the per-format disk properties (C01-C06): TLC design check, direction A replay of every
enumerated image, direction B trace validation of random real-geometry images."""
from __future__ import annotations

import random
import traceback

from . import core, diskcheck, tlaparse, tlc, tracecheck


def cfg_constants(cfg):
    try:
        return " ".join(l.strip() for l in open(f"{tlc.SPEC_DIR}/cfg/{cfg}") if l.startswith("CONSTANT") or l.startswith(" "))[:300]
    except OSError:
        return ""


def tlc_check(ctx, module, cfg, *, min_states=50, coverage=True, need_actions=()):
    r = tlc.run(module, cfg, coverage=coverage)
    ctx.add_tlc(cfg, r, cfg_constants(cfg))
    if r.violated:
        ctx.spec_violation(module, cfg, r)
    elif r.distinct < min_states:
        raise core.MachineryError(f"{module}/{cfg}: only {r.distinct} states (vacuous model?)")
    for a in need_actions:
        if coverage and r.ok and r.coverage.get(a, (0, 0))[1] == 0:
            raise core.MachineryError(f"{module}/{cfg}: action {a} never taken (vacuous)")
    return r


def dump_states(ctx, module, cfg):
    """All states of a (small) config, parsed. VERIF_DUMP_CACHE=<dir> lets sub-steps of one check run share dumps."""
    import os
    import pickle

    cache = os.environ.get("VERIF_DUMP_CACHE")
    cpath = os.path.join(cache, f"{module}-{cfg}.pickle") if cache else None
    if cpath and os.path.exists(cpath):
        with open(cpath, "rb") as fh:
            return pickle.load(fh)
    sts = _dump_states(ctx, module, cfg)
    if cpath and sts:
        tmp = cpath + f".{os.getpid()}"
        with open(tmp, "wb") as fh:
            pickle.dump(sts, fh)
        os.replace(tmp, cpath)
    return sts


def _dump_states(ctx, module, cfg):
    r = tlc.run(module, cfg, dump=True)
    ctx.add_tlc(cfg, r, cfg_constants(cfg))
    if r.violated:
        ctx.spec_violation(module, cfg, r)
        tlc.cleanup(r)
        return []
    sts = list(tlaparse.iter_dump(r.dump))
    tlc.cleanup(r)
    if not sts:
        raise core.MachineryError(f"{module}/{cfg}: empty state dump")
    return sts


def replay_states(ctx, fmt, sts, profiles, build, *, attrs_of, cap, sectors_api=None, img_of=lambda st: st["img"],
                  view_of=lambda st: st["view"]):
    """Direction A over all dumped states x profiles, in parallel."""

    def work(sub, chunk, idx):
        r = random.Random(ctx.seed * 1000003 + idx)
        for st in chunk:
            img, view = img_of(st), view_of(st)
            for prof in profiles:
                sel = prof.get("sel", 1)
                if sel > 1 and r.randrange(sel):
                    continue
                if "when" in prof and not prof["when"](img):
                    continue
                try:
                    b = build(img, prof)
                except core.MachineryError:
                    raise
                except Exception as e:  # noqa: BLE001
                    raise core.MachineryError(f"encoder failed for {img} {prof}: {traceback.format_exc()[-1500:]}") from e
                if b is None:
                    continue
                diskcheck.check_image(sub, fmt, img, view, b, r, full=prof.get("full", False), attrs=attrs_of(img, prof),
                                      cap=prof.get("cap", cap), sectors_api=sectors_api, max_len=prof.get("max_len", 8 << 20))
                sub.extra["images_replayed"] = sub.extra.get("images_replayed", 0) + 1
                if len(sub.violations) >= sub.max_violations or sub.extra.get("hangs", 0) >= 2:
                    return  # (a reader that hangs would cost a full watchdog period per image)

    core.parallel(ctx, work, sts)


def traces(ctx, fmt, make_trace, ntraces, module, cfg, attrs_of, label="random real-geometry"):
    """Direction B: make_trace(tid, rng) -> trace dict (runs the real code); validated by TLC."""

    import multiprocessing as mp

    tids = list(range(1, ntraces + 1))
    nproc = min(16, len(tids))
    chunks = [tids[i::nproc] for i in range(nproc)]

    def gen(chunk):
        out, viol = [], []
        for tid in chunk:
            r = random.Random(ctx.seed * 9176 + tid)
            import signal
            disarm = diskcheck.arm_watchdog(60)
            try:
                out.append(make_trace(tid, r))
            except diskcheck.Hang as e:
                viol.append(({"format": fmt, "fail": "hang"}, {"kind": "trace-gen", "tid": tid, "error": str(e)}))
            except core.MachineryError as e:
                return {"err": str(e)}
            except Exception as e:  # noqa: BLE001
                viol.append(({"format": fmt, "fail": "op-raised", "exc": type(e).__name__},
                             {"kind": "trace-gen", "tid": tid, "error": repr(e)[:300], "tb": traceback.format_exc()[-1500:]}))
            finally:
                disarm()
        return {"traces": out, "viol": viol}

    _GEN["fn"] = gen
    with mp.get_context("fork").Pool(nproc) as pool:
        results = pool.map(_gen_call, chunks, chunksize=1)
    all_traces = []
    for r in results:
        if "err" in r:
            raise core.MachineryError(r["err"])
        all_traces += r["traces"]
        for a, d in r["viol"]:
            ctx.violation(a, d)
    all_traces.sort(key=lambda t: t["tid"])
    for t in all_traces[:2]:
        ctx.samples.append(core._jsonable({"trace": {k: t[k] for k in t if k != "events"}, "events": t["events"][:4]}))
    if all_traces:
        tracecheck.judge(ctx, module, cfg, all_traces, attrs_of, label=label)
    ctx.evaluations += sum(len(t["events"]) for t in all_traces)
    ctx.extra["trace_events"] = ctx.extra.get("trace_events", 0) + sum(len(t["events"]) for t in all_traces)
    return all_traces


_GEN = {}


def _gen_call(chunk):
    return _GEN["fn"](chunk)


def many_of(tid):
    """Table-size class of trace `tid`: "mid" = tables of several hundred entries, "big" = tables of several thousand entries
    (more than any page, chunk or cache the reader might split them into), None = a handful."""
    return "mid" if tid % 8 == 0 else "big" if tid % 8 == 4 else "runs" if tid % 8 == 2 else None


def run_plan(rng, n, kinds, lo=17, hi=30):
    """n unit kinds in long homogeneous runs (lo..hi units each, neighbouring runs differ).  With units of 1-2 MiB a run is
    longer than any buffer a reader might keep for zeroes / holes, and whole-disk requests cross every run in one call."""
    out, prev = [], None
    while len(out) < n:
        k = rng.choice([x for x in kinds if x != prev])
        out += [k] * rng.randrange(lo, hi + 1)
        prev = k
    out = out[:n]
    data = [k for k in kinds if str(k).rstrip("r") in ("D", "N")]
    if data and not any(k in data for k in out):
        # at least one run of stored data in every plan
        first = out[0]
        j = 0
        while j < len(out) and out[j] == first:
            out[j] = data[0]
            j += 1
    return out


def run_positions(plan, first=0, data=("D", "Dr")):
    """Placement for the data units of a run plan: runs ascending and contiguous, runs of a kind ending in "r" contiguous but descending.
    -> (positions (None for other kinds), number of positions used)"""
    pos, cur, i = [None] * len(plan), first, 0
    while i < len(plan):
        j = i
        while j < len(plan) and plan[j] == plan[i]:
            j += 1
        if plan[i] in data:
            ln = j - i
            for k in range(ln):
                pos[i + k] = cur + (ln - 1 - k if str(plan[i]).endswith("r") else k)
            cur += ln
        i = j
    return pos, cur - first


def whole_disk_ops(rec, rng, size_b, unit, sectors_fn=None, ssize=512):
    """Single calls that cover the whole disk / most of it."""
    rec.seek(0, 0)
    rec.read(size_b)
    rec.readoffset(rng.randrange(0, 2 * unit) // 8 * 8, size_b)
    rec.seek(unit + rng.choice([0, 512, 8, 4096]), 0)
    rec.read(-1)
    if sectors_fn is not None:
        rec.sectors(sectors_fn, 1, size_b // ssize - 1, ssize)


def twin_index_ops(rec, rng, size_b, unit, period, n=5):
    """Back-to-back requests for units that have the same index in two different mapping tables (`period` = bytes covered by one
    table), then the first one again: what is remembered about a unit must be remembered under the unit's full address."""
    if size_b < 2 * period:
        return
    for _ in range(n):
        a = rng.randrange(0, size_b // unit) * unit
        k = rng.randrange(1, size_b // period + 1)
        b = (a + k * period) % (size_b // unit * unit)
        ln = rng.choice([unit, 512, 4096, unit // 2 or 8]) // 8 * 8 or 8
        for o in (a, b, a):
            if o + ln <= size_b:
                rec.readoffset(o, ln)
