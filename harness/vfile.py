"""VirtualFile: sparse, extent-based, arbitrarily large read-only file object that logs every access.

Extents: (offset, length, kind, arg)
  kind "bytes": arg = literal bytes (len == length)
  kind "pat":   arg = file id f; content = patterns.pat(f, file_offset, n)  (location-coded by *file offset*)
  kind "fn":    arg = callable(offset_in_extent, n) -> bytes (lazily generated content, e.g. compressed clusters)
Bytes outside extents read as zeros.  Mutating methods are refused and recorded (C09).
"""
from __future__ import annotations

import io
from bisect import bisect_right

from . import patterns

MUTATING = ("write", "writelines", "truncate", "flush_write")


class VirtualFile(io.RawIOBase):
    def __init__(self, size: int, extents=None, name: str | None = None, fid: int = 0):
        super().__init__()
        self._size = size
        self._ext = sorted(extents or [], key=lambda e: e[0])
        self._starts = [e[0] for e in self._ext]
        for a, b in zip(self._ext, self._ext[1:]):
            assert a[0] + a[1] <= b[0], f"overlapping extents {a[:2]} {b[:2]}"
        self._pos = 0
        self.fid = fid
        if name is not None:
            self.name = name
        self.io_log = []  # (offset, requested, returned)
        self.bytes_requested = 0
        self.bytes_returned = 0
        self.calls = {}
        self.mutations = []
        self.log_enabled = True

    # -- construction helpers
    def add(self, offset, length, kind, arg):
        self._ext.append((offset, length, kind, arg))
        self._ext.sort(key=lambda e: e[0])
        self._starts = [e[0] for e in self._ext]

    def _note(self, meth):
        self.calls[meth] = self.calls.get(meth, 0) + 1

    # -- file API
    def readable(self):
        self._note("readable")
        return True

    def seekable(self):
        self._note("seekable")
        return True

    def writable(self):
        self._note("writable")
        return False

    def tell(self):
        self._note("tell")
        return self._pos

    def seek(self, pos, whence=0):
        self._note("seek")
        self._check_open()
        if whence == 0:
            if pos < 0:
                raise ValueError("negative seek")
            self._pos = pos
        elif whence == 1:
            self._pos = max(0, self._pos + pos)
        elif whence == 2:
            self._pos = max(0, self._size + pos)
        else:
            raise ValueError("whence")
        return self._pos

    def _gen(self, off, n):
        out = []
        end = off + n
        i = bisect_right(self._starts, off) - 1
        if i < 0:
            i = 0
        cur = off
        while cur < end and i < len(self._ext):
            eo, el, kind, arg = self._ext[i]
            if eo + el <= cur:
                i += 1
                continue
            if eo >= end:
                break
            if eo > cur:
                out.append(bytes(eo - cur))
                cur = eo
            take = min(end, eo + el) - cur
            if kind == "bytes":
                out.append(arg[cur - eo : cur - eo + take])
            elif kind == "pat":
                out.append(patterns.pat(arg, cur, take))
            elif kind == "fn":  # lazily generated: arg(offset_in_extent, n) -> bytes
                out.append(arg(cur - eo, take))
            else:
                raise ValueError(kind)
            cur += take
            i += 1
        if cur < end:
            out.append(bytes(end - cur))
        return b"".join(out)

    def read(self, n=-1):
        self._note("read")
        self._check_open()
        if n is None or n < 0:
            n = max(0, self._size - self._pos)
        req = n
        n = max(0, min(n, self._size - self._pos))
        if n > (1 << 31):
            raise MemoryError(f"VirtualFile: refusing to materialise {n} bytes")
        data = self._gen(self._pos, n) if n else b""
        if self.log_enabled:
            self.io_log.append((self._pos, req, len(data)))
            self.bytes_requested += req
            self.bytes_returned += len(data)
        self._pos += len(data)
        return data

    def readinto(self, b):
        data = self.read(len(b))
        b[: len(data)] = data
        return len(data)

    def readall(self):
        return self.read(-1)

    def readline(self, size=-1):
        """Line-wise access as a buffered file would serve it: chunks of 64 KiB are fetched (and logged) until a newline shows up."""
        self._note("readline")
        start, out = self._pos, []
        limit = self._size - start if size is None or size < 0 else min(size, self._size - start)
        got = 0
        while got < limit:
            chunk = self.read(min(65536, limit - got))
            if not chunk:
                break
            k = chunk.find(b"\n")
            if k >= 0:
                out.append(chunk[:k + 1])
                got += k + 1
                break
            out.append(chunk)
            got += len(chunk)
        self._pos = start + got
        return b"".join(out)

    def peek_bytes(self, off, n):
        """Harness-side access without logging."""
        return self._gen(off, max(0, min(n, self._size - off)))

    def close(self):
        """Closing is effective, as with a real file: a reader that closes a handle its caller gave it breaks every other user of it."""
        self._note("close")
        self._closed_by = True

    def reopen(self):
        """(harness) undo a close()"""
        self._closed_by = False

    def _check_open(self):
        if getattr(self, "_closed_by", False):
            raise ValueError("I/O operation on closed file (VirtualFile)")

    def fileno(self):
        self._note("fileno")
        raise io.UnsupportedOperation("fileno")

    def write(self, b):
        self.mutations.append(("write", len(b)))
        raise io.UnsupportedOperation("VirtualFile is read-only (write recorded)")

    def writelines(self, lines):
        self.mutations.append(("writelines", 0))
        raise io.UnsupportedOperation("VirtualFile is read-only (writelines recorded)")

    def truncate(self, size=None):
        self.mutations.append(("truncate", size))
        raise io.UnsupportedOperation("VirtualFile is read-only (truncate recorded)")

    def size(self):
        return self._size

    def reset_log(self):
        self.io_log = []
        self.bytes_requested = 0
        self.bytes_returned = 0

    def materialise(self, path):
        """Write as a sparse real file."""
        total = sum(e[1] for e in self._ext)
        if total > (8 << 30):
            raise ValueError(f"refusing to materialise {total} bytes of extents into {path}")
        with open(path, "wb") as f:
            f.truncate(self._size)
            for eo, el, kind, arg in self._ext:
                f.seek(eo)
                step = 1 << 22
                o = eo
                while o < eo + el:
                    t = min(step, eo + el - o)
                    f.write(self._gen(o, t))
                    o += t
