"""Independent VMDK encoder: hosted sparse (KDMV; header- or footer-located grain directory; optionally
stream-optimised/compressed), ESX COWD sparse, SE-sparse, descriptors.  Written from the VMware Virtual Disk Format
5.0 specification, libvmdk's format notes and qemu's block/vmdk.c (SE-sparse).  Little-endian."""
from __future__ import annotations

import struct
import zlib

from . import patterns
from .vfile import VirtualFile

SECTOR = 512
FLAG_NEWLINE, FLAG_RGD, FLAG_ZERO_GTE, FLAG_COMPRESSED, FLAG_LBA = 1, 2, 4, 0x10000, 0x20000
GD_AT_END = 0xFFFFFFFFFFFFFFFF


def descriptor_text(extents, *, cid="fffffffe", parent_cid="ffffffff", create_type="monolithicSparse", parent_hint=None,
                    ddb=None, extra=None):
    """extents: list of raw extent lines (without trailing newline)."""
    lines = ["# Disk DescriptorFile", "version=1", f"CID={cid}", f"parentCID={parent_cid}", f'createType="{create_type}"']
    if parent_hint is not None:
        lines.append(f'parentFileNameHint="{parent_hint}"')
    for k, v in (extra or {}).items():
        lines.append(f"{k}={v}")
    lines += ["", "# Extent description"] + list(extents) + ["", "# The Disk Data Base", "#DDB", ""]
    for k, v in (ddb or {"ddb.virtualHWVersion": "4", "ddb.adapterType": "ide"}).items():
        lines.append(f'{k} = "{v}"')
    return "\n".join(lines) + "\n"


def hosted_header(capacity, grain, desc_off, desc_size, gtes, rgd_off, gd_off, overhead, flags, compress=0, magic=b"KDMV",
                  version=1, unclean=0):
    h = struct.pack("<4sIIQQQQIQQQB4sH", magic, version, flags, capacity, grain, desc_off, desc_size, gtes, rgd_off, gd_off,
                    overhead, unclean, b"\n \r\n", compress)
    return h.ljust(512, b"\0")


def embed(img, K, gtes_real):
    """Scale embedding of an abstract Vmdk image: abstract grain -> K consecutive real grains with consecutive
    placement; returns (real_entries list, real_gt_present list)."""
    ng = len(img["gt"])
    gtesA = img["gtes"]
    assert (K * gtesA) % gtes_real == 0 or (gtes_real % (K * gtesA) == 0 and False), (K, gtesA, gtes_real)
    ents = []
    for a in range(ng):
        e = img["gt"][a]
        for j in range(K):
            if e["t"] == "D":
                ents.append(("D", e["p"] * K + j))
            else:
                ents.append((e["t"], 0))
    ngt = -(-len(ents) // gtes_real)
    present = []
    for t in range(ngt):
        a_gt = (t * gtes_real // K) // gtesA
        present.append(bool(img["gd"][a_gt]))
    return ents, present


def _grain_blob(q, grain_bytes, *, compressed, lba, lba_value=0, level=6, noise=0):
    if not compressed:
        return None
    raw = patterns.npat(q, noise, 0, grain_bytes)
    comp = zlib.compress(raw, level)
    hdr = struct.pack("<QI", lba_value, len(comp)) if lba else struct.pack("<I", len(comp))
    return hdr + comp


def build_hosted(ents, present, *, capacity, grain, gtes, footer=False, compressed=False, lba=True, file_id=0, desc=None,
                 slot_mult=1, level=6, rgd=False, max_pos=None, name=None, magic=b"KDMV", version=1, zero_gte=True,
                 tight=False, noise=None, data_base_min=0, rgd_off=0, unclean=0, csalt=0, desc_slack=1):
    """ents: per real grain ("U"|"Z"|"D", q); present: per real grain table bool.
    capacity, grain in sectors.  data_base_min: first sector of the grain data area is at least this (sector numbers
    beyond 2^31; with a footer the tables follow the data, so directory entries are that large as well).
    Returns (VirtualFile, info)."""
    gbytes = grain * SECTOR
    ngd = -(-capacity // (gtes * grain))
    assert len(present) >= ngd, (len(present), ngd)
    desc_b = (desc or descriptor_text([f'RW {capacity} SPARSE "disk.vmdk"'])).encode()
    desc_size = -(-len(desc_b) // SECTOR) + desc_slack     # desc_slack = 0: the descriptor may fill its sectors to the last byte
    desc_off = 1
    cur = desc_off + desc_size
    flags = FLAG_NEWLINE | (FLAG_ZERO_GTE if zero_gte else 0) | (FLAG_COMPRESSED if compressed else 0) | (FLAG_LBA if compressed and lba else 0)
    slot = grain * slot_mult
    used = [q for t, q in ents if t == "D"]
    top = (max(used) + 1) if used else 0
    if max_pos is not None:
        top = max(top, max_pos)
    blobs, tight_sector = {}, {}
    if compressed and tight:
        # stream-optimised layout: compressed grains packed back to back at sector granularity, in position order
        cur_s = 0
        for q in sorted(used):
            blobs[q] = _grain_blob(q + csalt, gbytes, compressed=True, lba=lba, level=level, noise=(noise or {}).get(q, 0))
            tight_sector[q] = cur_s
            cur_s += -(-len(blobs[q]) // SECTOR)
        top_sectors = cur_s
    gd_sectors = -(-(ngd * 4) // SECTOR)
    gt_sectors = -(-(gtes * 4) // SECTOR)
    ext = []

    def layout_tables(start):
        gd_off = start
        gt0 = gd_off + gd_sectors
        return gd_off, gt0, gt0 + ngd * gt_sectors

    if not footer:
        gd_off, gt0, cur = layout_tables(cur)
        data_base = -(-max(cur, data_base_min) // slot) * slot
        end = data_base + (top_sectors if tight_sector else top * slot)
    else:
        data_base = -(-max(cur, data_base_min) // slot) * slot
        end_data = data_base + (top_sectors if tight_sector else top * slot)
        gd_off, gt0, end = layout_tables(end_data)
    # grain directory + tables
    gd = []
    for t in range(ngd):
        gd.append(gt0 + t * gt_sectors if present[t] else 0)
        if present[t]:
            tab = []
            for r in range(t * gtes, (t + 1) * gtes):
                if r < len(ents):
                    k, q = ents[r]
                    tab.append(0 if k in ("U", "F") else 1 if k == "Z" else (data_base + tight_sector[q] if tight_sector else data_base + q * slot))
                else:
                    tab.append(0)
            ext.append(((gt0 + t * gt_sectors) * SECTOR, gtes * 4, "bytes", struct.pack(f"<{gtes}I", *tab)))
    ext.append((gd_off * SECTOR, ngd * 4, "bytes", struct.pack(f"<{ngd}I", *gd)))
    ext.append((desc_off * SECTOR, len(desc_b), "bytes", desc_b))
    # data
    if compressed:
        for k, q in ents:
            if k == "D" and tight_sector:
                ext.append(((data_base + tight_sector[q]) * SECTOR, len(blobs[q]), "bytes", blobs[q]))
            elif k == "D":
                blob = _grain_blob(q + csalt, gbytes, compressed=True, lba=lba, level=level, noise=(noise or {}).get(q, 0))
                assert len(blob) <= slot * SECTOR, ("compressed grain does not fit its slot", len(blob), slot * SECTOR)
                ext.append(((data_base + q * slot) * SECTOR, len(blob), "bytes", blob))
    elif top:
        ext.append((data_base * SECTOR, top * slot * SECTOR, "pat", file_id))
    overhead = data_base
    if footer:
        hdr = hosted_header(capacity, grain, desc_off, desc_size, gtes, rgd_off, GD_AT_END, overhead, flags, 1 if compressed else 0, magic, version, unclean)
        ftr = hosted_header(capacity, grain, desc_off, desc_size, gtes, rgd_off, gd_off, overhead, flags, 1 if compressed else 0, magic, version, unclean)
        ext.append((0, 512, "bytes", hdr))
        ext.append((end * SECTOR, 512, "bytes", ftr))
        fsize = (end + 2) * SECTOR  # footer sector + end-of-stream marker sector
    else:
        hdr = hosted_header(capacity, grain, desc_off, desc_size, gtes, rgd_off, gd_off, overhead, flags, 1 if compressed else 0, magic, version, unclean)
        ext.append((0, 512, "bytes", hdr))
        fsize = max(end * SECTOR, max(e[0] + e[1] for e in ext))
    vf = VirtualFile(fsize, ext, fid=file_id, name=name)
    return vf, {"data_base": data_base * SECTOR, "ngd": ngd, "slot": slot * SECTOR, "gd_off": gd_off}


def build_cowd(ents, present, *, capacity, grain, file_id=0, name=None, max_pos=None, magic=b"COWD", data_base_min=0):
    """ESX COWD sparse: 32-bit header fields, 4096-entry grain tables."""
    gtes = 4096
    ngd = -(-capacity // (gtes * grain))
    assert len(present) >= ngd
    gd_off = 4  # sectors (header is 2048 bytes in real files)
    gd_sectors = -(-(ngd * 4) // SECTOR)
    gt0 = gd_off + gd_sectors
    gt_sectors = gtes * 4 // SECTOR
    cur = gt0 + ngd * gt_sectors
    data_base = -(-max(cur, data_base_min) // grain) * grain
    used = [q for t, q in ents if t == "D"]
    top = max((max(used) + 1) if used else 0, max_pos or 0)
    ext = []
    gd = []
    for t in range(ngd):
        gd.append(gt0 + t * gt_sectors if present[t] else 0)
        if present[t]:
            tab = []
            for r in range(t * gtes, (t + 1) * gtes):
                if r < len(ents):
                    k, q = ents[r]
                    assert k != "Z"
                    tab.append(0 if k in ("U", "F") else data_base + q * grain)
                else:
                    tab.append(0)
            ext.append(((gt0 + t * gt_sectors) * SECTOR, gtes * 4, "bytes", struct.pack(f"<{gtes}I", *tab)))
    ext.append((gd_off * SECTOR, ngd * 4, "bytes", struct.pack(f"<{ngd}I", *gd)))
    hdr = struct.pack("<4sIIIIIII", magic, 1, 3, capacity, grain, gd_off, ngd, data_base + top * grain)
    ext.append((0, len(hdr), "bytes", hdr))
    if top:
        ext.append((data_base * SECTOR, top * grain * SECTOR, "pat", file_id))
    fsize = max(e[0] + e[1] for e in ext)
    vf = VirtualFile(fsize, ext, fid=file_id, name=name)
    return vf, {"data_base": data_base * SECTOR, "ngd": ngd, "slot": grain * SECTOR}


SE_MAGIC = 0xCAFEBABE


def se_gte(kind, q):
    if kind == "U":
        return 0
    if kind == "F":
        return 0x1000000000000000
    if kind == "Z":
        return 0x2000000000000000
    # allocated: cluster index split as in qemu's vmdk.c
    return 0x3000000000000000 | ((q & 0xFFF) << 48) | (q >> 12)


def build_sesparse(ents, present, *, capacity, grain, gt_sectors=64, file_id=0, name=None, max_pos=None, pos_base=0,
                   magic=SE_MAGIC, version=0x0000000200000001):
    """SE-sparse: 64-bit entries; grain tables of gt_sectors*64 entries; pos_base shifts cluster indices (to exercise the
    high 12-bit field)."""
    gtes = gt_sectors * SECTOR // 8
    ngd = -(-capacity // (gtes * grain))
    assert len(present) >= ngd
    gd_sectors = max(1, -(-(ngd * 8) // SECTOR))
    hdr_sectors = 1
    vol_off, vol_sz = 1, 1
    jh_off, jh_sz = 2, 1
    j_off, j_sz = 3, 1
    gd_off = 4
    gt_off = gd_off + gd_sectors
    gts_sz = ngd * gt_sectors
    bm_off = gt_off + gts_sz
    grains_off = -(-(bm_off + 2) // grain) * grain
    used = [q for t, q in ents if t == "D"]
    top = max((max(used) + 1) if used else 0, max_pos or 0)
    ext = []
    gd = []
    ngt_present = 0
    for t in range(ngd):
        if present[t]:
            gd.append(0x1000000000000000 | ngt_present)
            tab = []
            for r in range(t * gtes, (t + 1) * gtes):
                if r < len(ents):
                    k, q = ents[r]
                    tab.append(se_gte(k, q + pos_base if k == "D" else 0))
                else:
                    tab.append(0)
            ext.append(((gt_off + ngt_present * gt_sectors) * SECTOR, gtes * 8, "bytes", struct.pack(f"<{gtes}Q", *tab)))
            ngt_present += 1
        else:
            gd.append(0)
    ext.append((gd_off * SECTOR, ngd * 8, "bytes", struct.pack(f"<{ngd}Q", *gd)))
    fields = [magic, version, capacity, grain, gt_sectors, 0, 0, 0, 0, 0, vol_off, vol_sz, jh_off, jh_sz, j_off, j_sz,
              gd_off, gd_sectors, gt_off, gts_sz, bm_off, 1, bm_off + 1, 1, grains_off, (top + pos_base) * grain]
    hdr = struct.pack("<26Q", *fields).ljust(512, b"\0")
    ext.append((0, 512, "bytes", hdr))
    ext.append((vol_off * SECTOR, 8, "bytes", struct.pack("<Q", SE_MAGIC)))
    if top:
        ext.append(((grains_off + pos_base * grain) * SECTOR, top * grain * SECTOR, "pat", file_id))
    fsize = max(e[0] + e[1] for e in ext)
    vf = VirtualFile(fsize, ext, fid=file_id, name=name)
    return vf, {"data_base": (grains_off + pos_base * grain) * SECTOR, "ngd": ngd, "slot": grain * SECTOR}
