"""Independent ESXi envelope / keystore encoder (layout from the committed sample; AES-256-GCM via pycryptodome)."""
from __future__ import annotations

import base64
import hashlib
import struct
import uuid
from urllib.parse import quote

from Crypto.Cipher import AES

BLOCK = 4096
T_U8, T_U16, T_U32, T_U64, T_I8, T_I16, T_I32, T_I64, T_FLOAT, T_DOUBLE, T_STRING, T_BYTES = range(1, 13)
FIXED = {T_U8: "<B", T_U16: "<H", T_U32: "<I", T_U64: "<Q", T_I8: "<b", T_I16: "<h", T_I32: "<i", T_I64: "<q", T_FLOAT: "<f", T_DOUBLE: "<d"}
SALT = b"This is obfuscation, not encryption. If you want encryption, use TPM."


def attr_record(atype, name: str, value, flag=0, reserved=0):
    b = struct.pack("<BBH", atype, flag, reserved) + name.encode() + b"\0"
    if atype == T_STRING:
        return b + value.encode() + b"\0"
    if atype == T_BYTES:
        return b + struct.pack("<Q", len(value)) + bytes(value)
    return b + struct.pack(FIXED[atype], value)


def header_block(attrs, *, magic=b"DataTransformEnvelope", version=2):
    """attrs: [(type, name, value, flag)] -> header padded to a multiple of 4096 bytes."""
    body = b"".join(attr_record(t, n, v, f) for t, n, v, f in attrs) + bytes(4)
    total = -(-(512 + len(body)) // BLOCK) * BLOCK
    first = magic.ljust(504, b"\0") + struct.pack("<II", total - 512, version)
    return (first + body).ljust(total, b"\0")


def crypto_footer(padding, version=1, magic=b"DataTransformCryptoFooter"):
    return bytes(BLOCK - 512) + magic.ljust(504, b"\0") + struct.pack("<II", padding, version)


def aead_footer(tag, version=1, magic=b"DataTransformAeadFooter", size=None):
    b = magic.ljust(32, b"\0") + tag.ljust(4056, b"\0") + struct.pack("<II", len(tag) if size is None else size, version)
    assert len(b) == BLOCK
    return b


def std_attrs(key, iv, key_id, cipher="AES-256-GCM", extra=(), order=None):
    attrs = [(T_STRING, "vmware.keyInfo", key_id, 0), (T_STRING, "vmware.cipherName", cipher, 0),
             (T_BYTES, "vmware.keyHash", hashlib.sha256(cipher.encode() + key).digest(), 0), (T_BYTES, "vmware.iv", iv, 0)] + list(extra)
    if order:
        attrs = [attrs[i] for i in order]
    return attrs


def seal(payload: bytes, key: bytes, iv: bytes, attrs, aad: bytes | None = None, padding: int | None = None):
    hdr = header_block(attrs)
    if padding is None:
        padding = (-len(payload)) % BLOCK
    plain = payload + bytes(padding) + crypto_footer(padding)
    c = AES.new(key, AES.MODE_GCM, nonce=iv)
    c.update(hdr)
    if aad:
        c.update(aad)
    ct, tag = c.encrypt_and_digest(plain)
    return hdr + ct + aead_footer(tag), {"hdr_len": len(hdr), "ct_len": len(ct), "padding": padding}


def keystore_text(key_id: uuid.UUID, data1: bytes, data2: bytes, *, mode="NONE", style=0, esc_case="esxi", order=(0, 1, 2, 3)):
    """esc_case: how the percent escapes of '=', '+', '/' are written - "esxi" (%3d lower, others as urllib writes them),
    "lower", "upper", "mixed" (RFC 3986: hex digits of an escape are case-insensitive) or "none" (base64 left unescaped)."""
    def enc(b):
        t = base64.b64encode(b).decode()
        if esc_case == "none":
            return t
        q = quote(t, safe="")
        if esc_case == "esxi":
            return q.replace("%3D", "%3d")
        if esc_case == "lower":
            return q.replace("%3D", "%3d").replace("%2B", "%2b").replace("%2F", "%2f")
        if esc_case == "mixed":
            return q.replace("%3D", "%3d").replace("%2B", "%2B").replace("%2F", "%2f")
        return q
    pairs = [f"keyId={enc(key_id.bytes)}", f"data1={enc(data1)}", f"data2={enc(data2)}", "version=1"]
    ced = ":".join(pairs[k] for k in order)
    if style == 0:
        return f'.encoding = "UTF-8"\nincludeKeyCache = "FALSE"\nmode = "{mode}"\nConfigEncData = "{ced}"\n'
    if style == 1:
        return f'# comment\n\n.encoding = "UTF-8"\nmode="{mode}"\r\n  ConfigEncData  =  "{ced}"  \nincludeKeyCache = "FALSE"\n'
    return f'ConfigEncData = "{ced}"\nmode = "{mode}"\n'


def derive_key(data1: bytes, data2: bytes) -> bytes:
    return hashlib.pbkdf2_hmac("sha256", data1 + SALT, data2, 100000)
