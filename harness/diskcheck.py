"""Spec -> code replay of one abstract image on the real reader (direction A), generic over formats."""
from __future__ import annotations

import random
import traceback

from . import disk


def _exc(e):
    return f"{type(e).__name__}: {e}"[:300]


class Hang(BaseException):
    pass


def _on_alarm(signum, frame):
    raise Hang("operation did not return within the watchdog limit")


def arm_watchdog(limit):
    """Watchdog on *processor* time (`limit` seconds of this process' CPU - user and system -, SIGPROF) with a wall-clock cap of ten times as much
    (SIGALRM): on a loaded machine a call that needs three seconds may take thirty; a call that sleeps or blocks is still stopped.
    Returns a disarm() function."""
    import signal

    old_v = signal.signal(signal.SIGPROF, _on_alarm)
    old_r = signal.signal(signal.SIGALRM, _on_alarm)
    signal.setitimer(signal.ITIMER_PROF, limit)
    signal.alarm(10 * limit)

    def disarm():
        signal.setitimer(signal.ITIMER_PROF, 0)
        signal.alarm(0)
        signal.signal(signal.SIGPROF, old_v)
        signal.signal(signal.SIGALRM, old_r)
    return disarm


def with_watchdog(fn, limit):
    """Run fn() under the watchdog; raises Hang when it does not return within `limit` seconds of processor time."""
    disarm = arm_watchdog(limit)
    try:
        return fn()
    finally:
        disarm()


def check_image(ctx, fmt, img, view, built, rng, **kw):
    """Watchdog wrapper: a reader that does not return within `limit` seconds is a violation, not a hung check."""
    import signal

    limit = kw.pop("limit", 30)
    disarm = arm_watchdog(limit)
    try:
        return _check_image(ctx, fmt, img, view, built, rng, **kw)
    except Hang as e:
        a = dict(kw.get("attrs", {}))
        a.update({"format": fmt, "fail": "hang"})
        ctx.extra["hangs"] = ctx.extra.get("hangs", 0) + 1
        ctx.violation(a, {"format": fmt, "img": img, "profile": built.note, "error": str(e)})
        return False
    finally:
        disarm()


def _check_image(ctx, fmt, img, view, built: disk.Built, rng: random.Random, *, full: bool, attrs: dict,
                cap: int = 64, sectors_api=None, fresh_every: int = 7, extra_requests=(), max_len: int = 8 << 20):
    """Replay all derived requests of one concretised image. Returns True when everything matched.

    sectors_api: callable(stream, sector, count) -> bytes, or None."""
    view = disk.norm_view(view)
    a = dict(attrs)
    a.update({"format": fmt})
    a.update(disk.view_features(view))
    det = {"format": fmt, "img": img, "profile": built.note}
    try:
        s = built.open()
    except Exception as e:  # noqa: BLE001
        a["fail"] = "open-raised"
        a["exc"] = type(e).__name__
        ctx.violation(a, {**det, "error": _exc(e), "tb": traceback.format_exc()[-1500:]})
        return False
    ctx.case()
    if getattr(s, "size", None) != built.size:
        a["fail"] = "size"
        ctx.violation(a, {**det, "expected_size": built.size, "got_size": getattr(s, "size", None)})
        return False
    ncells = len(view)
    reqs = disk.requests_for(ncells, built.cell, built.size, rng, full=full, cap=cap, max_len=max_len) + list(extra_requests)
    for idx, (o, n) in enumerate(reqs):
        exp = disk.expected(view, o, n, built)
        oc, nc = o // built.cell, (o + n - 1) // built.cell - o // built.cell + 1
        nt = disk.nontrivial(view, oc, nc)
        ctx.case(key=(fmt, repr(sorted(built.note.items())), repr(img), o, n) if nt else None, nontrivial=nt,
                 sample={"format": fmt, "img": img, "profile": built.note, "read": [o, n], "expect": disk.describe(exp, built.cell)}
                 if nt and idx % 5 == 0 else None)
        try:
            s.seek(o)
            got = s.read(n)
            pos = s.tell()
        except Exception as e:  # noqa: BLE001
            a.update({"fail": "read-raised", "exc": type(e).__name__, "api": "read"})
            ctx.violation(a, {**det, "read": [o, n], "error": _exc(e), "tb": traceback.format_exc()[-1500:]})
            return False
        if got != exp or pos != o + len(exp):
            a.update({"fail": "read-mismatch", "api": "read", "multi_cell": nc > 1})
            ctx.violation(a, {**det, "read": [o, n], "diff": disk.first_diff(exp, got), "pos": pos,
                              "expected": disk.describe(exp, built.cell), "got": disk.describe(got, built.cell)})
            return False
        if fresh_every and idx % fresh_every == 0:
            # history independence: the same request on a fresh object
            try:
                s2 = built.open()
                s2.seek(o)
                got2 = s2.read(n)
            except Exception as e:  # noqa: BLE001
                a.update({"fail": "read-raised", "exc": type(e).__name__, "api": "read-fresh"})
                ctx.violation(a, {**det, "read": [o, n], "error": _exc(e)})
                return False
            if got2 != exp:
                a.update({"fail": "read-mismatch", "api": "read-fresh", "multi_cell": nc > 1})
                ctx.violation(a, {**det, "read": [o, n], "diff": disk.first_diff(exp, got2),
                                  "expected": disk.describe(exp, built.cell), "got": disk.describe(got2, built.cell)})
                return False
        if sectors_api and o % built.sector == 0 and n % built.sector == 0 and o + n <= built.size:
            try:
                got3 = sectors_api(s, o // built.sector, n // built.sector)
            except Exception as e:  # noqa: BLE001
                a.update({"fail": "read-raised", "exc": type(e).__name__, "api": "read_sectors"})
                ctx.violation(a, {**det, "read": [o, n], "error": _exc(e), "tb": traceback.format_exc()[-1500:]})
                return False
            if got3 != exp:
                a.update({"fail": "read-mismatch", "api": "read_sectors", "multi_cell": nc > 1})
                ctx.violation(a, {**det, "read": [o, n], "diff": disk.first_diff(exp, got3),
                                  "expected": disk.describe(exp, built.cell), "got": disk.describe(got3, built.cell)})
                return False
    return True
