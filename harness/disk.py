"""Generic spec->code replay for disk readers: expected bytes from a TLA+ guest view, request derivation,
comparison.  Nothing here imports dissect.hypervisor; the real reader is reached through Built.open()."""
from __future__ import annotations

import io
import random
from dataclasses import dataclass, field
from typing import Callable

from . import patterns

PARENT_F = 0xA0  # pattern file id used for "whatever the next layer holds at this guest offset"


@dataclass
class Built:
    open: Callable  # () -> opened real stream object (fresh)
    cell: int  # bytes per abstract cell
    size: int  # expected virtual size in bytes
    bases: dict = field(default_factory=dict)  # file id -> byte offset of abstract host cell 0
    files: list = field(default_factory=list)
    has_parent: bool = False
    sector: int = 512
    note: dict = field(default_factory=dict)
    parent_base: int = 0  # byte offset added to guest offset for the parent's pattern
    tok_bytes: object = None  # optional override: (tok, a, n) -> bytes for D tokens (e.g. compressed grains)
    cb: int = 1  # cells per allocation unit (for D tokens: c = position * cb + cell in unit)
    stride: int = 0  # bytes between consecutive unit positions (0 -> cb * cell)
    fids: dict = field(default_factory=dict)  # token file f -> pattern file id actually stored (identity of this image)
    csalt: int = 0  # added to the unit id of compressed content

    def __post_init__(self):
        raw, state = self.open, {"n": 0}

        def opener():
            """Every other open is preceded by a short-lived object on the same handle(s): used in a `with` block, dropped and
            collected.  What a reader does when it is closed or finalised must not reach the handles its caller owns."""
            state["n"] += 1
            if state["n"] % 2 == 1:
                import gc
                try:
                    tmp = raw()
                    if hasattr(tmp, "__enter__"):
                        with tmp:
                            tmp.read(1)
                    elif hasattr(tmp, "close"):
                        tmp.close()
                    del tmp
                    gc.collect()
                except Exception:  # noqa: BLE001   (whatever is wrong with opening shows on the real open below)
                    pass
            return raw()
        self.open = opener

    def geo(self, nfiles=1):
        g = {"cellB": self.cell, "cb": self.cb, "stride": self.stride or self.cb * self.cell,
             "bases": [self.bases.get(f, 0) for f in range(nfiles)], "pbase": self.parent_base}
        if self.fids:
            g["fids"] = [self.fids.get(f, f) for f in range(max(nfiles, max(self.fids) + 1))]
        if self.csalt:
            g["csalt"] = self.csalt
        return g


class ParentStream(io.RawIOBase):
    """Stands in for 'the next layer': byte x of the guest address space reads as pat(PARENT_F, x)."""

    def __init__(self, size, f=PARENT_F, sector=512):
        super().__init__()
        self.size = size
        self.f = f
        self._pos = 0
        self.sector = sector
        self.calls = 0

    def seek(self, pos, whence=0):
        if whence == 0:
            self._pos = pos
        elif whence == 1:
            self._pos += pos
        else:
            self._pos = self.size + pos
        return self._pos

    def tell(self):
        return self._pos

    def read(self, n=-1):
        if n is None or n < 0:
            n = self.size - self._pos
        n = max(0, min(n, self.size - self._pos))
        d = patterns.pat(self.f, self._pos, n)
        self._pos += n
        self.calls += 1
        return d

    def _read(self, offset, length):
        self.calls += 1
        n = max(0, min(length, self.size - offset))
        return patterns.pat(self.f, offset, n) + bytes(length - n)

    def read_sectors(self, sector, count):
        self.calls += 1
        off = sector * self.sector
        n = count * self.sector
        m = max(0, min(n, self.size - off))
        return patterns.pat(self.f, off, m) + bytes(n - m)


def norm_view(view):
    """TLC prints 0-based functions as dicts; 1-based ones as lists."""
    if isinstance(view, dict):
        return [view[i] for i in range(len(view))]
    return list(view)


def token_bytes(tok, a, b, built: Built):
    """bytes [a, b) (relative to the cell start) of a cell whose source is `tok`."""
    k = tok["k"]
    n = b - a
    if built.tok_bytes is not None:
        r = built.tok_bytes(tok, a, n)
        if r is not None:
            return r
    if k == "Z":
        return bytes(n)
    if k == "D":
        c = tok["c"]
        stride = built.stride or built.cb * built.cell
        return patterns.pat(built.fids.get(tok["f"], tok["f"]), built.bases[tok["f"]] + (c // built.cb) * stride + (c % built.cb) * built.cell + a, n)
    if k == "B":
        if built.has_parent:
            return patterns.pat(PARENT_F, built.parent_base + tok["c"] * built.cell + a, n)
        return bytes(n)
    if k == "C":
        return patterns.cpat(tok["f"] + built.csalt, tok["c"] * built.cell + a, n)
    raise ValueError(tok)


def expected(view, off, n, built: Built) -> bytes:
    """Expected bytes of read (off, n) (byte units), clamped to the disk size."""
    end = min(off + max(n, 0), built.size) if n >= 0 else built.size
    if off >= end:
        return b""
    cell = built.cell
    out = []
    c = off // cell
    cur = off
    while cur < end:
        cs = c * cell
        a = cur - cs
        b = min(end, cs + cell) - cs
        out.append(token_bytes(view[c], a, b, built))
        cur = cs + b
        c += 1
    return b"".join(out)


def first_diff(a: bytes, b: bytes):
    if len(a) != len(b):
        m = min(len(a), len(b))
        for i in range(0, m, 4096):
            if a[i : i + 4096] != b[i : i + 4096]:
                break
        else:
            return ("length", len(a), len(b))
    n = min(len(a), len(b))
    lo = 0
    step = 1 << 16
    while lo < n and a[lo : lo + step] == b[lo : lo + step]:
        lo += step
    for i in range(lo, min(n, lo + step)):
        if a[i] != b[i]:
            return ("byte", i, a[i : i + 8].hex(), b[i : i + 8].hex())
    return ("length", len(a), len(b))


def describe(buf: bytes, cell: int):
    """Human-readable decode of result bytes (for replay files)."""
    unit = 512 if cell % 512 == 0 else cell
    runs = patterns.decode_runs(buf[: (len(buf) // unit) * unit], unit)
    return {"len": len(buf), "unit": unit, "runs": runs[:12]}


def requests_for(ncells: int, cell: int, size: int, rng: random.Random, *, full: bool, jitter: bool = True, cap: int = 64,
                 max_len: int = 8 << 20):
    """(offset, length) byte requests derived from the abstract cell grid.

    full=True: every cell-aligned (o, n) with o+n <= ncells plus byte-jittered variants;
    full=False: windows straddling every cell boundary plus a few spans (for large cells)."""
    reqs = []
    if full:
        for o in range(ncells):
            for n in range(1, ncells - o + 1):
                reqs.append((o * cell, min(n * cell, size - o * cell)))
    else:
        for bnd in range(0, ncells + 1):
            x = bnd * cell
            for lo, hi in ((512, 512), (1, 1), (4096, 8192), (min(cell // 2, max_len // 2), min(cell // 2, max_len // 2) + 512)):
                a = max(0, x - lo)
                b = min(size, x + hi)
                if b > a:
                    reqs.append((a, b - a))
        reqs.append((0, size))
        for o in range(ncells):
            for n in (2, 3):
                if o + n <= ncells and n * cell <= max_len:
                    reqs.append((o * cell + cell // 2, min(n * cell, size - o * cell - cell // 2)))
    if jitter:
        extra = []
        for (o, n) in rng.sample(reqs, min(len(reqs), 12)):
            for d0, d1 in ((1, 0), (0, -1), (511, 1), (-1, 2), (7, -7), (513, 0)):
                a = o + d0
                b = o + n + d1
                if 0 <= a < b <= size:
                    extra.append((a, b - a))
        reqs += extra
    reqs = [(o, min(n, max_len)) for (o, n) in reqs if n > 0 and o < size]
    # dedupe, keep order
    seen = set()
    out = []
    for r in reqs:
        if r not in seen:
            seen.add(r)
            out.append(r)
    if len(out) > cap:
        head = out[: cap // 2]
        rest = out[cap // 2 :]
        out = head + rng.sample(rest, cap - len(head))
    return out


def nontrivial(view, o_cell, n_cell):
    """A request is non-trivial when it crosses a source change (kind change or placement discontinuity)."""
    prev = None
    for i in range(o_cell, min(len(view), o_cell + n_cell)):
        t = view[i]
        if prev is not None:
            if t["k"] != prev["k"] or (t["k"] in ("D", "C", "B") and (t["f"] != prev["f"] or t["c"] != prev["c"] + 1)):
                return True
        prev = t
    return False


def view_features(view):
    kinds = sorted({t["k"] for t in view})
    disc = nontrivial(view, 0, len(view))
    return {"kinds": "".join(kinds), "discontinuous": disc}


class SectorAdapter(io.RawIOBase):
    """Stream facade over an object that only offers read_sectors(sector, count) (e.g. vmdk.SparseDisk)."""

    def __init__(self, obj, size, sector=512):
        super().__init__()
        self.obj = obj
        self.size = size
        self.sector = sector
        self._pos = 0

    def seek(self, pos, whence=0):
        self._pos = pos if whence == 0 else self._pos + pos if whence == 1 else self.size + pos
        return self._pos

    def tell(self):
        return self._pos

    def read(self, n=-1):
        if n is None or n < 0:
            n = self.size - self._pos
        n = max(0, min(n, self.size - self._pos))
        if n == 0:
            return b""
        s0 = self._pos // self.sector
        s1 = -(-(self._pos + n) // self.sector)
        buf = self.obj.read_sectors(s0, s1 - s0)
        a = self._pos - s0 * self.sector
        self._pos += n
        return buf[a : a + n]

    def readoffset(self, o, n):
        self.seek(o)
        return self.read(n)

    def read_sectors(self, sector, count):
        return self.obj.read_sectors(sector, count)
