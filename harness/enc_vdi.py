"""Independent VDI encoder (VDICore.h layout, little-endian). Does not import dissect.hypervisor."""
from __future__ import annotations

import struct

from .vfile import VirtualFile

SIG = 0xBEDA107F
HDR = struct.Struct("<64sIIIII256sIIIIIIIQIIII16s16s16s16s")  # 64-byte pre-header + v1.1 header (0x190)


def header(blocks_offset, data_offset, disk_size, block_size, nblocks, nalloc, sector_size=512, sig=SIG,
           version=0x00010001, header_size=0x190, image_type=1, flags=0, desc=b"", uuid=b"\x11" * 16,
           uuid_snap=b"\x22" * 16, uuid_link=bytes(16), uuid_parent=bytes(16), extra=0, text=None):
    text = text if text is not None else b"<<< Oracle VM VirtualBox Disk Image >>>\n"
    return HDR.pack(text, sig, version, header_size, image_type, flags, desc, blocks_offset, data_offset,
                    0, 0, 0, sector_size, 0, disk_size, block_size, extra, nblocks, nalloc,
                    uuid, uuid_snap, uuid_link, uuid_parent)


def build(img, *, block_size=1 << 20, blocks_offset=512, data_offset=None, file_id=0, P=None, hdr_kw=None,
          name=None, pad_map_entries=0):
    """img: {"n","cb","map": {blk: entry}|list, "size": cells, "parent": bool}.

    Returns (VirtualFile, cell_bytes, data_offset, size_bytes)."""
    n, cb = img["n"], img["cb"]
    m = img["map"]
    entries = [m[i] for i in range(n)]
    cell = block_size // cb
    assert cell * cb == block_size
    map_bytes = struct.pack(f"<{n}i", *entries) + b"\xff" * (4 * pad_map_entries)
    if data_offset is None:
        data_offset = (blocks_offset + len(map_bytes) + 511) // 512 * 512
    assert data_offset >= blocks_offset + len(map_bytes)
    npos = (max([e for e in entries if e >= 0], default=-1) + 1) if P is None else P
    size_bytes = img["size"] * cell
    h = header(blocks_offset, data_offset, size_bytes, block_size, n, sum(1 for e in entries if e >= 0), **(hdr_kw or {}))
    ext = [(0, len(h), "bytes", h), (blocks_offset, len(map_bytes), "bytes", map_bytes)]
    if npos:
        ext.append((data_offset, npos * block_size, "pat", file_id))
    fsize = data_offset + npos * block_size
    vf = VirtualFile(max(fsize, data_offset + 1), ext, name=name, fid=file_id)
    return vf, cell, data_offset, size_bytes
