"""Independent VHD encoder (Virtual Hard Disk Image Format Specification 1.0; big-endian)."""
from __future__ import annotations

import struct

from .vfile import VirtualFile

FOOTER = struct.Struct(">8sIIQIIIIQQIII16sB427s")  # 512 bytes
DYNHDR = struct.Struct(">8sQQIIII16sII512s192s256s")  # 1024 bytes
assert FOOTER.size == 512 and DYNHDR.size == 1024


def _csum(b: bytes) -> int:
    return (~sum(b)) & 0xFFFFFFFF


def footer(size, disk_type, data_offset, *, original_size=None, features=2, uid=b"\x33" * 16, cookie=b"conectix",
           timestamp=0x2A2A2A2A, geometry=0x03FF103F, creator_app=b"vps ", creator_os=b"Wi2k"):
    osz = size if original_size is None else original_size
    raw = FOOTER.pack(cookie, features, 0x00010000, data_offset, timestamp, int.from_bytes(creator_app, "big"), 0x00050003, int.from_bytes(creator_os, "big"),
                      osz, size, geometry, disk_type, 0, uid, 0, bytes(427))
    return raw[:64] + struct.pack(">I", _csum(raw)) + raw[68:]


def dyn_header(table_offset, max_entries, block_size, cookie=b"cxsparse"):
    raw = DYNHDR.pack(cookie, 0xFFFFFFFFFFFFFFFF, table_offset, 0x00010000, max_entries, block_size, 0, bytes(16), 0, 0,
                      bytes(512), bytes(192), bytes(256))
    return raw[:36] + struct.pack(">I", _csum(raw)) + raw[40:]


def bitmap_sectors(spb: int) -> int:
    """one bit per sector, padded to a 512-byte sector boundary"""
    return ((spb + 7) // 8 + 511) // 512


def build(img, *, block_size=2 << 20, table_offset=1536, data_start=None, original_size=None, file_id=0, P=None,
          size_bytes=None, extra_bat_entries=0, footer_kw=None, layout="std", bitmap_fill=0xFF):
    """img: {"kind","n","cb","bat","size","foot511"} -> (VirtualFile, info dict).
    footer_kw: footer fields that do not influence the mapping (features, uid, timestamp, geometry).
    layout: "std" footer copy | dynamic header | BAT | blocks | footer;  "bat-last" ... | blocks | BAT | footer (a table that was
    moved behind the data when the disk was expanded);  "hdr-far" footer copy | blocks | (beyond 4 GiB) dynamic header | BAT | footer."""
    footer_kw = footer_kw or {}
    cb = img["cb"]
    cell = block_size // cb
    assert cell * cb == block_size and cell % 512 == 0
    size_b = img["size"] * cell if size_bytes is None else size_bytes
    flen = 511 if img["foot511"] else 512
    if img["kind"] == "fixed":
        ft = footer(size_b, 2, 0xFFFFFFFFFFFFFFFF, original_size=original_size, **footer_kw)
        ext = [(0, size_b, "pat", file_id), (size_b, flen, "bytes", ft[:flen])]
        vf = VirtualFile(size_b + flen, ext, fid=file_id)
        return vf, {"cell": cell, "size": size_b, "base": 0, "stride": block_size, "cb": cb}
    n = img["n"]
    spb = block_size // 512
    bm = bitmap_sectors(spb) * 512
    stride = bm + block_size
    ents = [img["bat"][i] for i in range(n)]
    npos = (max([e for e in ents if e >= 0], default=-1) + 1) if P is None else P
    nent = n + extra_bat_entries
    dyn_offset = 512
    if layout == "bat-last":
        data_start = 1536 if data_start is None else data_start
        table_offset = data_start + npos * stride + (table_offset - 1536)
    elif layout == "hdr-far":
        data_start = 512 if data_start is None else data_start
        dyn_offset = max(0xFFFFFFFF + (table_offset - 1536) // 512 * 512 + 1, (data_start + npos * stride + 511) // 512 * 512)
        table_offset = dyn_offset + 1024
    else:
        if data_start is None:
            data_start = (table_offset + 4 * nent + 511) // 512 * 512
        assert data_start >= table_offset + 4 * nent
    assert data_start % 512 == 0
    bat = b"".join(struct.pack(">I", 0xFFFFFFFF if e < 0 else (data_start + e * stride) // 512) for e in ents)
    bat += b"\xff" * (4 * extra_bat_entries)
    ft = footer(size_b, 3, dyn_offset, original_size=original_size, **footer_kw)
    dh = dyn_header(table_offset, nent, block_size)
    ext = [(0, 512, "bytes", ft), (dyn_offset, 1024, "bytes", dh), (table_offset, len(bat), "bytes", bat)]
    for p in range(npos):
        # sector bitmap: all sectors present (0xFF), then the block data
        # (an allocated block of a dynamic disk reads as its data whatever its sector bitmap says: writers leave it set, clear or stale)
        ext.append((data_start + p * stride, bm, "bytes", bytes([bitmap_fill if isinstance(bitmap_fill, int) else bitmap_fill[p % len(bitmap_fill)]]) * bm))
        ext.append((data_start + p * stride + bm, block_size, "pat", file_id))
    end = data_start + npos * stride
    if layout != "std":
        end = (table_offset + len(bat) + 511) // 512 * 512
    ext.append((end, flen, "bytes", ft[:flen]))
    vf = VirtualFile(end + flen, ext, fid=file_id)
    return vf, {"cell": cell, "size": size_b, "base": data_start + bm, "stride": stride, "cb": cb}
