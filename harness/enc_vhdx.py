"""Independent VHDX encoder, written from [MS-VHDX] (little-endian, GUIDs in mixed-endian 'bytes_le' form)."""
from __future__ import annotations

import struct
import zlib
from uuid import UUID

from .vfile import VirtualFile

KB64 = 64 * 1024
MB = 1 << 20

G_BAT = UUID("2DC27766-F623-4200-9D64-115E9BFD4A08")
G_META = UUID("8B7CA206-4790-4B9A-B8FE-575F050F886E")
G_FILE_PARAMS = UUID("CAA16737-FA36-4D43-B3B6-33F0AA44E76B")
G_DISK_SIZE = UUID("2FA54224-CD1B-4876-B211-5DBED83BF4B8")
G_DISK_ID = UUID("BECA12AB-B2E6-4523-93EF-C309E000C746")
G_LSS = UUID("8141BF1D-A96F-4709-BA47-F233A8FAAB5F")
G_PSS = UUID("CDA348C7-445D-4471-9CC9-E9885251C556")
G_PARENT_LOC = UUID("A8D35F2D-B30B-454D-ABF7-D3D84834AB0C")
G_VHDX_LOCATOR = UUID("B04AEFB7-D19E-4A81-B789-25B8E9445913")

ST_NOT_PRESENT, ST_UNDEFINED, ST_ZERO, ST_UNMAPPED, ST_FULL, ST_PARTIAL = 0, 1, 2, 3, 6, 7
SB_NOT_PRESENT, SB_PRESENT = 0, 6


def crc32c_stub(b: bytes) -> int:
    # checksums are CRC-32C in the format; readers that do not verify ignore it. zlib.crc32 is used as a filler.
    return zlib.crc32(b) & 0xFFFFFFFF


def file_identifier(sig=b"vhdxfile", creator="verif encoder"):
    return sig + creator.encode("utf-16-le").ljust(512, b"\0")


def header(seq, sig=b"head", log_offset=MB, log_length=MB, version=1, log_guid=bytes(16)):
    h = sig + struct.pack("<IQ", 0, seq) + b"\x01" * 16 + b"\x02" * 16 + log_guid + struct.pack("<HHIQ", 0, version, log_length, log_offset)
    return h.ljust(4096, b"\0")


def region_table(entries, sig=b"regi"):
    """entries: [(guid, file_offset, length, required)]"""
    b = sig + struct.pack("<III", 0, len(entries), 0)
    for g, off, ln, req in entries:
        b += g.bytes_le + struct.pack("<QII", off, ln, req)
    return b.ljust(KB64, b"\0")


def parent_locator(entries: dict, locator_type=G_VHDX_LOCATOR, layout="pairs"):
    """layout: "pairs" key0 value0 key1 value1 ... (what Hyper-V writes) | "keys-first" | "values-first" | "aligned" (8-byte aligned
    strings with gaps) | "shared" (equal values stored once).  Offsets are relative to the start of the item."""
    n = len(entries)
    hdr = locator_type.bytes_le + struct.pack("<HH", 0, n)
    base = len(hdr) + 12 * n
    items = [(k.encode("utf-16-le"), v.encode("utf-16-le")) for k, v in entries.items()]
    blob = b""
    koff, voff = [], []

    def put(b, align=1, gap=0):
        nonlocal blob
        blob += bytes(gap)
        if align > 1:
            blob += bytes((-(base + len(blob))) % align)
        off = base + len(blob)
        blob += b
        return off

    if layout == "pairs":
        for kb, vb in items:
            koff.append(put(kb))
            voff.append(put(vb))
    elif layout == "keys-first":
        koff = [put(kb) for kb, _ in items]
        voff = [put(vb) for _, vb in items]
    elif layout == "values-first":
        voff = [put(vb) for _, vb in items]
        koff = [put(kb) for kb, _ in items]
    elif layout == "aligned":
        for kb, vb in items:
            koff.append(put(kb, 8, 2))
            voff.append(put(vb, 8, 6))
    elif layout == "shared":
        seen = {}
        for kb, vb in items:
            koff.append(put(kb))
            if vb not in seen:
                seen[vb] = put(vb)
            voff.append(seen[vb])
    else:
        raise ValueError(layout)
    table = b"".join(struct.pack("<IIHH", koff[i], voff[i], len(items[i][0]), len(items[i][1])) for i in range(n))
    return hdr + table + blob


def metadata_region(items, sig=b"metadata", place=None):
    """items: [(guid, bytes, flags)] -> 1 MiB region (table at 0, items from 64 KiB).
    place: the order in which the item data is laid out behind the table (default: table order) - items may be stored in
    any order and with gaps; the table entry gives each one's offset."""
    hdr = sig + b"\0\0" + struct.pack("<H", len(items)) + bytes(20)
    offs = {}
    blob = b""
    for k in (place if place is not None else range(len(items))):
        offs[k] = KB64 + len(blob)
        blob += items[k][1]
        blob += bytes((-len(blob)) % 8)
        if place is not None:
            blob += bytes(8 * (k % 3))
    ents = b""
    for k, (g, data, flags) in enumerate(items):
        ents += g.bytes_le + struct.pack("<IIII", offs[k], len(data), flags, 0)
    table = (hdr + ents).ljust(KB64, b"\0")
    return table + blob


def bat_entry(state, mb):
    return struct.pack("<Q", (state & 7) | (mb << 20))


def build(blocks, *, block_size, sector_size=512, disk_size, has_parent=False, locator=None, bitmaps=None, seqs=(5, 6),
          data_base_mb=None, file_id=0, sigs=None, name=None, disk_id=None, phys_sector=4096, bat_mb=3, meta_mb=2, meta_len_mb=1,
          omit_items=(), omit_regions=(), locator_type=G_VHDX_LOCATOR, reserved_bits=0, leave_alloc=False, locator_layout="pairs",
          layout="std", extra_items=(), meta_place=None):
    """blocks: list over real payload blocks of (state, position|None); position = index of the block-sized slot in the
    data area.  bitmaps: {chunk_index: (position_mb_slot, bytes)} for sector-bitmap blocks (differencing).
    layout: where the regions lie relative to the payload - "std" (metadata, BAT, then payload blocks), "regions-last"
    (payload blocks first, then sector bitmaps, metadata and the BAT: what a relocated BAT after expanding a disk looks
    like) or "bat-last" (metadata first, payload, BAT at the end).
    Returns (VirtualFile, info)."""
    sigs = sigs or {}
    cr = (2 ** 23 * sector_size) // block_size
    assert cr >= 1
    npb = len(blocks)
    assert npb == -(-disk_size // block_size), (npb, disk_size, block_size)
    nsb = -(-npb // cr)
    if has_parent:
        nent = nsb * (cr + 1)
    else:
        nent = npb + (npb - 1) // cr
    bmb = block_size // MB
    assert bmb * MB == block_size
    bat_len = -(-(nent * 8) // MB) * MB
    max_pos = max([p for _, p in blocks if p is not None], default=-1)
    if layout != "std":
        assert data_base_mb is None
        data_base_mb = 1 if layout == "regions-last" else meta_mb + 1
        after = data_base_mb + (max_pos + 2) * bmb + len(bitmaps or {}) + 1
        if layout == "regions-last":
            meta_mb = after
            after += 1
        bat_mb = after
    if data_base_mb is None:
        data_base_mb = bat_mb + bat_len // MB
    # sector bitmap blocks are 1 MiB each; put them after the payload area
    sb_base_mb = data_base_mb + (max_pos + 2) * bmb
    raw = bytearray(nent * 8)
    for b, (st, p) in enumerate(blocks):
        idx = b + b // cr
        mb = data_base_mb + p * bmb if p is not None else 0
        raw[idx * 8: idx * 8 + 8] = struct.pack("<Q", (st & 7) | (reserved_bits << 3) | (mb << 20))
    ext = []
    sb_pos = {}
    for c, bm in sorted((bitmaps or {}).items()):
        idx = (c + 1) * cr + c
        if idx * 8 + 8 <= len(raw):
            mb = sb_base_mb + len(sb_pos)
            sb_pos[c] = mb
            raw[idx * 8: idx * 8 + 8] = bat_entry(SB_PRESENT, mb)
            ext.append((mb * MB, MB, "bytes", bytes(bm).ljust(MB, b"\0")))
    fp_flags = (1 if leave_alloc else 0) | (2 if has_parent else 0)
    items = []
    allitems = [
        (G_FILE_PARAMS, struct.pack("<II", block_size, fp_flags), 0x4),
        (G_DISK_SIZE, struct.pack("<Q", disk_size), 0x6),
        (G_DISK_ID, (disk_id or UUID("11112222-3333-4444-5555-666677778888")).bytes_le, 0x6),
        (G_LSS, struct.pack("<I", sector_size), 0x6),
        (G_PSS, struct.pack("<I", phys_sector), 0x6),
    ]
    if has_parent:
        allitems.append((G_PARENT_LOC, parent_locator(locator or {}, locator_type, locator_layout), 0x4))
    for it in allitems:
        if it[0] not in omit_items:
            items.append(it)
    items += list(extra_items)   # (guid, data, flags): e.g. items this reader does not know, with or without IsRequired
    meta = metadata_region(items, sig=sigs.get("metadata", b"metadata"),
                           place=(meta_place(len(items)) if callable(meta_place) else meta_place))
    regs = [(G_BAT, bat_mb * MB, bat_len, 1), (G_META, meta_mb * MB, meta_len_mb * MB, 1)]     # (the region may be far longer than the items it holds)
    regs = [r for r in regs if r[0] not in omit_regions]
    ext += [
        (0, 520, "bytes", file_identifier(sig=sigs.get("file", b"vhdxfile"))),
        (1 * KB64, 4096, "bytes", header(seqs[0], sig=sigs.get("head1", b"head"))),
        (2 * KB64, 4096, "bytes", header(seqs[1], sig=sigs.get("head2", b"head"))),
        (3 * KB64, KB64, "bytes", region_table(regs, sig=sigs.get("regi1", b"regi"))),
        (4 * KB64, KB64, "bytes", region_table(regs, sig=sigs.get("regi2", b"regi"))),
        (meta_mb * MB, len(meta), "bytes", meta),
        (bat_mb * MB, len(raw), "bytes", bytes(raw)),
    ]
    if max_pos >= 0:
        ext.append((data_base_mb * MB, (max_pos + 1) * block_size, "pat", file_id))
    fsize = max(e[0] + e[1] for e in ext)
    vf = VirtualFile(fsize, ext, fid=file_id, name=name)
    return vf, {"data_base": data_base_mb * MB, "cr": cr, "nent": nent, "sb_pos": sb_pos}


def expand(img, k, stale=False):
    """Scale embedding: abstract block -> k consecutive real blocks with consecutive placement.
    stale=True: blocks in the undefined / zero / unmapped states keep a stale file offset that points at stored data
    (the format leaves FileOffsetMB of such entries unspecified; TRIM leaves the old offset behind)."""
    out = []
    used = [e["p"] for e in img["bat"].values() if e["st"] in (ST_FULL, ST_PARTIAL)]
    spare = used[0] if used else 0
    for b in range(img["n"]):
        e = img["bat"][b]
        for j in range(k):
            if e["st"] in (ST_FULL, ST_PARTIAL):
                out.append((e["st"], e["p"] * k + j))
            elif stale and e["st"] in (ST_UNDEFINED, ST_ZERO, ST_UNMAPPED):
                out.append((e["st"], spare * k + j))
            else:
                out.append((e["st"], None))
    return out
