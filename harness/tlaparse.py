"""Parser for TLA+ values as printed by TLC (`-dump`, `-simulate file=`, PrintT).

TLA+ value        -> Python value
  123 / -4        -> int
  "abc"           -> str
  TRUE / FALSE    -> bool
  <<a, b>>        -> list
  {a, b}          -> list (order as printed; TLC prints sets normalised)
  [k |-> v, ...]  -> dict with str keys
  (a :> v @@ ...) -> dict with parsed keys (ints / strs / tuples)
  a..b            -> list(range(a, b+1))
  identifier      -> str (model value)
"""
from __future__ import annotations

import re

_TOK = re.compile(
    r"""\s*(?:
      (?P<int>-?\d+)
    | "(?P<str>(?:[^"\\]|\\.)*)"
    | (?P<op><<|>>|\|->|:>|@@|\.\.|[\[\]\(\)\{\},])
    | (?P<id>[A-Za-z_][A-Za-z0-9_!]*)
    )""",
    re.X,
)


class TlaParseError(Exception):
    pass


def tokenize(text: str):
    pos = 0
    n = len(text)
    out = []
    while pos < n:
        m = _TOK.match(text, pos)
        if not m:
            if text[pos:].strip() == "":
                break
            raise TlaParseError(f"bad token at {pos}: {text[pos:pos+40]!r}")
        pos = m.end()
        if m.group("int") is not None:
            out.append(("int", int(m.group("int"))))
        elif m.group("str") is not None:
            out.append(("str", m.group("str").replace('\\"', '"').replace("\\\\", "\\")))
        elif m.group("op") is not None:
            out.append(("op", m.group("op")))
        else:
            out.append(("id", m.group("id")))
    return out


def _hashable(v):
    if isinstance(v, list):
        return tuple(_hashable(x) for x in v)
    if isinstance(v, dict):
        return tuple(sorted((k, _hashable(x)) for k, x in v.items()))
    return v


class _P:
    def __init__(self, toks):
        self.t = toks
        self.i = 0

    def peek(self):
        return self.t[self.i] if self.i < len(self.t) else (None, None)

    def eat(self, kind=None, val=None):
        k, v = self.peek()
        if (kind and k != kind) or (val is not None and v != val):
            raise TlaParseError(f"expected {kind} {val}, got {k} {v} at token {self.i}")
        self.i += 1
        return v

    def value(self):
        k, v = self.peek()
        if k == "int":
            self.i += 1
            k2, v2 = self.peek()
            if k2 == "op" and v2 == "..":
                self.i += 1
                hi = self.eat("int")
                return list(range(v, hi + 1))
            return v
        if k == "str":
            self.i += 1
            return v
        if k == "id":
            self.i += 1
            if v == "TRUE":
                return True
            if v == "FALSE":
                return False
            return v
        if k == "op":
            if v == "<<":
                return self.seq("<<", ">>")
            if v == "{":
                return self.seq("{", "}")
            if v == "[":
                return self.record()
            if v == "(":
                return self.func()
        raise TlaParseError(f"unexpected token {k} {v} at {self.i}")

    def seq(self, o, c):
        self.eat("op", o)
        out = []
        if self.peek() == ("op", c):
            self.i += 1
            return out
        while True:
            out.append(self.value())
            k, v = self.peek()
            if (k, v) == ("op", ","):
                self.i += 1
                continue
            self.eat("op", c)
            return out

    def record(self):
        self.eat("op", "[")
        out = {}
        while True:
            key = self.eat("id")
            self.eat("op", "|->")
            out[key] = self.value()
            k, v = self.peek()
            if (k, v) == ("op", ","):
                self.i += 1
                continue
            self.eat("op", "]")
            return out

    def func(self):
        self.eat("op", "(")
        out = {}
        while True:
            key = _hashable(self.value())
            self.eat("op", ":>")
            out[key] = self.value()
            k, v = self.peek()
            if (k, v) == ("op", "@@"):
                self.i += 1
                continue
            self.eat("op", ")")
            return out


def parse_value(text: str):
    p = _P(tokenize(text))
    v = p.value()
    if p.i != len(p.t):
        raise TlaParseError(f"trailing tokens after value: {p.t[p.i:p.i+5]}")
    return v


_CONJ = re.compile(r"^/\\ (\w+) = ", re.M)


def parse_state(block: str) -> dict:
    """Parse a '/\\ var = value' conjunction block into {var: value}."""
    out = {}
    ms = list(_CONJ.finditer(block))
    if not ms:
        # single-variable states print as `var = value`
        m = re.match(r"\s*(\w+) = ", block)
        if not m:
            raise TlaParseError(f"no conjuncts in state block: {block[:80]!r}")
        out[m.group(1)] = parse_value(block[m.end():])
        return out
    for i, m in enumerate(ms):
        end = ms[i + 1].start() if i + 1 < len(ms) else len(block)
        out[m.group(1)] = parse_value(block[m.end():end])
    return out


def iter_dump(path: str):
    """Yield parsed states from a `tlc -dump` file (streamed)."""
    buf = []
    with open(path, "r") as f:
        for line in f:
            if line.startswith("State "):
                if buf:
                    blk = "".join(buf).strip()
                    if blk:
                        yield parse_state(blk)
                buf = []
            else:
                buf.append(line)
    if buf:
        blk = "".join(buf).strip()
        if blk:
            yield parse_state(blk)


_SIM_STATE = re.compile(r"^STATE_(\d+) ==\s*$", re.M)
_SIM_ACT = re.compile(r"^\\\* <?(\w+)")


def parse_sim_file(path: str):
    """Parse one behaviour file written by `tlc -simulate file=...`.

    Returns list of (action_name_or_None, state_dict)."""
    text = open(path).read()
    out = []
    parts = re.split(r"^(?=\\\* |STATE_\d+ ==)", text, flags=re.M)
    act = None
    for part in parts:
        if part.startswith("\\*"):
            m = _SIM_ACT.match(part)
            act = m.group(1) if m else None
        elif part.startswith("STATE_"):
            body = part.split("==", 1)[1]
            # strip trailing separators / module footer
            body = re.split(r"^(?:={4,}|-{4,})", body, flags=re.M)[0].strip()
            if body:
                out.append((act, parse_state(body)))
            act = None
    return out


if __name__ == "__main__":
    s = '/\\ img = [a |-> 1, b |-> <<1, -2>>, c |-> (0 :> [k |-> "Z"] @@ 1 :> {1, 2})]\n/\\ x = TRUE\n'
    print(parse_state(s))
