"""Entry point: ./check <id> --tier quick|thorough [--replay FILE]"""
from __future__ import annotations

import argparse
import importlib
import json
import os
import sys
import traceback

ROOT = os.path.dirname(os.path.dirname(os.path.abspath(__file__)))
sys.path.insert(0, ROOT)

from harness import core  # noqa: E402


def main():
    ap = argparse.ArgumentParser()
    ap.add_argument("pid")
    ap.add_argument("--tier", default=os.environ.get("VERIF_TIER", "quick"))
    ap.add_argument("--seed", type=int, default=int(os.environ.get("VERIF_SEED", "0") or 0))
    ap.add_argument("--replay")
    args = ap.parse_args()
    if args.tier not in ("quick", "thorough"):
        args.tier = "quick"
    core.use_repo()
    pid = args.pid.upper()
    try:
        mod = importlib.import_module(f"props.{pid.lower()}")
    except ModuleNotFoundError:
        print(f"no check for {pid}", file=sys.stderr)
        return 2
    ctx = core.Ctx(pid, args.tier, args.seed, level=getattr(mod, "LEVEL", "model_checking"))
    try:
        if args.replay:
            body = json.load(open(args.replay))
            ok = mod.replay(ctx, body)
            print("replay:", "property held" if ok else "VIOLATION reproduced")
            return 0 if ok else 1
        mod.run(ctx)
        return ctx.finish()
    except core.MachineryError as e:
        print(f"MACHINERY FAILURE [{pid}]: {e}", file=sys.stderr)
        return 2
    except Exception as e:  # noqa: BLE001
        print(traceback.format_exc()[-3000:], file=sys.stderr)
        if not args.replay and core.raised_in_code_under_test(e):
            # the package under test raised where the harness did not expect it to: a finding, not a machinery failure
            ctx.violation({"fail": "raised-in-code-under-test", "exc": type(e).__name__}, {"error": repr(e)[:300], "tb": traceback.format_exc()[-1500:]})
        if ctx.violations and not args.replay:
            # violations were already established (and printed); a later crash of the harness - typically the code under test
            # raising somewhere the harness did not expect - must not turn them into a machinery failure
            print(f"[{pid}] harness exception after {len(ctx.violations)} violation(s); reporting the violations", file=sys.stderr)
            ctx.extra["harness_exception_after_violations"] = traceback.format_exc()[-800:]
            return ctx.finish()
        print(f"MACHINERY FAILURE [{pid}]: unexpected exception", file=sys.stderr)
        return 2


if __name__ == "__main__":
    sys.exit(main())
