"""Run context: counts, samples, violations, known findings, evidence and replay files."""
from __future__ import annotations

import hashlib
import json
import os
import sys
import time

ROOT = os.path.dirname(os.path.dirname(os.path.abspath(__file__)))
EVID = os.environ.get("VERIF_EVIDENCE_DIR") or os.path.join(ROOT, "evidence")
REPLAYS = os.environ.get("VERIF_REPLAY_DIR") or os.path.join(ROOT, "replays")
FINDINGS = os.path.join(ROOT, "known_findings.json")


class MachineryError(Exception):
    """exit code 2: the checker itself is broken (vacuous model, TLC crash, encoder self-check failed)."""


def _jsonable(x):
    if isinstance(x, (bytes, bytearray)):
        return {"hex": bytes(x[:64]).hex(), "len": len(x)}
    if isinstance(x, dict):
        return {str(k): _jsonable(v) for k, v in x.items()}
    if isinstance(x, (list, tuple, set, frozenset)):
        return [_jsonable(v) for v in x]
    if isinstance(x, bool) or x is None:
        return x
    if isinstance(x, int):
        return int(x)  # cstruct integer types are int subclasses that do not pickle
    if isinstance(x, float):
        return float(x)
    if isinstance(x, str):
        return str(x)
    return repr(x)


def load_findings():
    if not os.path.exists(FINDINGS):
        return []
    return json.load(open(FINDINGS)).get("entries", [])


class Ctx:
    def __init__(self, pid: str, tier: str, seed: int, level: str = "model_checking"):
        self.pid = pid
        self.tier = tier
        self.seed = seed
        self.level = level
        self.t0 = time.time()
        self.evaluations = 0
        self._nontrivial = set()
        self.samples = []
        self.violations = []
        self.known_hits = {}
        self.states = 0
        self.transitions = 0
        self.traces_validated = 0
        self.tlc_runs = []
        self.extra = {}
        self.assumptions = []
        self.rule = ""
        self.findings = [f for f in load_findings() if f.get("property") == pid]
        self.max_samples = 6
        self.max_violations = 25
        self.quiet = False
        self.collect = None  # worker mode: list collecting (attrs, detail) instead of writing replay files

    # ---- counting
    def case(self, key=None, nontrivial=False, sample=None):
        self.evaluations += 1
        if nontrivial and key is not None:
            if len(self._nontrivial) < 5_000_000:
                self._nontrivial.add(hash(key if isinstance(key, (str, int, tuple)) else json.dumps(_jsonable(key), sort_keys=True)))
        if sample is not None and len(self.samples) < self.max_samples:
            self.samples.append(_jsonable(sample))

    def add_tlc(self, name, res, constants=None):
        self.states += res.distinct
        self.transitions += res.generated
        self.tlc_runs.append({
            "config": name, "distinct_states": res.distinct, "states_generated": res.generated,
            "depth": res.depth, "wall_s": round(res.wall_s, 2), "constants": constants or "",
            "coverage": {k: list(v) for k, v in list(res.coverage.items())[:40]},
        })

    # ---- verdicts
    def violation(self, attrs: dict, detail: dict):
        """attrs: flat case attributes used for known-finding matching; detail: replayable description."""
        if self.collect is not None:
            self.collect.append((_jsonable(attrs), _jsonable(detail)))
            self.violations.append(None)
            return "collected"
        for f in self.findings:
            if f.get("status") != "known":
                continue
            if all(str(attrs.get(k)) == str(v) for k, v in f.get("match", {}).items()):
                self.known_hits.setdefault(f["id"], [f, 0])[1] += 1
                return "known"
        if len(self.violations) >= self.max_violations:
            self.violations.append(None)
            return "violation"
        os.makedirs(REPLAYS, exist_ok=True)
        body = {"property": self.pid, "attrs": _jsonable(attrs), "detail": _jsonable(detail), "seed": self.seed, "tier": self.tier}
        h = hashlib.sha1(json.dumps(body, sort_keys=True).encode()).hexdigest()[:12]
        path = os.path.join(REPLAYS, f"{self.pid}-{h}.json")
        with open(path, "w") as fh:
            json.dump(body, fh, indent=1)
        self.violations.append(path)
        if not self.quiet:
            print(f"VIOLATION property={self.pid} replay={path}", flush=True)
        return "violation"

    def spec_violation(self, module, cfg, res):
        return self.violation(
            {"where": "spec", "module": module, "cfg": cfg, "invariant": res.violated},
            {"kind": "tlc", "module": module, "cfg": cfg, "violated": res.violated, "tail": res.output[-3000:]},
        )

    # ---- finish
    def finish(self) -> int:
        os.makedirs(EVID, exist_ok=True)
        for fid, (f, n) in self.known_hits.items():
            print(f"KNOWN-FINDING: property={self.pid} {fid}: {f.get('what', '')} ({n} failing cases matched)")
        nviol = len(self.violations)
        cov = {
            "evaluations": self.evaluations,
            "distinct_nontrivial": len(self._nontrivial),
            "rule": self.rule,
            "samples": self.samples or [{"note": "no sample recorded"}],
            "states": self.states,
            "transitions": self.transitions,
            "traces_validated_against_impl": self.traces_validated,
            "tlc_runs": self.tlc_runs,
            "known_findings_matched": {k: v[1] for k, v in self.known_hits.items()},
        }
        cov.update(_jsonable(self.extra))
        ev = {
            "property_id": self.pid,
            "tier": self.tier,
            "seed": self.seed,
            "level": self.level,
            "coverage": cov,
            "assumptions": self.assumptions,
            "wall_s": round(time.time() - self.t0, 2),
            "violations": nviol,
        }
        with open(os.path.join(EVID, f"{self.pid}.json"), "w") as fh:
            json.dump(ev, fh, indent=1)
        print(
            f"[{self.pid}] tier={self.tier} seed={self.seed} evaluations={self.evaluations} "
            f"nontrivial={len(self._nontrivial)} tlc_states={self.states} traces_validated={self.traces_validated} "
            f"violations={nviol} wall={ev['wall_s']}s"
        )
        return 1 if nviol else 0


def repo_path():
    return os.environ.get("VERIF_REPO", "/repo")


def use_repo():
    """Put the tree under test first on sys.path (takes precedence over the editable-install finder)."""
    rp = repo_path()
    if rp in sys.path:
        sys.path.remove(rp)
    sys.path.insert(0, rp)
    sys.dont_write_bytecode = True


# ---- parallel map over work items (fork; each worker has a collecting sub-context) ----
_PAR = {}


def raised_in_code_under_test(exc) -> bool:
    """True when the package under test was on the stack where `exc` was raised (the harness did not expect it to raise there):
    that is a finding about the code, not a failure of the machinery."""
    import traceback
    root = os.path.join(repo_path(), "dissect", "hypervisor")
    for fr in traceback.extract_tb(exc.__traceback__):
        fn = fr.filename or ""
        if fn.startswith(root) or "/dissect/hypervisor/" in fn:
            return True
    return False


def _par_worker(args):
    idx, chunk = args
    fn, pid, tier, seed, level = _PAR["fn"], _PAR["pid"], _PAR["tier"], _PAR["seed"], _PAR["level"]
    sub = Ctx(pid, tier, seed, level)
    sub.collect = []
    sub.max_violations = _PAR["maxv"]
    try:
        fn(sub, chunk, idx)
    except MachineryError as e:
        return {"err": str(e)}
    except Exception as e:  # noqa: BLE001
        import traceback
        if raised_in_code_under_test(e):
            sub.violation({"fail": "raised-in-code-under-test", "exc": type(e).__name__}, {"error": repr(e)[:300], "tb": traceback.format_exc()[-1500:]})
        else:
            return {"err": traceback.format_exc()}
    return {"ev": sub.evaluations, "nt": sub._nontrivial, "samples": sub.samples, "viol": sub.collect,
            "extra": sub.extra, "traces": sub.traces_validated}


def parallel(ctx, fn, items, nproc=None, chunks_per_proc=4):
    """fn(subctx, chunk_of_items, chunk_index). Merges counts/violations into ctx."""
    import multiprocessing as mp

    items = list(items)
    if not items:
        return
    nproc = nproc or min(16, os.cpu_count() or 4)
    nchunks = max(1, min(len(items), nproc * chunks_per_proc))
    chunks = [(i, items[i::nchunks]) for i in range(nchunks)]
    _PAR.update({"fn": fn, "pid": ctx.pid, "tier": ctx.tier, "seed": ctx.seed, "level": ctx.level, "maxv": ctx.max_violations})
    if nproc == 1 or len(items) < 4:
        results = [_par_worker(c) for c in chunks]
    else:
        with mp.get_context("fork").Pool(nproc) as pool:
            results = pool.map(_par_worker, chunks, chunksize=1)
    for r in results:
        if "err" in r:
            raise MachineryError("worker failed: " + r["err"][-3000:])
        ctx.evaluations += r["ev"]
        ctx._nontrivial |= r["nt"]
        ctx.traces_validated += r["traces"]
        for smp in r["samples"]:
            if len(ctx.samples) < ctx.max_samples:
                ctx.samples.append(smp)
        for k, v in r["extra"].items():
            if isinstance(v, int):
                ctx.extra[k] = ctx.extra.get(k, 0) + v
        for attrs, detail in r["viol"]:
            ctx.violation(attrs, detail)
