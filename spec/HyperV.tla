------------------------------- MODULE HyperV -------------------------------
(* Hyper-V VMCX / VMRS key-value store (C17).                                 *)
(* Stored tree: nodes 1..K with parent[n] in 0..n-1 (0 = top level); a node is *)
(* an inner "Node" entry or a leaf value.  Serialisation choices:             *)
(*   tbl[n]   key table index (1..T) holding the entry of node n - children    *)
(*            may live in another table than their parent;                     *)
(*   stale    table indices that also exist as an older copy (lower sequence   *)
(*            number) with different contents (changed values, a ghost entry); *)
(*   free     table indices that contain free entries between the used ones;   *)
(*   hdr      which of the two file headers has the higher sequence number     *)
(*            (the other one is stale: it points at nothing useful);           *)
(*   order    whether the newer copy of a table is listed before the older one *)
(*            in the object table.                                             *)
(* The decoder: active header = highest sequence number; per table index the   *)
(* copy with the highest sequence number; free entries skipped; every entry    *)
(* attached under the entry its parent reference (table index, position)       *)
(* resolves to in the ACTIVE copy of the parent's table.                        *)
EXTENDS Integers, Sequences, FiniteSets, TLC, Json, IOUtils

CONSTANTS K, T
VARIABLES file, decoded
vars == <<file, decoded>>

Nodes == 1..K
Parents == {p \in [Nodes -> 0..K] : \A n \in Nodes : p[n] < n}
\* inner nodes are exactly those that have children or are declared empty nodes
Files == {[parent |-> p, inner |-> i, tbl |-> t, stale |-> s, free |-> f, hdr |-> h, newerFirst |-> o] :
            p \in Parents, i \in SUBSET Nodes, t \in [Nodes -> 1..T], s \in SUBSET (1..T), f \in SUBSET (1..T),
            h \in {1, 2}, o \in BOOLEAN}
WF(x) == \A n \in Nodes : x.parent[n] # 0 => x.parent[n] \in x.inner

\* the stored tree as a set of <<node, parent, kind>> (values are attached by the encoder, keyed by node id)
NodesOf(x) == DOMAIN x.parent
Stored(x) == {<<n, x.parent[n], IF n \in x.inner THEN "node" ELSE "leaf">> : n \in NodesOf(x)}

\* ---- abstract serialisation: table copies = [idx, seq, entries]; entry = [node, ghost, free, pref] ----
\* position of node n inside its table: rank among the nodes of that table (free entries interleave but do not count)
UsedIn(x, t) == {n \in NodesOf(x) : x.tbl[n] = t}
Copies(x) == {[idx |-> t, seq |-> 2, nodes |-> UsedIn(x, t), ghost |-> FALSE] : t \in {x.tbl[n] : n \in NodesOf(x)}}
             \cup {[idx |-> t, seq |-> 1, nodes |-> UsedIn(x, t), ghost |-> TRUE] : t \in x.stale \cap {x.tbl[n] : n \in NodesOf(x)}}

\* ---- the decoder ----
Active(x, t) == CHOOSE c \in Copies(x) : c.idx = t /\ \A d \in Copies(x) : d.idx = t => d.seq <= c.seq
Decode(x) == {<<n, x.parent[n], IF n \in x.inner THEN "node" ELSE "leaf">> :
                 n \in UNION {Active(x, t).nodes : t \in {c.idx : c \in Copies(x)}}}
\* a decoder that takes the first listed copy instead of the highest sequence number would also see the ghost entries
GhostVisible(x) == \E t \in {c.idx : c \in Copies(x)} : Active(x, t).ghost

Init == file \in {x \in Files : WF(x)} /\ decoded = Decode(file)
NoNext == FALSE /\ UNCHANGED vars

\* ---- trace validation: structures decoded by the real reader from random larger files ----
Runs == ndJsonDeserialize(IOEnv.TRACE_FILE)
SeqSet(q) == {q[i] : i \in 1..Len(q)}
FileOf(j) == [parent |-> j.parent, inner |-> SeqSet(j.inner), tbl |-> j.tbl, stale |-> SeqSet(j.stale), free |-> SeqSet(j.free),
              hdr |-> j.hdr, newerFirst |-> j.newerFirst]
Got(j) == {<<j.decoded[i][1], j.decoded[i][2], IF j.decoded[i][3] = 1 THEN "node" ELSE "leaf">> : i \in 1..Len(j.decoded)}
TInit == file = 1 /\ decoded = 0
TStep == /\ file \in 1..Len(Runs)
         /\ IF Got(Runs[file]) = Decode(FileOf(Runs[file])) /\ ~Runs[file].ghost_seen
            THEN PrintT(<<"ACCEPT", Runs[file].tid>>) ELSE PrintT(<<"REJECT", Runs[file].tid, 1, "decoded-structure">>)
         /\ file' = file + 1 /\ UNCHANGED decoded
TraceSpec == TInit /\ [][TStep]_vars

DecodedEqualsStored == decoded = Stored(file)
HighestSeqWins      == ~GhostVisible(file)
=============================================================================
