------------------------------- MODULE Effects -------------------------------
(* Parsing never modifies evidence (C09).  The observable effects of a run are *)
(* events; the specification has an action for every ALLOWED event only:       *)
(*   OsOpen      a path opened read-only (no write / create / truncate /       *)
(*               append flag), or - in the command-line tool only - the single *)
(*               output path opened for writing;                               *)
(*   HandleCall  a read-side method on a caller-supplied handle;               *)
(*   Site        a call site in the library source that opens a file read-only,*)
(*               or writes into a private in-memory buffer (envelope header    *)
(*               re-serialisation), or is the CLI's writer;                    *)
(*   FsSame      the evidence directory content hash is unchanged (only the    *)
(*               CLI output file may appear);                                  *)
(*   BufSame     a caller-supplied in-memory buffer holds the same bytes after *)
(*               the call as before.                                           *)
(* Everything else - open for writing, rename, remove, truncate, mkdir, write  *)
(* on a caller handle, a new mutating call site - has no action: a trace that  *)
(* contains it is rejected at that event.                                      *)
EXTENDS Integers, Sequences, FiniteSets, TLC, Json, IOUtils

VARIABLES tid, l
vars == <<tid, l>>

WriteFlags == {"O_WRONLY", "O_RDWR", "O_CREAT", "O_TRUNC", "O_APPEND"}
ReadSide == {"read", "readinto", "readall", "readline", "seek", "tell", "close", "fileno", "readable", "seekable", "writable", "name",
             "peek", "__enter__", "__exit__", "flush", "isatty", "closed", "mode"}
\* call sites that may write: (file, function)
WriterSites == {<<"dissect/hypervisor/tools/envelope.py", "main">>,
                <<"dissect/hypervisor/util/envelope.py", "_pack_envelope_header">>,
                <<"dissect/hypervisor/util/envelope.py", "_pack_attributes">>}
ReadModes == {"", "r", "rb", "rt"}

SetOf(s) == {s[i] : i \in 1..Len(s)}

OsOpen(ev)     == ev.kind = "open" /\ (SetOf(ev.flags) \cap WriteFlags = {} \/ (ev.phase = "cli" /\ ev.path = "OUT"))
HandleCall(ev) == ev.kind = "handle" /\ ev.method \in ReadSide
Site(ev)       == ev.kind = "site" /\
                  \/ ev.what = "open" /\ (ev.mode \in ReadModes \/ <<ev.file, ev.func>> \in WriterSites)
                  \/ ev.what = "write" /\ <<ev.file, ev.func>> \in WriterSites
FsSame(ev)     == ev.kind = "fs" /\ (SetOf(ev.changed) = {} \/ (ev.phase = "cli" /\ SetOf(ev.changed) = {"OUT"}))
BufSame(ev)    == ev.kind = "buffer" /\ ev.changed = FALSE
Allowed(ev)    == OsOpen(ev) \/ HandleCall(ev) \/ Site(ev) \/ FsSame(ev) \/ BufSame(ev)

Traces == ndJsonDeserialize(IOEnv.TRACE_FILE)
T == Traces[tid]
Init == tid = 1 /\ l = 1
Step   == /\ tid <= Len(Traces) /\ l <= Len(T.events) /\ Allowed(T.events[l]) /\ l' = l + 1 /\ UNCHANGED tid
Reject == /\ tid <= Len(Traces) /\ l <= Len(T.events) /\ ~Allowed(T.events[l])
          /\ PrintT(<<"REJECT", T.tid, l, T.events[l].kind>>) /\ tid' = tid + 1 /\ l' = 1
Accept == /\ tid <= Len(Traces) /\ l > Len(T.events)
          /\ PrintT(<<"ACCEPT", T.tid>>) /\ tid' = tid + 1 /\ l' = 1
Next == Step \/ Reject \/ Accept
TraceSpec == Init /\ [][Next]_vars

\* the invariants of the event model: an accepted prefix never contains a write effect
NoWriteEffect == \A k \in 1..(IF tid <= Len(Traces) THEN l - 1 ELSE 0) : Allowed(T.events[k])
=============================================================================
