------------------------------- MODULE Common -------------------------------
(* Shared vocabulary of all disk modules: source tokens, slices, run covers.  *)
(* A guest view is a function  0..cells-1 -> Token ; a cell is the smallest   *)
(* unit at which a format can change where guest data comes from.             *)
EXTENDS Integers, Sequences, FiniteSets

Zero          == [k |-> "Z", f |-> 0, c |-> 0]
Data(f, c)    == [k |-> "D", f |-> f, c |-> c]     \* cell c (in cells) of file f's data area
Back(c)       == [k |-> "B", f |-> 0, c |-> c]     \* falls through to the next layer at guest cell c
Comp(id, c)   == [k |-> "C", f |-> id, c |-> c]    \* cell c of the inflated compressed unit id

Min(a, b)     == IF a < b THEN a ELSE b
Max(a, b)     == IF a < b THEN b ELSE a
Clamp0(a)     == IF a < 0 THEN 0 ELSE a
CeilDiv(a, b) == (a + b - 1) \div b

\* Slice of a 0-based function as a 1-based sequence
Slice(v, o, n) == [i \in 1..n |-> v[o + i - 1]]

\* what a bounded read (o, n) of a `size`-cell disk returns
ReadLen(size, o, n) == IF n < 0 THEN Clamp0(size - o) ELSE Clamp0(Min(n, size - o))

\* Overlay of layer views: top-most non-"B" token wins, zeros below the base
RECURSIVE Resolve(_, _, _)
Resolve(layers, i, cell) ==
  IF i > Len(layers) THEN Zero
  ELSE IF cell >= Len(layers[i]) THEN Zero
  ELSE LET t == layers[i][cell + 1] IN IF t.k = "B" THEN Resolve(layers, i + 1, t.c) ELSE t

\* Injective partial placements: functions units -> 0..P-1 with distinct values where "allocated"
Injective(f) == \A a, b \in DOMAIN f : a # b => f[a] # f[b]

Range(f) == {f[x] : x \in DOMAIN f}
=============================================================================
