-------------------------------- MODULE Vdi --------------------------------
(* VirtualBox VDI (VDICore.h): a block map of int32 entries, one per block:   *)
(*   -1 = unallocated (parent or zeros), -2 = zero block, p >= 0 = the block   *)
(*   is stored at  DataOffset + p * BlockSize.                                 *)
(* An image record carries its own geometry (n blocks, cb cells per block) so *)
(* that the same operators judge TLC-enumerated small images and recorded      *)
(* traces at real geometry.                                                    *)
EXTENDS Common, TLC

CONSTANTS N,        \* blocks in the virtual disk
          CB,       \* cells per block
          P,        \* physical block positions available
          MaxTail   \* the disk size may fall short of N*CB by 0..MaxTail cells

VARIABLES img, view, last
vars == <<img, view, last>>

Unalloc == -1
ZeroBlk == -2

Maps == [0..N-1 -> {Unalloc, ZeroBlk} \cup 0..P-1]

\* well-formed: two blocks never share a physical position
WF(m) == \A a, b \in DOMAIN m : (a # b /\ m[a] >= 0) => m[a] # m[b]

Images == {[n |-> N, cb |-> CB, map |-> m, size |-> s, parent |-> p] :
             m \in {mm \in Maps : WF(mm)}, s \in (N*CB - MaxTail)..(N*CB), p \in BOOLEAN}

\* ---- the specification of the guest view (independent of the code) ----
CellSrc(i, cell) ==
  LET b == cell \div i.cb
      o == cell % i.cb
  IN  CASE i.map[b] = Unalloc -> IF i.parent THEN Back(cell) ELSE Zero
        [] i.map[b] = ZeroBlk -> Zero
        [] OTHER              -> Data(0, i.map[b] * i.cb + o)

GuestView(i) == [cell \in 0..i.size-1 |-> CellSrc(i, cell)]

\* ---- implementation-shaped transcription of VDI._read (vdi.py) ----
\* one recursion step per loop iteration; offsets/lengths in cells.
\* fixed loop: read_len = min(length, block_size - block_offset), block_offset resets to 0
RECURSIVE ImplRead(_, _, _)
ImplRead(i, off, len) ==
  IF len <= 0 THEN <<>>
  ELSE LET b   == off \div i.cb
           bo  == off % i.cb
           rl  == Min(len, i.cb - bo)
           blk == i.map[b]
           part == CASE blk = Unalloc -> IF i.parent THEN [j \in 1..rl |-> Back(off + j - 1)] ELSE [j \in 1..rl |-> Zero]
                     [] blk = ZeroBlk -> [j \in 1..rl |-> Zero]
                     [] OTHER         -> [j \in 1..rl |-> Data(0, blk * i.cb + bo + j - 1)]
       IN part \o ImplRead(i, off + rl, len - rl)

\* the loop as found at the pinned commit (read_len = min(length, max(length, block_size)) = length; the
\* in-block offset is applied to the first block only), kept to show what TLC finds (cfg/Vdi_old.cfg)
RECURSIVE ImplReadOld(_, _, _, _)
ImplReadOld(i, off, len, bo) ==
  IF len <= 0 THEN <<>>
  ELSE LET b   == off \div i.cb
           rl  == Min(len, Max(len, i.cb))
           blk == i.map[b]
           part == CASE blk = Unalloc -> IF i.parent THEN [j \in 1..rl |-> Back(off + j - 1)] ELSE [j \in 1..rl |-> Zero]
                     [] blk = ZeroBlk -> [j \in 1..rl |-> Zero]
                     [] OTHER         -> [j \in 1..rl |-> Data(0, blk * i.cb + bo + j - 1)]
       IN part \o ImplReadOld(i, off + rl, len - rl, bo)

\* ---- behaviours: choose an image, then read any range ----
Init == /\ img \in Images
        /\ view = GuestView(img)
        /\ last = [op |-> "open", o |-> 0, n |-> 0, res |-> <<>>]

Read(o, n) == /\ last' = [op |-> "read", o |-> o, n |-> n, res |-> ImplRead(img, o, n)]
              /\ UNCHANGED <<img, view>>

Next == \E o \in 0..img.size-1 : \E n \in 1..(img.size - o) : Read(o, n)
NoNext == FALSE /\ UNCHANGED vars

Spec == Init /\ [][Next]_vars

\* ---- properties ----
ReadCorrect == last.op = "read" => last.res = Slice(view, last.o, last.n)
ViewTotal   == DOMAIN view = 0..img.size-1
OldReadCorrect == \A o \in 0..img.size-1 : \A n \in 1..(img.size - o) :
                     ImplReadOld(img, o, n, o % img.cb) = Slice(view, o, n)
=============================================================================
