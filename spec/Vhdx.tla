-------------------------------- MODULE Vhdx --------------------------------
(* Microsoft VHDX ([MS-VHDX]).  The block allocation table holds one payload  *)
(* entry per block (state, file offset in MiB) with a sector-bitmap entry      *)
(* interleaved after every ChunkRatio payload entries.  Payload block states:  *)
(*   0 NOT_PRESENT  1 UNDEFINED  2 ZERO  3 UNMAPPED  6 FULLY_PRESENT           *)
(*   7 PARTIALLY_PRESENT (differencing only: a per-sector bitmap in the chunk's*)
(*     sector-bitmap block says which sectors are in this file).               *)
(* Non-differencing disks: FULLY_PRESENT -> stored data; every other state     *)
(* reads as zeros.  Differencing disks: NOT_PRESENT and the absent sectors of  *)
(* a PARTIALLY_PRESENT block fall through to the parent.                       *)
(* Cells = sectors (or groups of sectors); cb cells per block.                 *)
EXTENDS Common, TLC

CONSTANTS N, CB, P, MaxTail
VARIABLES img, view, last
vars == <<img, view, last>>

NotPresent == 0  Undefined == 1  ZeroSt == 2  Unmapped == 3  Full == 6  Partial == 7
EmptyStates == {NotPresent, Undefined, ZeroSt, Unmapped}

\* bat[b] = [st, p, bm]: p = physical block position (meaningful for Full / Partial),
\* bm = set of in-block cells present in this file (Partial only)
Entry(st, p, bm) == [st |-> st, p |-> p, bm |-> bm]
PlainEntries == {Entry(s, 0, {}) : s \in EmptyStates} \cup {Entry(Full, p, {}) : p \in 0..P-1}
PartEntries  == {Entry(Partial, p, bm) : p \in 0..P-1, bm \in SUBSET (0..CB-1)}

WF(b) == \A x, y \in DOMAIN b : (x # y /\ b[x].st \in {Full, Partial} /\ b[y].st \in {Full, Partial}) => b[x].p # b[y].p

\* non-differencing images (C03)
Images == {[n |-> N, cb |-> CB, bat |-> b, size |-> s, parent |-> FALSE] :
              b \in {bb \in [0..N-1 -> PlainEntries] : WF(bb)}, s \in (N*CB - MaxTail)..(N*CB)}
\* differencing images (C07)
DiffImages == {[n |-> N, cb |-> CB, bat |-> b, size |-> N*CB, parent |-> TRUE] :
              b \in {bb \in [0..N-1 -> PlainEntries \cup PartEntries] : WF(bb)}}

CellSrc(i, cell) ==
  LET b == cell \div i.cb
      o == cell % i.cb
      e == i.bat[b]
  IN CASE e.st = Full -> Data(0, e.p * i.cb + o)
       [] e.st = Partial /\ i.parent -> IF o \in e.bm THEN Data(0, e.p * i.cb + o) ELSE Back(cell)
       [] e.st = NotPresent /\ i.parent -> Back(cell)
       [] OTHER -> Zero

GuestView(i) == [cell \in 0..i.size-1 |-> CellSrc(i, cell)]

\* ---- transcription of VHDX.read_sectors (vhdx.py), sectors = cells ----
\* fixed loop: read_count = min(count, sectors_per_block - sector_in_block)
BlockPart(i, e, sector, sib, rc) ==
  CASE e.st = NotPresent -> [j \in 1..rc |-> IF i.parent THEN Back(sector + j - 1) ELSE Zero]
    [] e.st \in {Undefined, ZeroSt, Unmapped} -> [j \in 1..rc |-> Zero]
    [] e.st = Full -> [j \in 1..rc |-> Data(0, e.p * i.cb + sib + j - 1)]
    [] e.st = Partial -> [j \in 1..rc |-> IF (sib + j - 1) \in e.bm THEN Data(0, e.p * i.cb + sib + j - 1)
                                           ELSE Back(sector + j - 1)]

RECURSIVE ImplRead(_, _, _)
ImplRead(i, sector, count) ==
  IF count <= 0 THEN <<>>
  ELSE LET block == sector \div i.cb
           sib   == sector % i.cb
           rc    == Min(count, i.cb - sib)
       IN BlockPart(i, i.bat[block], sector, sib, rc) \o ImplRead(i, sector + rc, count - rc)

\* as found at the pinned commit: read_count = min(count, sectors_per_block) ignores the position inside the block,
\* so a read starting mid-block continues past the block's end in the file
RECURSIVE ImplReadOld(_, _, _)
ImplReadOld(i, sector, count) ==
  IF count <= 0 THEN <<>>
  ELSE LET block == sector \div i.cb
           sib   == sector % i.cb
           rc    == Min(count, i.cb)
       IN BlockPart(i, i.bat[block], sector, sib, rc) \o ImplReadOld(i, sector + rc, count - rc)

Init == /\ img \in Images
        /\ view = GuestView(img)
        /\ last = [op |-> "open", o |-> 0, n |-> 0, res |-> <<>>]
InitDiff == /\ img \in DiffImages
            /\ view = GuestView(img)
            /\ last = [op |-> "open", o |-> 0, n |-> 0, res |-> <<>>]
Read(o, n) == /\ last' = [op |-> "read", o |-> o, n |-> n, res |-> ImplRead(img, o, n)]
              /\ UNCHANGED <<img, view>>
Next == \E o \in 0..img.size-1 : \E n \in 1..(img.size - o) : Read(o, n)
NoNext == FALSE /\ UNCHANGED vars
Spec == Init /\ [][Next]_vars
SpecDiff == InitDiff /\ [][Next]_vars

ReadCorrect == last.op = "read" => last.res = Slice(view, last.o, last.n)
ViewTotal   == DOMAIN view = 0..img.size-1
OldReadCorrect == \A o \in 0..img.size-1 : \A n \in 1..(img.size - o) : ImplReadOld(img, o, n) = Slice(view, o, n)
=============================================================================
