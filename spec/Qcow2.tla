------------------------------- MODULE Qcow2 -------------------------------
(* QCOW2 (qemu docs/interop/qcow2.txt), versions 2 and 3.                      *)
(* Two-level mapping: L1 entry -> L2 table -> one entry per guest cluster.     *)
(* Standard L2 entry: unallocated | zero (plain / with preallocated host       *)
(* cluster) | normal (host cluster) | compressed (descriptor).                 *)
(* Extended L2 entry (incompatible bit 4): entry + 64-bit bitmap giving every  *)
(* one of the 32 sub-clusters the state unallocated / allocated / zero.        *)
(* Unallocated (sub-)clusters read from the backing file at the same guest     *)
(* offset, or zeros when there is no backing file or it is shorter.            *)
(* With an external data file the guest data lives in that file (host offset 0 *)
(* is legal there).  Cells: s cells per cluster (s = sub-clusters for ext L2). *)
EXTENDS Common, TLC

CONSTANTS NL1, L2N, S, P, NCOMP, MaxTail, EXT    \* EXT: enumerate extended-L2 images
VARIABLES img, view, last
vars == <<img, view, last>>

NC == NL1 * L2N
E(t, h, sub) == [t |-> t, h |-> h, sub |-> sub]
NoSub == <<>>
SubsU == [1..S -> {"U", "Z"}]           \* cluster without host offset: only zero bits may be set
SubsN == [1..S -> {"U", "A", "Z"}]

StdEntries == {E("U", 0, NoSub), E("ZP", 0, NoSub)}
              \cup {E("ZA", h, NoSub) : h \in 0..P-1} \cup {E("N", h, NoSub) : h \in 0..P-1}
              \cup {E("C", id, NoSub) : id \in 0..NCOMP-1}
ExtEntries == {E("U", 0, sb) : sb \in SubsU} \cup {E("N", h, sb) : h \in 0..P-1, sb \in SubsN}
              \cup {E("C", id, NoSub) : id \in 0..NCOMP-1}

HasHost(e) == e.t \in {"ZA", "N"}
WF(i) == /\ \A x, y \in 0..NC-1 : (x # y /\ HasHost(i.l2[x]) /\ HasHost(i.l2[y])) => i.l2[x].h # i.l2[y].h
         /\ \A x, y \in 0..NC-1 : (x # y /\ i.l2[x].t = "C" /\ i.l2[y].t = "C") => i.l2[x].h # i.l2[y].h
         /\ i.datafile => \A x \in 0..NC-1 : i.l2[x].t # "C"
         \* host offset 0 is the image header unless the data lives in an external file
         /\ ~i.datafile => \A x \in 0..NC-1 : HasHost(i.l2[x]) => i.l2[x].h >= 1
         \* canonical form: entries under an absent L2 table are unallocated
         /\ \A c \in 0..NC-1 : ~i.l1[c \div L2N] => i.l2[c] = (IF i.ext THEN E("U", 0, [k \in 1..S |-> "U"]) ELSE E("U", 0, NoSub))

\* extended L2: the first cluster ranges over every entry, the others over a few representative ones
AllSub(x) == [k \in 1..S |-> x]
MixSub    == [k \in 1..S |-> IF k % 2 = 1 THEN "A" ELSE IF k = 2 THEN "U" ELSE "Z"]
ExtSecond == {E("U", 0, AllSub("U")), E("U", 0, AllSub("Z")), E("N", P - 1, AllSub("A")), E("N", P - 1, MixSub)}
             \cup {E("C", NCOMP - 1, NoSub)}
L2Maps == IF EXT THEN {[c \in 0..NC-1 |-> IF c = 0 THEN a ELSE b] : a \in ExtEntries, b \in ExtSecond}
          ELSE [0..NC-1 -> StdEntries]

Images == {i \in [ext : {EXT}, datafile : BOOLEAN, l2n : {L2N}, s : {S}, l1 : [0..NL1-1 -> BOOLEAN],
                  l2 : L2Maps,
                  back : {-1, 0} \cup {NC*S - 1, NC*S},   \* -1: no backing file; otherwise its length in cells
                  size : (NC*S - MaxTail)..(NC*S)] : WF(i) /\ i.back # 0}

Fall(i, cell) == IF i.back > cell THEN Back(cell) ELSE Zero
DataTok(i, e, o) == Data(IF i.datafile THEN 1 ELSE 0, e.h * i.s + o)

CellSrc(i, cell) ==
  LET c == cell \div i.s
      o == cell % i.s
      e == IF i.l1[c \div i.l2n] THEN i.l2[c] ELSE E("U", 0, NoSub)
  IN CASE e.t = "C" -> Comp(e.h, o)
       [] ~i.ext /\ e.t \in {"ZP", "ZA"} -> Zero
       [] ~i.ext /\ e.t = "N" -> DataTok(i, e, o)
       [] i.ext /\ i.l1[c \div i.l2n] /\ e.sub[o + 1] = "Z" -> Zero
       [] i.ext /\ i.l1[c \div i.l2n] /\ e.sub[o + 1] = "A" -> DataTok(i, e, o)
       [] OTHER -> Fall(i, cell)

GuestView(i) == [cell \in 0..i.size-1 |-> CellSrc(i, cell)]

\* ---- transcription of QCow2._yield_runs / count_contiguous_subclusters / _read for standard L2 entries ----
\* (cells = bytes scaled; s cells per cluster; one recursion step per yielded run)
TypeOf(i, c) == IF ~i.l1[c \div i.l2n] THEN "U" ELSE i.l2[c].t
RECURSIVE CountContig(_, _, _, _, _, _)
\* clusters l2idx+k .. within the same L2 table continuing the run of type ty (host offsets consecutive for N / ZA)
CountContig(i, c0, k, nb, ty, h0) ==
  IF k >= nb THEN k
  ELSE LET c == c0 + k IN
       IF TypeOf(i, c) # ty THEN k
       ELSE IF ty \in {"N", "ZA"} /\ i.l2[c].h # h0 + k THEN k
       ELSE CountContig(i, c0, k + 1, nb, ty, h0)

RunTokens(i, ty, c, oic, off, n) ==
  CASE ty = "C"  -> [j \in 1..n |-> Comp(i.l2[c].h, oic + j - 1)]
    [] ty \in {"ZP", "ZA"} -> [j \in 1..n |-> Zero]
    [] ty = "N"  -> [j \in 1..n |-> Data(IF i.datafile THEN 1 ELSE 0, i.l2[c].h * i.s + oic + j - 1)]
    [] OTHER     -> [j \in 1..n |-> Fall(i, off + j - 1)]

RECURSIVE ImplRead(_, _, _)
ImplRead(i, off, len) ==
  IF len <= 0 THEN <<>>
  ELSE LET c    == off \div i.s
           oic  == off % i.s
           l2i  == c % i.l2n
           need == Min(len + oic, (i.l2n - l2i) * i.s)
       IN IF ~i.l1[c \div i.l2n]
          THEN LET rc == need - oic IN RunTokens(i, "U", c, oic, off, rc) \o ImplRead(i, off + rc, len - rc)
          ELSE LET ty  == i.l2[c].t
                   nb  == CeilDiv(need, i.s)
                   cnt == IF ty = "C" THEN 1 ELSE CountContig(i, c, 1, nb, ty, i.l2[c].h)
                   rc  == Min(cnt * i.s, need) - oic
               IN RunTokens(i, ty, c, oic, off, rc) \o ImplRead(i, off + rc, len - rc)

\* ---- transcription for extended L2 entries (repaired code): get_subcluster_type, get_subcluster_range_type,
\* ---- count_contiguous_subclusters and _yield_runs, cells = sub-clusters, S sub-clusters per cluster ----
AllocBit(e, k) == e.t = "N" /\ e.sub[k + 1] = "A"        \* bit k of the low half of the bitmap
ZeroBit(e, k)  == e.t \in {"N", "U"} /\ e.sub # <<>> /\ e.sub[k + 1] = "Z"
ScType(e, k) == CASE e.t = "C" -> "COMP"
                  [] e.t = "N" -> IF ZeroBit(e, k) THEN "ZERO_ALLOC" ELSE IF AllocBit(e, k) THEN "NORMAL" ELSE "UNALLOC_ALLOC"
                  [] OTHER     -> IF ZeroBit(e, k) THEN "ZERO_PLAIN" ELSE "UNALLOC_PLAIN"
\* count trailing ones / zeros of a predicate over bit positions from..S-1 (bits below `from` are forced by the mask)
RECURSIVE CountWhile(_, _, _)
CountWhile(Pred(_), k, s) == IF k < s /\ Pred(k) THEN 1 + CountWhile(Pred, k + 1, s) ELSE 0
RangeCount(i, e, from) ==
  LET ty == ScType(e, from) IN
  CASE ty = "COMP" -> i.s - from
    [] ty = "NORMAL" -> CountWhile(LAMBDA k : AllocBit(e, k), from, i.s)                       \* cto(bitmap | mask) - from
    [] ty \in {"ZERO_ALLOC", "ZERO_PLAIN"} -> CountWhile(LAMBDA k : ZeroBit(e, k), from, i.s)   \* cto((bitmap >> 32) | mask) - from
    [] OTHER -> CountWhile(LAMBDA k : ~AllocBit(e, k) /\ ~ZeroBit(e, k), from, i.s)             \* ctz((zero | alloc) & ~mask) - from
CheckOffsetTypes == {"NORMAL", "ZERO_ALLOC", "UNALLOC_ALLOC"}
\* loop of count_contiguous_subclusters from cluster c0 (iteration k), nb clusters at most
RECURSIVE CountSub(_, _, _, _, _, _, _)
CountSub(i, c0, k, nb, sc0, ty0, acc) ==
  IF k >= nb THEN acc
  ELSE LET e     == i.l2[c0 + k]
           first == IF k = 0 THEN sc0 ELSE 0
           ty    == ScType(e, first)
           cnt   == RangeCount(i, e, first)
       IN IF k = 0 /\ ty = "COMP" THEN cnt
          ELSE IF k > 0 /\ ty # ty0 THEN acc
          ELSE IF k > 0 /\ ty0 \in CheckOffsetTypes /\ e.h # i.l2[c0].h + k THEN acc
          ELSE IF first + cnt < i.s THEN acc + cnt
          ELSE CountSub(i, c0, k + 1, nb, sc0, IF k = 0 THEN ty ELSE ty0, acc + cnt)

RECURSIVE ImplReadExt(_, _, _)
ImplReadExt(i, off, len) ==
  IF len <= 0 THEN <<>>
  ELSE LET c    == off \div i.s
           sc   == off % i.s
           l2i  == c % i.l2n
           need == Min(len + sc, (i.l2n - l2i) * i.s)
       IN IF ~i.l1[c \div i.l2n]
          THEN LET rc == need - sc IN [j \in 1..rc |-> Fall(i, off + j - 1)] \o ImplReadExt(i, off + rc, len - rc)
          ELSE LET e   == i.l2[c]
                   ty  == ScType(e, sc)
                   nb  == CeilDiv(need, i.s)
                   cnt == CountSub(i, c, 0, nb, sc, ty, 0)
                   rc  == Min(cnt + sc, need) - sc
                   part == CASE ty = "COMP" -> [j \in 1..rc |-> Comp(e.h, sc + j - 1)]
                             [] ty \in {"ZERO_ALLOC", "ZERO_PLAIN"} -> [j \in 1..rc |-> Zero]
                             [] ty = "NORMAL" -> [j \in 1..rc |-> Data(IF i.datafile THEN 1 ELSE 0, e.h * i.s + sc + j - 1)]
                             [] OTHER -> [j \in 1..rc |-> Fall(i, off + j - 1)]
               IN IF rc <= 0 THEN <<[k |-> "STUCK", f |-> 0, c |-> 0]>>      \* no progress: the real loop would never terminate
                  ELSE part \o ImplReadExt(i, off + rc, len - rc)

Init == /\ img \in Images
        /\ view = GuestView(img)
        /\ last = [op |-> "open", o |-> 0, n |-> 0, res |-> <<>>]
Read(o, n) == /\ last' = [op |-> "read", o |-> o, n |-> n, res |-> IF img.ext THEN ImplReadExt(img, o, n) ELSE ImplRead(img, o, n)]
              /\ UNCHANGED <<img, view>>
Next == \E o \in 0..img.size-1 : \E n \in 1..(img.size - o) : Read(o, n)
NoNext == FALSE /\ UNCHANGED vars
Spec == Init /\ [][Next]_vars

ReadCorrect == last.op = "read" => last.res = Slice(view, last.o, last.n)
ViewTotal   == DOMAIN view = 0..img.size-1
=============================================================================
