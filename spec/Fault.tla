-------------------------------- MODULE Fault --------------------------------
(* Fault catalogue and resource bound for C11.  The catalogue is the finite    *)
(* set  <format, kind, target, class>:                                         *)
(*   kind "field":  target = index of a header/table field of a valid input of *)
(*                  the format, class = the value it is overwritten with       *)
(*                  (0, 1, max, max-1, +1, -1, sign bit, own offset, file size)*)
(*   kind "trunc":  target = index of a structure boundary, class = -1 / 0 / +1*)
(*   kind "special": cyclic references, inflate bombs, empty input             *)
(* Every entry is applied to a valid input and run under a watchdog; the run   *)
(* is an event  [outcome, cpu_ms, peak_kb, input_kb, request_kb].              *)
(* Bounded: the run returned or raised, within CPU and memory that are linear  *)
(* in the input and request sizes with generous constants.                     *)
EXTENDS Integers, Sequences, FiniteSets, TLC, Json, IOUtils

CONSTANTS Formats, NF, NT, NS        \* NF[f] fields, NT[f] truncation points, NS[f] specials
FieldClasses == {"zero", "one", "max", "max-1", "plus1", "minus1", "signbit", "self", "filesize"}
TruncClasses == {"-1", "0", "+1"}

VARIABLES entry, tid
vars == <<entry, tid>>

Catalogue == UNION {
   {[fmt |-> f, kind |-> "field", target |-> t, class |-> c] : t \in 1..NF[f], c \in FieldClasses}
   \cup {[fmt |-> f, kind |-> "trunc", target |-> t, class |-> c] : t \in 1..NT[f], c \in TruncClasses}
   \cup {[fmt |-> f, kind |-> "special", target |-> t, class |-> "x"] : t \in 1..NS[f]}
   : f \in Formats}

Init == entry \in Catalogue /\ tid = 0
NoNext == FALSE /\ UNCHANGED vars

\* ---- judging recorded runs (trace validation) ----
CpuBoundMs(inKb, reqKb)  == 4000 + 40 * (inKb + reqKb)          \* ~25 KB/ms at worst, plus start-up
MemBoundKb(inKb, reqKb)  == 65536 + 8 * (inKb + reqKb)          \* 64 MiB + 8 x (input + request)
Bounded(ev) == /\ ev.outcome \in {"return", "raise"}
               /\ ev.cpu_ms <= CpuBoundMs(ev.input_kb, ev.request_kb)
               /\ ev.peak_kb <= MemBoundKb(ev.input_kb, ev.request_kb)
Why(ev) == IF ev.outcome \notin {"return", "raise"} THEN "no-termination"
           ELSE IF ev.cpu_ms > CpuBoundMs(ev.input_kb, ev.request_kb) THEN "cpu"
           ELSE IF ev.peak_kb > MemBoundKb(ev.input_kb, ev.request_kb) THEN "memory" ELSE "ok"

Runs == ndJsonDeserialize(IOEnv.TRACE_FILE)
TInit == entry = 0 /\ tid = 1
TStep == /\ tid <= Len(Runs)
         /\ IF Bounded(Runs[tid]) THEN PrintT(<<"ACCEPT", Runs[tid].tid>>) ELSE PrintT(<<"REJECT", Runs[tid].tid, 1, Why(Runs[tid])>>)
         /\ tid' = tid + 1 /\ UNCHANGED entry
TraceSpec == TInit /\ [][TStep]_vars
=============================================================================
