------------------------------ MODULE Progress ------------------------------
(* Reference walks that must terminate on arbitrary (also cyclic) input (C11). *)
(*  chain : Parallels Descriptor.get_snapshot_chain - follow ParentGUID from a *)
(*          snapshot until the null GUID; par[s] in 0..N (0 = null GUID,       *)
(*          any other value may name any snapshot, including s itself).        *)
(*  tables: Hyper-V object-table discovery - the list of object tables grows   *)
(*          while it is iterated; refs[t] = set of tables listed by table t    *)
(*          (a table may list itself or an earlier one).                       *)
(* Each loop iteration is one action; Guarded = TRUE models the repaired code  *)
(* (visited set, error on revisit), FALSE the code as found.  Termination is   *)
(* checked as a liveness property under weak fairness of the loop action.      *)
EXTENDS Integers, Sequences, FiniteSets, TLC

CONSTANTS N, Guarded
VARIABLES kind, par, refs, cur, seen, work, pos, phase
vars == <<kind, par, refs, cur, seen, work, pos, phase>>

Init == /\ kind \in {"chain", "tables"}
        /\ par \in [1..N -> 0..N]
        /\ refs \in [1..N -> SUBSET (1..N)]
        /\ cur = 1 /\ seen = {1} /\ work = <<1>> /\ pos = 1 /\ phase = "run"

\* ---- snapshot chain walk ----
ChainStep == /\ kind = "chain" /\ phase = "run"
             /\ IF par[cur] = 0 THEN phase' = "returned" /\ UNCHANGED <<cur, seen>>
                ELSE IF Guarded /\ par[cur] \in seen THEN phase' = "raised" /\ UNCHANGED <<cur, seen>>
                ELSE cur' = par[cur] /\ seen' = seen \cup {par[cur]} /\ phase' = "run"
             /\ UNCHANGED <<kind, par, refs, work, pos>>

\* ---- object table discovery: for t in work: for r in refs[t]: work.append(r) ----
TablesStep == /\ kind = "tables" /\ phase = "run"
              /\ IF pos > Len(work) THEN phase' = "returned" /\ UNCHANGED <<work, pos, seen>>
                 ELSE LET t   == work[pos]
                          new == IF Guarded THEN refs[t] \ seen ELSE refs[t]
                          \* append the referenced tables (in any fixed order)
                          RECURSIVE AppendAll(_, _)
                          AppendAll(w, s) == IF s = {} THEN w ELSE LET x == CHOOSE y \in s : TRUE IN AppendAll(Append(w, x), s \ {x})
                      IN /\ work' = AppendAll(work, new) /\ pos' = pos + 1 /\ seen' = seen \cup refs[t]
                         /\ phase' = IF Len(work') > 4 * N + 4 THEN "unbounded" ELSE "run"
              /\ UNCHANGED <<kind, par, refs, cur>>

Next == ChainStep \/ TablesStep
Spec == Init /\ [][Next]_vars /\ WF_vars(Next)

Termination == <>(phase \in {"returned", "raised"})
\* when the discovery returns it has visited exactly the tables reachable from the first one (every listed table, each once)
RECURSIVE ReachN(_, _)
ReachN(S, k) == IF k = 0 THEN S ELSE ReachN(S \cup UNION {refs[t] : t \in S}, k - 1)
DiscoversAll == (kind = "tables" /\ phase = "returned" /\ Guarded) =>
                   /\ {work[i] : i \in 1..Len(work)} = ReachN({1}, N)
                   /\ \A i, j \in 1..Len(work) : i # j => work[i] # work[j]
Bounded == phase # "unbounded" /\ Cardinality(seen) <= N
=============================================================================
