-------------------------------- MODULE Vhd --------------------------------
(* Microsoft VHD (Virtual Hard Disk Image Format Specification 1.0).          *)
(*  fixed   : guest byte x is file byte x; a 512-byte footer follows the data *)
(*            (511 bytes for images written before Virtual PC 2004).          *)
(*  dynamic : footer copy, dynamic header, BAT of 32-bit sector numbers       *)
(*            (0xFFFFFFFF = block not allocated -> zeros); an allocated block *)
(*            is a sector bitmap (one bit per sector, padded to a sector)     *)
(*            followed by the block's data.                                   *)
(* A physical position p is a slot "bitmap + block"; token Data(0, p*cb + o)  *)
(* is cell o of the data part of slot p (the concretisation places the bitmap *)
(* in front of it, so a reader that does not skip it returns bitmap bytes).   *)
EXTENDS Common, TLC

CONSTANTS N, CB, P, MaxTail
VARIABLES img, view, last
vars == <<img, view, last>>

NoBlock == -1
Bats == [0..N-1 -> {NoBlock} \cup 0..P-1]
WF(b) == \A x, y \in DOMAIN b : (x # y /\ b[x] >= 0) => b[x] # b[y]

Images ==
  {[kind |-> "dynamic", n |-> N, cb |-> CB, bat |-> b, size |-> s, foot511 |-> f] :
      b \in {bb \in Bats : WF(bb)}, s \in (N*CB - MaxTail)..(N*CB), f \in BOOLEAN}
  \cup
  {[kind |-> "fixed", n |-> N, cb |-> CB, bat |-> [x \in 0..N-1 |-> NoBlock], size |-> s, foot511 |-> f] :
      s \in (N*CB - MaxTail)..(N*CB), f \in BOOLEAN}

CellSrc(i, cell) ==
  IF i.kind = "fixed" THEN Data(0, cell)
  ELSE LET b == cell \div i.cb
           o == cell % i.cb
       IN IF i.bat[b] = NoBlock THEN Zero ELSE Data(0, i.bat[b] * i.cb + o)

GuestView(i) == [cell \in 0..i.size-1 |-> CellSrc(i, cell)]

\* ---- transcription of DynamicDisk.read_sectors / FixedDisk.read_sectors (vhd.py); sectors = cells ----
RECURSIVE ImplDyn(_, _, _)
ImplDyn(i, sector, count) ==
  IF count <= 0 THEN <<>>
  ELSE LET block == sector \div i.cb
           off   == sector % i.cb
           rc    == Min(count, i.cb - off)
           so    == i.bat[block]
           part  == IF so # NoBlock THEN [j \in 1..rc |-> Data(0, so * i.cb + off + j - 1)]
                    ELSE [j \in 1..rc |-> Zero]
       IN part \o ImplDyn(i, sector + rc, count - rc)

ImplRead(i, o, n) == IF i.kind = "fixed" THEN [j \in 1..n |-> Data(0, o + j - 1)] ELSE ImplDyn(i, o, n)

Init == /\ img \in Images
        /\ view = GuestView(img)
        /\ last = [op |-> "open", o |-> 0, n |-> 0, res |-> <<>>]
Read(o, n) == /\ last' = [op |-> "read", o |-> o, n |-> n, res |-> ImplRead(img, o, n)]
              /\ UNCHANGED <<img, view>>
Next == \E o \in 0..img.size-1 : \E n \in 1..(img.size - o) : Read(o, n)
NoNext == FALSE /\ UNCHANGED vars
Spec == Init /\ [][Next]_vars

ReadCorrect == last.op = "read" => last.res = Slice(view, last.o, last.n)
ViewTotal   == DOMAIN view = 0..img.size-1
=============================================================================
