-------------------------------- MODULE Vmtar --------------------------------
(* ESXi visor tar (vmtar).  A vmtar is a tar archive whose "visor" headers     *)
(* (magic "visor  ") carry the byte offset of the member's data, which is      *)
(* stored after the header area instead of inline.  Ordinary ustar members,    *)
(* and visor members whose offset field is 0, keep their data inline (after    *)
(* the header, padded to 512 bytes).  The archive is modelled as a sequence of *)
(* 512-byte blocks in the header area followed by a data area.                 *)
(* members[i] = [visor, dir, size (bytes class), inline, slot, ext]:            *)
(*    inline: data follows the header; slot: rank of the data in the data area *)
(*    ext: number of 512-byte blocks of extension records (GNU long-name "L"   *)
(*         record or pax "x" record: its own header + payload blocks) written  *)
(*         in front of the member's header; the reader consumes them and then  *)
(*         parses the real header that follows.                                *)
EXTENDS Common, TLC, Json, IOUtils

CONSTANTS MaxM, Sizes, Exts
VARIABLES members, cursor, listed, phase
vars == <<members, cursor, listed, phase>>

Blocks(sz) == CeilDiv(sz, 512)
Member == [visor : BOOLEAN, dir : BOOLEAN, size : Sizes, inline : BOOLEAN, slot : 1..MaxM, ext : Exts]
WFM(ms) == /\ \A i \in 1..Len(ms) : /\ ms[i].dir => (ms[i].size = 0 /\ ms[i].inline)
                                    /\ ~ms[i].visor => ms[i].inline                       \* only visor headers can point elsewhere
                                    /\ (ms[i].visor /\ ms[i].size = 0) => ms[i].inline     \* empty files have no data area slot
           \* external data slots are a permutation of 1..k (any order of the data area)
           /\ LET E == {i \in 1..Len(ms) : ~ms[i].inline} IN
                 /\ \A i \in E : ms[i].slot \in 1..Cardinality(E)
                 /\ \A i, j \in E : i # j => ms[i].slot # ms[j].slot
           /\ \A i \in 1..Len(ms) : ms[i].inline => ms[i].slot = 1

\* block index (in the header area) of member i's header: headers and inline data are laid out in order
RECURSIVE HdrBlock(_, _)
RecBlocks(m) == m.ext + 1 + (IF m.inline THEN Blocks(m.size) ELSE 0)
\* block index of the first block of member i's record (its extension record if it has one, else its header)
HdrBlock(ms, i) == IF i = 1 THEN 0 ELSE HdrBlock(ms, i - 1) + RecBlocks(ms[i - 1])
EndBlock(ms) == HdrBlock(ms, Len(ms)) + RecBlocks(ms[Len(ms)])

\* ---- the reader (tarfile iteration with VisorTarInfo._proc_member) ----
\* after parsing the header at `cursor` the next header is searched at:
NextCursor(m, c) == IF m.visor /\ ~m.inline THEN c + m.ext + 1          \* data lives elsewhere: do not skip
                    ELSE c + m.ext + 1 + Blocks(m.size)                 \* standard tar: skip the inline data
HeaderAt(ms, c) == IF \E i \in 1..Len(ms) : HdrBlock(ms, i) = c
                   THEN CHOOSE i \in 1..Len(ms) : HdrBlock(ms, i) = c ELSE 0

Init == /\ members \in UNION {{ms \in [1..k -> Member] : WFM(ms)} : k \in 1..MaxM}
        /\ cursor = 0 /\ listed = <<>> /\ phase = "iter"
Step == /\ phase = "iter"
        /\ LET i == HeaderAt(members, cursor) IN
             IF cursor = EndBlock(members) THEN phase' = "done" /\ UNCHANGED <<cursor, listed>>
             ELSE IF i = 0 THEN phase' = "lost" /\ UNCHANGED <<cursor, listed>>      \* cursor landed inside data
             ELSE /\ listed' = Append(listed, i) /\ cursor' = NextCursor(members[i], cursor) /\ phase' = "iter"
        /\ UNCHANGED members
NoNext == FALSE /\ UNCHANGED vars
Spec == Init /\ [][Step]_vars

\* ---- trace validation: listings recorded from the real reader on random larger archives ----
\* run = [tid, members: [visor, dir, size, inline, slot], listed: [[index, header_offset_bytes], ...]]
Runs == ndJsonDeserialize(IOEnv.TRACE_FILE)
RunOK(r) == /\ Len(r.listed) = Len(r.members)
            /\ \A i \in 1..Len(r.listed) : r.listed[i][1] = i /\ r.listed[i][2] = 512 * HdrBlock(r.members, i)
TInit == members = <<>> /\ cursor = 1 /\ listed = <<>> /\ phase = "trace"
TStep == /\ phase = "trace" /\ cursor \in 1..Len(Runs)
         /\ IF RunOK(Runs[cursor]) THEN PrintT(<<"ACCEPT", Runs[cursor].tid>>) ELSE PrintT(<<"REJECT", Runs[cursor].tid, 1, "listing">>)
         /\ cursor' = cursor + 1 /\ UNCHANGED <<members, listed, phase>>
TraceSpec == TInit /\ [][TStep]_vars

NeverLost == phase # "lost"
AllListed == phase = "done" => listed = [i \in 1..Len(members) |-> i]
=============================================================================
