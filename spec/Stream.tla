------------------------------- MODULE Stream -------------------------------
(* The buffered stream layer every disk reader is built on                    *)
(* (dissect.util.stream.AlignedStream) over an abstract back-end.             *)
(* The disk is an immutable array View[0..Size-1]; the back-end contract is   *)
(*   Backend(o, len) = View[o .. min(o+len, Size))  for every aligned o < Size *)
(*   and every len > 0, including o + len > Size                              *)
(* (the layer asks for a full buffer at the tail).  The model follows the     *)
(* three-part read algorithm (misaligned head from the buffer, aligned middle *)
(* straight from the back-end, tail through a refilled buffer) and shows that *)
(* the contract suffices for C08: every read returns the slice, positions add *)
(* up, peek is pure, the sector interface agrees, nothing depends on history. *)
EXTENDS Integers, Sequences, TLC

CONSTANTS Size, Align, Sector, MaxN, MaxDepth
ASSUME Align % Sector = 0

VARIABLES st,      \* [pos, pa, buf]: position, aligned position, buffer (<<>> = none)
          last,    \* the last public call with its result
          depth
vars == <<st, last, depth>>

View        == [i \in 0..Size-1 |-> i]
Slice(o, n) == [k \in 1..n |-> View[o + k - 1]]
Min(a, b)   == IF a < b THEN a ELSE b
Max0(a)     == IF a < 0 THEN 0 ELSE a
Backend(o, len) == Slice(o, Max0(Min(len, Size - o)))

Move(s, p)  == LET pa == p - (p % Align)
               IN [pos |-> p, pa |-> pa, buf |-> IF pa = s.pa THEN s.buf ELSE <<>>]
Fill(s)     == IF s.buf # <<>> \/ Size <= s.pos \/ Size <= s.pa THEN s
               ELSE [s EXCEPT !.buf = Backend(s.pa, Align)]

HeadPart(s, n) == IF s.pos = s.pa THEN [r |-> <<>>, s |-> s, n |-> n]
                  ELSE LET f  == Fill(s)
                           bp == f.pos - f.pa
                           m  == Min(n, Align - bp)
                       IN [r |-> SubSeq(f.buf, bp + 1, bp + m), s |-> Move(f, f.pos + m), n |-> n - m]
MidPart(h)     == IF h.n < Align THEN h
                  ELSE LET len == (h.n \div Align) * Align
                       IN [r |-> h.r \o Backend(h.s.pos, len), s |-> Move(h.s, h.s.pos + len), n |-> h.n % Align]
TailPart(m)    == IF m.n = 0 THEN m
                  ELSE LET f == Fill(m.s)
                       IN [r |-> m.r \o SubSeq(f.buf, 1, m.n), s |-> Move(f, f.pos + m.n), n |-> 0]
DoRead(s, n0)  == LET n == IF n0 = -1 THEN Size - s.pos ELSE Min(n0, Size - s.pos)
                  IN IF n <= 0 THEN [r |-> <<>>, s |-> s] ELSE TailPart(MidPart(HeadPart(s, n)))

Rec(op, a, b, res) == [op |-> op, pos0 |-> st.pos, a |-> a, b |-> b, res |-> res]

Read(n)   == LET d == DoRead(st, n) IN st' = d.s /\ last' = Rec("read", n, 0, d.r)
Peek(n)   == LET d == DoRead(st, n) IN st' = Move(d.s, st.pos) /\ last' = Rec("peek", n, 0, d.r)
Seek(w, k) ==
  LET p == CASE w = 0 -> k
             [] w = 1 -> Max0(st.pos + k)
             [] w = 2 -> Max0(Size + k)
  IN (w = 0 => k >= 0) /\ st' = Move(st, p) /\ last' = Rec("seek", w, k, <<>>)
ReadOffset(o, n) == LET d == DoRead(Move(st, o), n) IN st' = d.s /\ last' = Rec("readoffset", o, n, d.r)
Sectors(s, c) == /\ (s + c) * Sector <= Size
                 /\ UNCHANGED st
                 /\ last' = Rec("sectors", s, c, Backend(s * Sector, c * Sector))

Init == /\ st = [pos |-> 0, pa |-> 0, buf |-> <<>>]
        /\ last = [op |-> "open", pos0 |-> 0, a |-> 0, b |-> 0, res |-> <<>>]
        /\ depth = 0

Step == \/ \E n \in -1..MaxN : Read(n)
        \/ \E n \in 0..MaxN : Peek(n)
        \/ \E w \in 0..2 : \E k \in (-Size - 1)..(Size + 2) : Seek(w, k)
        \/ \E o \in 0..(Size + 1) : \E n \in 0..MaxN : ReadOffset(o, n)
        \/ \E s \in 0..(Size \div Sector) : \E c \in 1..(Size \div Sector) : Sectors(s, c)
Next == depth < MaxDepth /\ Step /\ depth' = depth + 1
Spec == Init /\ [][Next]_vars

\* ---- properties (C08) ----
Want(o, n)  == Slice(o, IF n = -1 THEN Max0(Size - o) ELSE Max0(Min(n, Size - o)))
ReadCorrect == /\ last.op \in {"read", "peek"} => last.res = Want(last.pos0, last.a)
               /\ last.op = "readoffset" => last.res = Want(last.a, last.b)
               /\ last.op = "sectors" => last.res = Slice(last.a * Sector, last.b * Sector)
PosAdvance  == /\ last.op = "read" => st.pos = last.pos0 + Len(last.res)
               /\ last.op = "peek" => st.pos = last.pos0
               /\ last.op = "readoffset" => st.pos = last.a + Len(last.res)
               /\ last.op = "sectors" => st.pos = last.pos0
\* the only trace an earlier operation leaves is a buffer that is a pure function of the position
BufCoherent == /\ st.pa = st.pos - (st.pos % Align)
               /\ st.buf # <<>> => st.buf = Backend(st.pa, Align)
=============================================================================
