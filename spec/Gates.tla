-------------------------------- MODULE Gates --------------------------------
(* Foreign or unsupported inputs are refused, not misread (C12).               *)
(* For every parser the open sequence is a chain of gates in code order; an    *)
(* input assigns every gate the value class "ok" or one of its bad classes.    *)
(* The parser accepts iff every gate is ok; a rejected input is never served.  *)
EXTENDS Integers, Sequences, FiniteSets, TLC

Parsers == {"qcow2", "vhdx", "vdi", "hds", "hdd", "vmdk-sparse", "vmdk-delta", "hyperv", "envelope", "keystore", "keysafe"}

GatesOf(p) ==
  CASE p = "qcow2"    -> <<"magic", "version", "cluster_bits", "subcluster_size", "crypt_method", "compression", "data_file", "backing_file">>
    [] p = "vhdx"     -> <<"file_identifier", "header_signature", "region_signature_1", "region_signature_2", "metadata_region", "metadata_signature",
                           "required_item", "unknown_required_item", "locator_type", "parent_resolved", "bat_region">>
    [] p = "vdi"      -> <<"signature">>
    [] p = "hds"      -> <<"signature">>
    [] p = "hdd"      -> <<"descriptor_present", "image_type", "parent_image_type", "ancestor_image_present">>   \* image types of every snapshot in the chain; an image for each of them in every storage
    [] p = "vmdk-sparse" -> <<"magic", "footer_magic">>                                 \* stream-optimised extents carry a second header at the end
    [] p = "vmdk-delta" -> <<"extent_present", "parent_present">>      \* a delta disk: the files its descriptor names, the parent it hints at
    [] p = "hyperv"   -> <<"header_signature", "version", "replay_log_signature", "object_table_signature", "chained_object_table_signature",
                           "key_table_signature", "other_key_table_signature">>   \* every listed key table: superseded copies and further tables too
    [] p = "envelope" -> <<"magic", "version", "attr_keyinfo", "attr_ciphername", "attr_keyhash", "cipher", "aead_footer_version">>
    [] p = "keystore" -> <<"mode_present", "mode_none">>
    [] p = "keysafe"  -> <<"identifier", "locator_kind", "pass2key", "phrase_cipher", "hmac">>

VARIABLES parser, feats, step, verdict, served
vars == <<parser, feats, step, verdict, served>>

NG(p) == Len(GatesOf(p))
\* feature vectors with at most two bad gates
Vectors(p) == {f \in [1..NG(p) -> {"ok", "bad"}] : Cardinality({g \in 1..NG(p) : f[g] = "bad"}) <= 2}

Init == /\ parser \in Parsers
        /\ feats \in Vectors(parser)
        /\ step = 1 /\ verdict = "pending" /\ served = FALSE

Check == /\ verdict = "pending" /\ step <= NG(parser)
         /\ IF feats[step] = "ok" THEN step' = step + 1 /\ verdict' = verdict ELSE verdict' = "reject" /\ step' = step
         /\ UNCHANGED <<parser, feats, served>>
Accept == /\ verdict = "pending" /\ step > NG(parser)
          /\ verdict' = "accept" /\ UNCHANGED <<parser, feats, step, served>>
Serve  == /\ verdict = "accept" /\ ~served /\ served' = TRUE /\ UNCHANGED <<parser, feats, step, verdict>>
Next == Check \/ Accept \/ Serve
NoNext == FALSE /\ UNCHANGED vars
Spec == Init /\ [][Next]_vars

AcceptImpliesSupported == verdict = "accept" => \A g \in 1..NG(parser) : feats[g] = "ok"
RejectBeforeServe      == verdict = "reject" => ~served
RejectNamesFirstBadGate == verdict = "reject" => (feats[step] = "bad" /\ \A g \in 1..step-1 : feats[g] = "ok")
=============================================================================
