------------------------------ MODULE TraceVdi ------------------------------
(* Trace validation for VDI: every recorded public call on the real           *)
(* dissect.hypervisor.disk.vdi.VDI object must be a step the specification    *)
(* allows.  Many traces per file; one verdict line per trace.                 *)
EXTENDS Vdi, TraceCommon, Json, IOUtils

VARIABLES tid, l, pos
tvars == <<vars, tid, l, pos>>

Traces == ndJsonDeserialize(IOEnv.TRACE_FILE)

T      == Traces[tid]
ImgOf(j) == [n |-> j.n, cb |-> 1, map |-> [b \in 0..j.n-1 |-> j.map[b + 1]], size |-> j.n, parent |-> j.parent]
Src(q) == CellSrc(ImgOf(T.img), q)

Ev == T.events[l]

ReadOK(ev, at) ==
  /\ ev.len = ExpectLen(T.sizeB, at, ev.n)
  /\ TotalLen(ev.runs) = ev.len
  /\ RunsOK(Src, ev.runs, at, T.cellB, T.bases, T.pbase)

EventOK(ev) ==
  CASE ev.e = "open"  -> ev.size = T.sizeB
    [] ev.e = "seek"  -> ev.ret = SeekTo(T.sizeB, pos, ev.whence, ev.arg)
    [] ev.e = "tell"  -> ev.ret = pos
    [] ev.e \in {"read", "readinto"} -> ev.pos0 = pos /\ ReadOK(ev, pos) /\ ev.tell = pos + ev.len
    [] ev.e = "peek"  -> ev.pos0 = pos /\ ReadOK(ev, pos) /\ ev.tell = pos
    [] ev.e = "readoffset" -> ReadOK(ev, ev.o) /\ ev.tell = ev.o + ev.len
    [] OTHER -> FALSE

NewPos(ev) ==
  CASE ev.e = "seek" -> ev.ret
    [] ev.e \in {"read", "readinto"} -> pos + ev.len
    [] ev.e = "readoffset" -> ev.o + ev.len
    [] OTHER -> pos

\* name the failing clause of a rejected event
Clause(ev) ==
  IF ev.e \in {"read", "readinto", "peek", "readoffset"} THEN
    LET at == IF ev.e = "readoffset" THEN ev.o ELSE pos IN
    IF ev.e # "readoffset" /\ ev.pos0 # pos THEN "position-before"
    ELSE IF ev.len # ExpectLen(T.sizeB, at, ev.n) THEN "length"
    ELSE IF TotalLen(ev.runs) # ev.len THEN "runs-length"
    ELSE IF ~RunsOK(Src, ev.runs, at, T.cellB, T.bases, T.pbase) THEN "content"
    ELSE "position-after"
  ELSE ev.e

TInit == /\ img = 0 /\ view = 0 /\ last = 0
         /\ tid = 1 /\ l = 1 /\ pos = 0

Step    == /\ tid <= Len(Traces) /\ l <= Len(T.events) /\ EventOK(Ev)
           /\ l' = l + 1 /\ pos' = NewPos(Ev) /\ UNCHANGED <<vars, tid>>
Reject  == /\ tid <= Len(Traces) /\ l <= Len(T.events) /\ ~EventOK(Ev)
           /\ PrintT(<<"REJECT", T.tid, l, Clause(Ev)>>)
           /\ tid' = tid + 1 /\ l' = 1 /\ pos' = 0 /\ UNCHANGED vars
Accept  == /\ tid <= Len(Traces) /\ l > Len(T.events)
           /\ PrintT(<<"ACCEPT", T.tid>>)
           /\ tid' = tid + 1 /\ l' = 1 /\ pos' = 0 /\ UNCHANGED vars

TNext == Step \/ Reject \/ Accept
TraceSpec == TInit /\ [][TNext]_tvars
=============================================================================
