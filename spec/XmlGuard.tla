------------------------------ MODULE XmlGuard ------------------------------
(* XML consuming entry points (C19): OVF, VirtualBox, PVS, Parallels           *)
(* DiskDescriptor.  A document that declares entities (internal at any nesting *)
(* depth, external general, parameter entities) must be refused; nothing may   *)
(* ever be fetched (local file or network); documents without entity           *)
(* declarations parse as usual (an external DTD subset alone is not an entity  *)
(* declaration: it may parse, but must not be fetched).                        *)
EXTENDS Integers, FiniteSets, TLC

Entries  == {"ovf", "vbox", "pvs", "hdd"}
\* "elemdecl": a DOCTYPE whose internal subset holds only ELEMENT / ATTLIST declarations; "doctype": a bare DOCTYPE -
\* neither declares an entity
Features == {"internal", "nested", "extfile", "exthttp", "param", "extdtd", "elemdecl", "doctype"}
DeclaresEntity(fs) == fs \cap {"internal", "nested", "extfile", "exthttp", "param"} # {}

VARIABLES entry, feats, verdict, fetched
vars == <<entry, feats, verdict, fetched>>

Init == entry \in Entries /\ feats \in SUBSET Features /\ verdict = "pending" /\ fetched = {}
\* the guarded parser: refuses before any expansion or fetch
Parse == /\ verdict = "pending"
         /\ verdict' = IF DeclaresEntity(feats) THEN "refused" ELSE "parsed"
         /\ fetched' = {}
         /\ UNCHANGED <<entry, feats>>
Next == Parse
NoNext == FALSE /\ UNCHANGED vars
Spec == Init /\ [][Next]_vars

EntitiesRefused == (verdict # "pending" /\ DeclaresEntity(feats)) => verdict = "refused"
NoFetch         == fetched = {}
BenignParses    == (verdict # "pending" /\ ~DeclaresEntity(feats)) => verdict = "parsed"
=============================================================================
