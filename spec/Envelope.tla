------------------------------ MODULE Envelope ------------------------------
(* ESXi DataTransformEnvelope, version 2, AES-256-GCM (C16), with symbolic     *)
(* cryptography.  An envelope was sealed with (key, header attributes, aad,    *)
(* payload); a reader is given a key and associated data and a possibly        *)
(* tampered file.  Steps follow the implementation's order:                    *)
(*   ParseHeader  (magic, version, required attributes, cipher, footer)        *)
(*   KeyHashGate  (SHA-256(cipher name ++ key) must equal vmware.keyHash)      *)
(*   DecryptChunk (GCM over re-serialised header ++ aad; the encrypted section  *)
(*                 is processed in 4 MiB chunks appended in order to a private *)
(*                 buffer; footer and padding are stripped)                    *)
(*   VerifyTag    -> Return the buffer | Fail (nothing is returned)            *)
(* tamper names the part of the file that was altered after sealing.           *)
(* fill: how full the attribute area of the header block is (the header is     *)
(* re-serialised and padded to the block size to form the associated data).    *)
(* An Envelope object can be asked again: after the first attempt (whatever    *)
(* its outcome) a second decrypt() with the right key and associated data must *)
(* behave like a first one; and after that (a plaintext may have been         *)
(* returned by then) a third decrypt() with a wrong key or with other           *)
(* associated data must still fail: what an attempt returns depends on what    *)
(* that attempt was given, not on what the object returned before.             *)
(* A reader may be constructed with tag verification switched off: the key     *)
(* hash gate and everything the format requires still apply, only the          *)
(* authentication tag (and with it header, associated data and ciphertext      *)
(* integrity) goes unchecked; what comes back for an altered ciphertext is     *)
(* then unspecified.                                                           *)
EXTENDS Integers, Sequences, FiniteSets, TLC

Tampers == {"none", "attr-value", "attr-name", "attr-type", "keyhash", "iv", "aad", "ct-first", "ct-last", "ct-padding", "tag", "tag-size", "cryptofooter"}
LenClasses == {"empty", "one", "block-1", "block", "block+1", "big", "multi"}
\* number of 4 MiB chunks of the encrypted section (payload + padding + crypto footer)
NChunks(len) == CASE len = "big" -> 2 [] len = "multi" -> 4 [] OTHER -> 1
Payload(len) == [c \in 1..NChunks(len) |-> c]

Fills == {"slack", "exact", "one-short"}    \* within the single 4096-byte header block the reader supports
VARIABLES sealed,   \* [len, extra (number of extra attributes), aad (sealed with associated data?), tamper, fill]
          given,    \* [key ("right"/"wrong"), aad ("same"/"none"/"other"), verify (tag verification on?)]
          phase, out,
          buf, k,   \* private plaintext buffer (sequence of chunk numbers) and chunks processed
          attempt, first,  \* 1, 2 or 3; outcome of the first attempt
          second, third    \* outcome of the second attempt; what the third attempt is given ("wrong-key" / "other-aad")
vars == <<sealed, given, phase, out, buf, k, attempt, first, second, third>>

Init == /\ sealed \in [len : LenClasses, extra : 0..2, aad : BOOLEAN, tamper : Tampers, fill : Fills]
        /\ given \in [key : {"right", "wrong"}, aad : {"same", "none", "other"}, verify : BOOLEAN]
        /\ phase = "start" /\ out = "nothing" /\ buf = <<>> /\ k = 0 /\ attempt = 1 /\ first = "none"
        /\ second = "none" /\ third = "none"

\* what the reader is given in the current attempt
G == IF attempt = 1 THEN given
     ELSE IF attempt = 2 THEN [key |-> "right", aad |-> IF sealed.aad THEN "same" ELSE "none", verify |-> given.verify]
     ELSE [key |-> IF third = "wrong-key" THEN "wrong" ELSE "right",
           aad |-> IF third = "other-aad" THEN "other" ELSE IF sealed.aad THEN "same" ELSE "none", verify |-> given.verify]
\* alterations that change what the cipher puts out or how it is trimmed (the others only break authentication)
Garbles == sealed.tamper \in {"iv", "ct-first", "ct-last", "ct-padding", "cryptofooter"}
\* does the authenticated data the reader feeds to GCM equal what was sealed?
AadMatches == IF sealed.aad THEN G.aad = "same" ELSE G.aad \in {"none", "same"}
HeaderIntact == sealed.tamper \notin {"attr-value", "attr-name", "attr-type", "iv"}
BodyIntact   == sealed.tamper \notin {"ct-first", "ct-last", "ct-padding", "cryptofooter", "tag", "tag-size"}

ParseHeader == phase = "start" /\ phase' = "parsed" /\ UNCHANGED <<sealed, given, out, buf, k, attempt, first, second, third>>
KeyHashGate == /\ phase = "parsed"
               /\ phase' = IF G.key = "right" /\ sealed.tamper # "keyhash" THEN "keyok" ELSE "failed"
               /\ UNCHANGED <<sealed, given, out, buf, k, attempt, first, second, third>>
DecryptChunk == /\ phase = "keyok" /\ k < NChunks(sealed.len)
                /\ k' = k + 1 /\ buf' = Append(buf, k + 1)
                /\ UNCHANGED <<sealed, given, phase, out, attempt, first, second, third>>
DecryptVerify == /\ phase = "keyok" /\ k = NChunks(sealed.len)
                 /\ IF G.verify
                    THEN IF HeaderIntact /\ BodyIntact /\ AadMatches /\ sealed.tamper # "aad"
                         THEN phase' = "returned" /\ out' = buf
                         ELSE phase' = "failed" /\ out' = "nothing"
                    ELSE IF Garbles
                         THEN phase' \in {"returned", "failed"} /\ out' = IF phase' = "returned" THEN "unspecified" ELSE "nothing"
                         ELSE IF ~HeaderIntact
                         \* an altered attribute may be one the reader requires (then it refuses) or one it only authenticates
                         THEN phase' \in {"returned", "failed"} /\ out' = IF phase' = "returned" THEN buf ELSE "nothing"
                         ELSE phase' = "returned" /\ out' = buf
                 /\ UNCHANGED <<sealed, given, buf, k, attempt, first, second, third>>
\* the same object is asked again, now with the right key and the associated data it was sealed with
Again == /\ attempt = 1 /\ phase \in {"returned", "failed"}
         /\ attempt' = 2 /\ first' = phase
         /\ phase' = "parsed" /\ out' = "nothing" /\ buf' = <<>> /\ k' = 0
         /\ UNCHANGED <<sealed, given, second, third>>
\* and once more, now with something wrong: another key, or other associated data
AgainWrong == /\ attempt = 2 /\ phase \in {"returned", "failed"}
              /\ attempt' = 3 /\ second' = phase /\ third' \in {"wrong-key", "other-aad"}
              /\ phase' = "parsed" /\ out' = "nothing" /\ buf' = <<>> /\ k' = 0
              /\ UNCHANGED <<sealed, given, first>>
Next == ParseHeader \/ KeyHashGate \/ DecryptChunk \/ DecryptVerify \/ Again \/ AgainWrong
NoNext == FALSE /\ UNCHANGED vars
Spec == Init /\ [][Next]_vars

Done == phase \in {"returned", "failed"}
RoundTrip == (Done /\ sealed.tamper = "none" /\ G.key = "right" /\ (AadMatches \/ ~G.verify)) => (phase = "returned" /\ out = Payload(sealed.len))
NoPlaintextOnFailure == phase = "failed" => out = "nothing"
ReturnsOnlyThePayload == phase = "returned" => IF ~G.verify /\ Garbles THEN out = "unspecified" ELSE out = Payload(sealed.len)
AuthFailsClosed == (Done /\ G.verify /\ (sealed.tamper # "none" \/ G.key = "wrong" \/ ~AadMatches)) => phase = "failed"
\* the key hash gate does not depend on tag verification
KeyGateAlways == (Done /\ (G.key = "wrong" \/ sealed.tamper = "keyhash")) => (phase = "failed" /\ out = "nothing")
\* asking again is like asking for the first time: the second outcome depends on the file only
SecondLikeFirst == (attempt = 2 /\ Done /\ G.verify) => (phase = "returned" <=> sealed.tamper = "none")
\* an earlier success buys nothing: the third attempt (wrong key / other associated data) fails whatever came before
ThirdStillChecked == (attempt = 3 /\ Done /\ (G.verify \/ third = "wrong-key")) => (phase = "failed" /\ out = "nothing")
=============================================================================
