------------------------------ MODULE Envelope ------------------------------
(* ESXi DataTransformEnvelope, version 2, AES-256-GCM (C16), with symbolic     *)
(* cryptography.  An envelope was sealed with (key, header attributes, aad,    *)
(* payload); a reader is given a key and associated data and a possibly        *)
(* tampered file.  Steps follow the implementation's order:                    *)
(*   ParseHeader  (magic, version, required attributes, cipher, footer)        *)
(*   KeyHashGate  (SHA-256(cipher name ++ key) must equal vmware.keyHash)      *)
(*   Decrypt      (GCM over re-serialised header ++ aad; strip footer+padding) *)
(*   VerifyTag    -> Return plaintext | Fail                                   *)
(* tamper names the part of the file that was altered after sealing.           *)
EXTENDS Integers, FiniteSets, TLC

Tampers == {"none", "attr-value", "attr-name", "attr-type", "keyhash", "iv", "aad", "ct-first", "ct-last", "ct-padding", "tag", "tag-size", "cryptofooter"}
LenClasses == {"empty", "one", "block-1", "block", "block+1", "big"}

VARIABLES sealed,   \* [len, extra (number of extra attributes), aad (sealed with associated data?), tamper]
          given,    \* [key ("right"/"wrong"), aad ("same"/"none"/"other")]
          phase, out
vars == <<sealed, given, phase, out>>

Init == /\ sealed \in [len : LenClasses, extra : 0..2, aad : BOOLEAN, tamper : Tampers]
        /\ given \in [key : {"right", "wrong"}, aad : {"same", "none", "other"}]
        /\ phase = "start" /\ out = "nothing"

\* does the authenticated data the reader feeds to GCM equal what was sealed?
AadMatches == IF sealed.aad THEN given.aad = "same" ELSE given.aad \in {"none", "same"}
HeaderIntact == sealed.tamper \notin {"attr-value", "attr-name", "attr-type", "iv"}
BodyIntact   == sealed.tamper \notin {"ct-first", "ct-last", "ct-padding", "cryptofooter", "tag", "tag-size"}

ParseHeader == phase = "start" /\ phase' = "parsed" /\ UNCHANGED <<sealed, given, out>>
KeyHashGate == /\ phase = "parsed"
               /\ phase' = IF given.key = "right" /\ sealed.tamper # "keyhash" THEN "keyok" ELSE "failed"
               /\ UNCHANGED <<sealed, given, out>>
DecryptVerify == /\ phase = "keyok"
                 /\ IF HeaderIntact /\ BodyIntact /\ AadMatches /\ sealed.tamper # "aad"
                    THEN phase' = "returned" /\ out' = "payload"
                    ELSE phase' = "failed" /\ out' = "nothing"
                 /\ UNCHANGED <<sealed, given>>
Next == ParseHeader \/ KeyHashGate \/ DecryptVerify
NoNext == FALSE /\ UNCHANGED vars
Spec == Init /\ [][Next]_vars

Done == phase \in {"returned", "failed"}
RoundTrip == (Done /\ sealed.tamper = "none" /\ given.key = "right" /\ AadMatches) => (phase = "returned" /\ out = "payload")
NoPlaintextOnFailure == phase = "failed" => out = "nothing"
AuthFailsClosed == (Done /\ (sealed.tamper # "none" \/ given.key = "wrong" \/ ~AadMatches)) => phase = "failed"
=============================================================================
