-------------------------------- MODULE Vmdk --------------------------------
(* VMware VMDK sparse extents (VMware Virtual Disk Format 5.0; libvmdk notes;  *)
(* qemu block/vmdk.c for SE-sparse).  A grain directory points at grain tables *)
(* of gtes entries; a grain-table entry is                                     *)
(*   hosted / COWD: 0 = not allocated (parent or zeros), 1 = zero grain        *)
(*                  (hosted only), s > 1 = grain stored at sector s            *)
(*   SE-sparse (64-bit, type nibble): 0 unallocated, 1 fall-through ("unmap"), *)
(*                  2 zero, 3 allocated at cluster index                       *)
(* class "sparse" stands for hosted sparse with the grain directory named by   *)
(* the header or by the footer, plain or stream-optimised (compressed grains). *)
(* Cells = sectors (or groups); cb cells per grain; the capacity need not be a *)
(* multiple of the grain size.  Host cells: grain position p (>= 1) occupies   *)
(* host cells p*cb .. p*cb+cb-1.                                               *)
EXTENDS Common, TLC

CONSTANTS NGD, GTES, CB, P, MaxTail
VARIABLES img, view, last
vars == <<img, view, last>>

NG == NGD * GTES            \* grains addressable
U == [t |-> "U", p |-> 0]   \* not allocated
F == [t |-> "F", p |-> 0]   \* SE-sparse fall-through
Z == [t |-> "Z", p |-> 0]   \* zero grain
D(p) == [t |-> "D", p |-> p]

EntriesOf(class) == CASE class = "sparse" -> {U, Z} \cup {D(p) : p \in 1..P}
                      [] class = "cowd"   -> {U} \cup {D(p) : p \in 1..P}
                      [] class = "se"     -> {U, F, Z} \cup {D(p) : p \in 1..P}

WF(i) == /\ \A x, y \in 0..NG-1 : (x # y /\ i.gt[x].t = "D" /\ i.gt[y].t = "D") => i.gt[x].p # i.gt[y].p
         \* canonical form: entries under an absent grain table are "not allocated"
         /\ \A g \in 0..NG-1 : ~i.gd[g \div GTES] => i.gt[g] = U

Images == UNION {
  {i \in [class : {c}, gtes : {GTES}, cb : {CB}, gd : [0..NGD-1 -> BOOLEAN], gt : [0..NG-1 -> EntriesOf(c)],
          cap : (NG*CB - MaxTail)..(NG*CB), parent : BOOLEAN] : WF(i)}
  : c \in {"sparse", "cowd", "se"}}

CellSrc(i, cell) ==
  LET g == cell \div i.cb
      o == cell % i.cb
      e == IF i.gd[g \div i.gtes] THEN i.gt[g] ELSE U
  IN CASE e.t \in {"U", "F"} -> IF i.parent THEN Back(cell) ELSE Zero
       [] e.t = "Z" -> Zero
       [] OTHER -> Data(0, e.p * i.cb + o)

GuestView(i) == [cell \in 0..i.cap-1 |-> CellSrc(i, cell)]

\* ---- transcription of SparseDisk._lookup_grain / get_runs / read_sectors (vmdk.py); sectors = cells ----
\* grain "sector" as the code sees it: 0 unallocated, 1 zero grain, otherwise the host cell of the grain
GrainSector(i, g) ==
  LET e == IF i.gd[g \div i.gtes] THEN i.gt[g] ELSE U
  IN CASE e.t \in {"U", "F"} -> 0 [] e.t = "Z" -> 1 [] OTHER -> e.p * i.cb

None == -1
\* st = [rt (run_type), ro (run_offset), rc (run_count), rp (run_parent), ngs (next_grain_sector), runs]
RECURSIVE GetRuns(_, _, _, _)
GetRuns(i, rs, rcnt, st) ==
  IF rcnt <= 0 THEN Append(st.runs, <<st.rt, st.ro, st.rc, st.rp>>)
  ELSE LET g   == rs \div i.cb
           go  == rs % i.cb
           gsr == GrainSector(i, g)
           rsc == Min(rcnt, i.cb - go)
           st2 == IF (st.rt = 0 /\ gsr = 0) \/ (st.rt = 1 /\ gsr = 1)
                  THEN [st EXCEPT !.rc = @ + rsc]
                  ELSE IF st.rt > 1 /\ gsr = st.ngs
                  THEN [st EXCEPT !.ngs = @ + i.cb, !.rc = @ + rsc]
                  ELSE LET flushed == IF st.rt # None
                                      THEN [st EXCEPT !.runs = Append(@, <<st.rt, st.ro, st.rc, st.rp>>), !.rt = None, !.rc = 0, !.rp = None]
                                      ELSE st
                       IN CASE gsr = 0 -> [flushed EXCEPT !.rt = 0, !.rc = @ + rsc, !.rp = rs]
                            [] gsr = 1 -> [flushed EXCEPT !.rt = 1, !.rc = @ + rsc]
                            [] OTHER   -> [flushed EXCEPT !.rt = gsr, !.ro = go, !.rc = @ + rsc, !.ngs = gsr + i.cb]
       IN GetRuns(i, rs + rsc, rcnt - rsc, st2)

RECURSIVE ExecRuns(_, _, _)
ExecRuns(i, runs, k) ==
  IF k > Len(runs) THEN <<>>
  ELSE LET r == runs[k]
           part == CASE r[1] = 0 -> [j \in 1..r[3] |-> IF i.parent THEN Back(r[4] + j - 1) ELSE Zero]
                     [] r[1] = 1 -> [j \in 1..r[3] |-> Zero]
                     [] OTHER    -> [j \in 1..r[3] |-> Data(0, r[1] + r[2] + j - 1)]
       IN part \o ExecRuns(i, runs, k + 1)

ImplRead(i, o, n) ==
  ExecRuns(i, GetRuns(i, o, n, [rt |-> None, ro |-> 0, rc |-> 0, rp |-> None, ngs |-> 0, runs |-> <<>>]), 1)

Init == /\ img \in Images
        /\ view = GuestView(img)
        /\ last = [op |-> "open", o |-> 0, n |-> 0, res |-> <<>>]
Read(o, n) == /\ last' = [op |-> "read", o |-> o, n |-> n, res |-> ImplRead(img, o, n)]
              /\ UNCHANGED <<img, view>>
Next == \E o \in 0..img.cap-1 : \E n \in 1..(img.cap - o) : Read(o, n)
NoNext == FALSE /\ UNCHANGED vars
Spec == Init /\ [][Next]_vars

ReadCorrect == last.op = "read" => last.res = Slice(view, last.o, last.n)
ViewTotal   == DOMAIN view = 0..img.cap-1
=============================================================================
