------------------------------- MODULE Layers -------------------------------
(* Layer precedence in differencing / backing / snapshot chains (C07).        *)
(* A chain is a sequence of layers, top first.  Every layer says for every    *)
(* guest cell whether it HOLDS the cell ("H": its own stored data), holds it  *)
(* as ZERO ("Z") or does not hold it ("A": absent -> next layer).  Below the   *)
(* base everything is zero.  Token Data(i - 1, cell): the data layer i stores  *)
(* for guest cell `cell`.                                                      *)
(* Parent resolution: a format searches its candidate locations in a fixed     *)
(* order; `fs` says which candidates exist.  Opening a layer that needs a      *)
(* parent with no candidate present must fail unless the caller opted out.     *)
EXTENDS Common, TLC

CONSTANTS MaxDepth, Cells, NCand
VARIABLES chain, view, fs, optOut, phase, used, last
vars == <<chain, view, fs, optOut, phase, used, last>>

LayerStates == [0..Cells-1 -> {"H", "Z", "A"}]

RECURSIVE View(_, _, _)
View(ch, i, cell) ==
  IF i > Len(ch) THEN Zero
  ELSE CASE ch[i][cell] = "H" -> Data(i - 1, cell)
         [] ch[i][cell] = "Z" -> Zero
         [] OTHER -> View(ch, i + 1, cell)

GuestView(ch) == [cell \in 0..Cells-1 |-> View(ch, 1, cell)]

\* implementation shape: every layer answers from itself or asks its parent (recursive reads through the chain)
RECURSIVE ReadLayer(_, _, _, _)
ReadLayer(ch, i, o, n) ==
  IF i > Len(ch) THEN [j \in 1..n |-> Zero]
  ELSE [j \in 1..n |-> LET c == o + j - 1 IN
          CASE ch[i][c] = "H" -> Data(i - 1, c)
            [] ch[i][c] = "Z" -> Zero
            [] OTHER -> ReadLayer(ch, i + 1, c, 1)[1]]

\* first existing candidate in search order, 0 if none
FirstCand(f) == IF \E c \in 1..NCand : f[c] THEN CHOOSE c \in 1..NCand : f[c] /\ \A d \in 1..c-1 : ~f[d] ELSE 0

Init == /\ chain \in UNION {[1..d -> LayerStates] : d \in 1..MaxDepth}
        /\ view = GuestView(chain)
        /\ fs \in [1..NCand -> BOOLEAN]
        /\ optOut \in BOOLEAN
        /\ phase = "closed" /\ used = 0
        /\ last = [op |-> "init", o |-> 0, n |-> 0, res |-> <<>>]

NeedsParent == Len(chain) > 1
Open == /\ phase = "closed"
        /\ IF NeedsParent /\ FirstCand(fs) = 0 /\ ~optOut
           THEN phase' = "rejected" /\ used' = 0
           ELSE phase' = "open" /\ used' = FirstCand(fs)
        /\ last' = [op |-> "open", o |-> 0, n |-> 0, res |-> <<>>]
        /\ UNCHANGED <<chain, view, fs, optOut>>
\* with the opt-out and no parent the child is presented alone: absent cells read as zeros
Effective == IF NeedsParent /\ used = 0 THEN <<chain[1]>> ELSE chain
Read(o, n) == /\ phase = "open"
              /\ last' = [op |-> "read", o |-> o, n |-> n, res |-> ReadLayer(Effective, 1, o, n)]
              /\ UNCHANGED <<chain, view, fs, optOut, phase, used>>
Next == Open \/ \E o \in 0..Cells-1 : \E n \in 1..(Cells - o) : Read(o, n)
NoNext == FALSE /\ UNCHANGED vars
Spec == Init /\ [][Next]_vars

TopmostWins == last.op = "read" => last.res = Slice(GuestView(Effective), last.o, last.n)
MissingParentRejected == (phase # "closed" /\ NeedsParent /\ FirstCand(fs) = 0 /\ ~optOut) => phase = "rejected"
FirstCandidateUsed == phase = "open" => used = FirstCand(fs)
=============================================================================
