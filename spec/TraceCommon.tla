---------------------------- MODULE TraceCommon ----------------------------
(* Operators shared by the trace specifications (direction B: traces recorded *)
(* from the real readers are validated against the format modules).           *)
(*                                                                            *)
(* A recorded read result is run-length decoded by the recorder into byte     *)
(* runs  [k, f, o, n]:  k = "Z" zeros | "D" location-coded data of pattern    *)
(* file f starting at file byte offset o | "C" inflated compressed unit f     *)
(* from byte o | "G" undecodable bytes;  n = byte count.                       *)
(* Positions and lengths are bytes (< 2^31); the image is described in cells  *)
(* of cellB bytes; bases[f+1] is the file byte offset of host cell 0 of f.    *)
EXTENDS Integers, Sequences, TLC

TMin(a, b) == IF a < b THEN a ELSE b
TMax(a, b) == IF a < b THEN b ELSE a

ParentF == 160   \* pattern file id the recorder uses for "the next layer"

RECURSIVE SumN(_, _)
SumN(runs, k) == IF k = 0 THEN 0 ELSE runs[k].n + SumN(runs, k - 1)
RunStart(runs, r) == SumN(runs, r - 1)
TotalLen(runs)    == SumN(runs, Len(runs))

\* geometry record of a trace: geo = [cellB, cb, stride, bases, pbase]
\*   cellB  bytes per cell;  cb cells per allocation unit;  stride bytes between consecutive unit positions
\*   bases[f+1] file byte offset of host cell 0 of file f;  pbase offset added to guest offsets in the parent
HostByte(geo, t) == geo.bases[t.f + 1] + (t.c \div geo.cb) * geo.stride + (t.c % geo.cb) * geo.cellB

\* identity of the image under test: token file f carries pattern file id geo.fids[f+1] (default f), and compressed
\* units carry geo.csalt + unit (default 0) - different images in one process never hold equal bytes at equal places,
\* so data leaking from one object to another is visible
Fid(geo, f) == IF "fids" \in DOMAIN geo THEN geo.fids[f + 1] ELSE f
CSalt(geo)  == IF "csalt" \in DOMAIN geo THEN geo.csalt ELSE 0

\* the bytes from lo on of guest cell q, whose source token is t, agree with run r that starts at guest byte g
CellAgrees(t, q, lo, r, g, geo) ==
  LET inCell == lo - q * geo.cellB  \* first byte inside the cell
      inRun  == lo - g              \* same byte inside the run
  IN CASE t.k = "Z" -> r.k = "Z"
       [] t.k = "D" -> r.k = "D" /\ r.f = Fid(geo, t.f) /\ r.o + inRun = HostByte(geo, t) + inCell
       [] t.k = "B" -> r.k = "D" /\ r.f = ParentF /\ r.o + inRun = geo.pbase + t.c * geo.cellB + inCell
       [] t.k = "C" -> r.k = "C" /\ r.f = t.f + CSalt(geo) /\ r.o + inRun = t.c * geo.cellB + inCell
       [] OTHER -> FALSE

\* run r covering guest bytes [g, g + r.n) agrees with Src on every overlapped cell
RunOK(Src(_), r, g, geo) ==
  r.n > 0 /\ \A q \in (g \div geo.cellB)..((g + r.n - 1) \div geo.cellB) :
      CellAgrees(Src(q), q, TMax(g, q * geo.cellB), r, g, geo)

\* the decoded result of a read at guest byte o is exactly the guest view
RunsOK(Src(_), runs, o, geo) ==
  \A r \in 1..Len(runs) : RunOK(Src, runs[r], o + RunStart(runs, r), geo)

\* ---- stream semantics at the public API (C08): position arithmetic and EOF clamp, in bytes ----
ExpectLen(sizeB, pos, n) ==
  IF n < 0 THEN (IF sizeB > pos THEN sizeB - pos ELSE 0)
  ELSE IF sizeB - pos < 0 THEN 0 ELSE TMin(n, sizeB - pos)

SeekTo(sizeB, pos, whence, k) ==
  CASE whence = 0 -> k
    [] whence = 1 -> TMax(0, pos + k)
    [] whence = 2 -> TMax(0, sizeB + k)
=============================================================================
