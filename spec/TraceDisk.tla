----------------------------- MODULE TraceDisk -----------------------------
(* Trace validation for all disk readers (direction B).  Every recorded       *)
(* public call on a real stream object must be a step the specification       *)
(* allows: position arithmetic and EOF clamp as in C08, content as the        *)
(* format module's CellSrc.  Many traces per file; one verdict line per trace.*)
(* A trace is a session: besides the stream that was opened it may drive the  *)
(* stream objects of its ancestors (ev.obj = k: the k-th layer of T.chain,    *)
(* 1 = the top).  Every object has its own position, and what object k reads  *)
(* is the overlay of layers k.. - whatever was done to the other objects.     *)
(* A stream owns its ancestors as handles (QCow2 positions its backing file   *)
(* with seek + read): an event on object j leaves the positions of objects    *)
(* k > j unknown (-1) until they are positioned absolutely again.             *)
EXTENDS Common, TraceCommon, Json, IOUtils

CONSTANTS N, CB, P, MaxTail, NGD, GTES, NL1, L2N, S, NCOMP, EXT
VARIABLES img, view, last, tid, l, pos
vars  == <<img, view, last>>
tvars == <<vars, tid, l, pos>>

Vdi == INSTANCE Vdi
Vhd == INSTANCE Vhd
Hds == INSTANCE Hds
Vhdx == INSTANCE Vhdx
Vmdk == INSTANCE Vmdk
Qcow2 == INSTANCE Qcow2

Traces == ndJsonDeserialize(IOEnv.TRACE_FILE)
T      == Traces[tid]

\* JSON arrays are 1-based sequences; the modules use 0-based functions
Fn0(s) == [b \in 0..Len(s)-1 |-> s[b + 1]]

\* j.cb (optional): cells per block - the layers of a chain may use different block sizes over a common cell size
VdiCb(j)  == IF "cb" \in DOMAIN j THEN j.cb ELSE 1
VdiImg(j) == [n |-> j.n, cb |-> VdiCb(j), map |-> Fn0(j.map), size |-> j.n * VdiCb(j), parent |-> j.parent]
VhdImg(j) == [kind |-> j.kind, n |-> j.n, cb |-> j.cb, bat |-> Fn0(j.bat), size |-> j.size, foot511 |-> j.foot511]

HdsImg(j) == [kind |-> j.kind, ver |-> j.ver, n |-> j.n, cb |-> j.cb, bat |-> Fn0(j.bat), size |-> j.size, parent |-> j.parent]

SetOf(s) == {s[x] : x \in 1..Len(s)}
VhdxImg(j) == [n |-> j.n, cb |-> j.cb, size |-> j.size, parent |-> j.parent,
               bat |-> [b \in 0..j.n-1 |-> [st |-> j.st[b + 1], p |-> j.p[b + 1], bm |-> SetOf(j.bm[b + 1])]]]

\* VMDK traces list entry kinds and positions per grain; "C" marks a compressed stored grain (stream-optimised)
VmdkImg(j) == [class |-> j.class, gtes |-> j.gtes, cb |-> j.cb, cap |-> j.cap, parent |-> j.parent, gd |-> Fn0(j.gd),
               gt |-> [g \in 0..Len(j.t)-1 |-> [t |-> IF j.t[g + 1] = "C" THEN "D" ELSE j.t[g + 1], p |-> j.p[g + 1]]]]
VmdkSrc(j, q) == LET t == Vmdk!CellSrc(VmdkImg(j), q)
                 IN IF t.k = "D" /\ j.t[(q \div j.cb) + 1] = "C" THEN Comp(t.c \div j.cb, t.c % j.cb) ELSE t

\* QCOW2 traces carry real 32-bit allocation / zero bitmaps as 16-bit halves (TLC integers are 32-bit signed)
Bit(lo, hi, b) == IF b < 16 THEN (lo \div (2 ^ b)) % 2 ELSE (hi \div (2 ^ (b - 16))) % 2
QSub(j, c, o) == IF Bit(j.al_lo[c + 1], j.al_hi[c + 1], o) = 1 THEN "A"
                 ELSE IF Bit(j.ze_lo[c + 1], j.ze_hi[c + 1], o) = 1 THEN "Z" ELSE "U"
QcowImg(j) == [ext |-> j.ext, datafile |-> j.datafile, l2n |-> j.nc, s |-> j.s, l1 |-> [x \in 0..0 |-> TRUE],
               back |-> j.back, size |-> j.nc * j.s,
               l2 |-> [c \in 0..j.nc-1 |-> [t |-> j.t[c + 1], h |-> j.h[c + 1],
                                             sub |-> IF j.ext /\ j.t[c + 1] # "C" THEN [o \in 1..32 |-> QSub(j, c, o - 1)] ELSE <<>>]]]

\* ---- chains (C07): T.chain is a sequence of layers, top first; data of layer i carries pattern file id i-1 ----
LayerSrc(L, q) == CASE L.fmt = "flat"  -> Data(0, q)
                    [] L.fmt = "vdi"   -> Vdi!CellSrc(VdiImg(L.img), q)
                    [] L.fmt = "vhdx"  -> Vhdx!CellSrc(VhdxImg(L.img), q)
                    [] L.fmt = "hds"   -> Hds!CellSrc(HdsImg(L.img), q)
                    [] L.fmt = "qcow2" -> Qcow2!CellSrc(QcowImg(L.img), q)
RECURSIVE ChainSrc(_, _, _)
ChainSrc(ch, i, q) ==
  IF i > Len(ch) THEN Zero
  ELSE LET t == LayerSrc(ch[i], q)
       IN CASE t.k = "B" -> ChainSrc(ch, i + 1, t.c)
            [] t.k = "D" -> [t EXCEPT !.f = i - 1]
            [] OTHER -> t

\* ---- multi-extent disks (C10): T.exts is a sequence of extents [fmt, start, n, img], start / n in cells ----
\* an extent may itself be a snapshot chain (fmt "chain": x.chain, top layer first); data of layer j of extent i carries
\* token file (i-1) * T.fmul + (j-1)
ExtIndex(q) == CHOOSE i \in 1..Len(T.exts) : T.exts[i].start <= q /\ q < T.exts[i].start + T.exts[i].n
FMul == IF "fmul" \in DOMAIN T THEN T.fmul ELSE 1
ExtentSrc(q) ==
  LET i == ExtIndex(q)
      x == T.exts[i]
      t == CASE x.fmt = "flat" -> Data(0, q - x.start)
             [] x.fmt = "vmdk" -> VmdkSrc(x.img, q - x.start)
             [] x.fmt = "hds"  -> Hds!CellSrc(HdsImg(x.img), q - x.start)
             [] x.fmt = "chain" -> ChainSrc(x.chain, 1, q - x.start)
  IN IF t.k = "D" THEN [t EXCEPT !.f = (i - 1) * FMul + (IF x.fmt = "chain" THEN t.f ELSE 0)]
     ELSE IF t.k = "B" THEN [t EXCEPT !.c = t.c + x.start]      \* the parent is addressed by the guest cell of the whole disk
     ELSE t

Ev == T.events[l]
\* the stream object an event was recorded on (layer index, 1 = the stream that was opened)
Obj(ev) == IF "obj" \in DOMAIN ev THEN ev.obj ELSE 1
MaxObj == 8
\* virtual size of the object (layers of a chain may differ in size: a backing file may be shorter or longer)
SizeOf(ev) == IF "sizes" \in DOMAIN T THEN T.sizes[Obj(ev)] ELSE T.sizeB

Src(q) == CASE T.fmt = "chain" -> ChainSrc(T.chain, Obj(Ev), q)
            [] T.fmt = "extents" -> ExtentSrc(q)
            [] T.fmt = "vdi" -> Vdi!CellSrc(VdiImg(T.img), q)
            [] T.fmt = "vhd" -> Vhd!CellSrc(VhdImg(T.img), q)
            [] T.fmt = "hds" -> Hds!CellSrc(HdsImg(T.img), q)
            [] T.fmt = "vhdx" -> Vhdx!CellSrc(VhdxImg(T.img), q)
            [] T.fmt = "vmdk" -> VmdkSrc(T.img, q)
            [] T.fmt = "qcow2" -> Qcow2!CellSrc(QcowImg(T.img), q)

ReadOK(ev, at) ==
  /\ ev.len = ExpectLen(SizeOf(ev), at, ev.n)
  /\ TotalLen(ev.runs) = ev.len
  /\ RunsOK(Src, ev.runs, at, T.geo)

EventOK(ev) ==
  LET p == pos[Obj(ev)] IN
  CASE ev.e = "open"  -> ev.size = SizeOf(ev)
    [] ev.e = "seek"  -> ev.ret = SeekTo(SizeOf(ev), p, ev.whence, ev.arg)
    [] ev.e = "tell"  -> ev.ret = p
    [] ev.e \in {"read", "readinto"} -> ev.pos0 = p /\ ReadOK(ev, p) /\ ev.tell = p + ev.len
    [] ev.e = "peek"  -> ev.pos0 = p /\ ReadOK(ev, p) /\ ev.tell = p
    [] ev.e = "readoffset" -> ReadOK(ev, ev.o) /\ ev.tell = ev.o + ev.len
    \* sector interface: exactly c sectors of guest content, stream position untouched
    [] ev.e = "sectors" -> /\ ev.len = ev.c * T.sector
                           /\ TotalLen(ev.runs) = ev.len
                           /\ RunsOK(Src, ev.runs, ev.s * T.sector, T.geo)
                           /\ (p >= 0 => ev.tell = p)
    [] OTHER -> FALSE

\* the object the event was recorded on moves as specified; objects above it are untouched; objects below it (its
\* ancestors) may have been repositioned by it
NewPos(ev) ==
  [k \in 1..MaxObj |->
     IF k < Obj(ev) THEN pos[k]
     ELSE IF k > Obj(ev) THEN -1
     ELSE CASE ev.e = "seek" -> ev.ret
            [] ev.e \in {"read", "readinto"} -> pos[k] + ev.len
            [] ev.e = "readoffset" -> ev.o + ev.len
            [] OTHER -> pos[k]]

\* name the failing clause of a rejected event
Clause(ev) ==
  IF ev.e \in {"read", "readinto", "peek", "readoffset"} THEN
    LET at == IF ev.e = "readoffset" THEN ev.o ELSE pos[Obj(ev)] IN
    IF ev.e # "readoffset" /\ ev.pos0 # pos[Obj(ev)] THEN "position-before"
    ELSE IF ev.len # ExpectLen(SizeOf(ev), at, ev.n) THEN "length"
    ELSE IF TotalLen(ev.runs) # ev.len THEN "runs-length"
    ELSE IF ~RunsOK(Src, ev.runs, at, T.geo) THEN "content"
    ELSE "position-after"
  ELSE IF ev.e = "sectors" THEN
    IF ev.len # ev.c * T.sector \/ TotalLen(ev.runs) # ev.len THEN "length"
    ELSE IF ~RunsOK(Src, ev.runs, ev.s * T.sector, T.geo) THEN "content"
    ELSE "position-after"
  ELSE ev.e

Pos0 == [k \in 1..MaxObj |-> 0]
TInit == /\ img = 0 /\ view = 0 /\ last = 0
         /\ tid = 1 /\ l = 1 /\ pos = Pos0

Step    == /\ tid <= Len(Traces) /\ l <= Len(T.events) /\ EventOK(Ev)
           /\ l' = l + 1 /\ pos' = NewPos(Ev) /\ UNCHANGED <<vars, tid>>
Reject  == /\ tid <= Len(Traces) /\ l <= Len(T.events) /\ ~EventOK(Ev)
           /\ PrintT(<<"REJECT", T.tid, l, Clause(Ev)>>)
           /\ tid' = tid + 1 /\ l' = 1 /\ pos' = Pos0 /\ UNCHANGED vars
Accept  == /\ tid <= Len(Traces) /\ l > Len(T.events)
           /\ PrintT(<<"ACCEPT", T.tid>>)
           /\ tid' = tid + 1 /\ l' = 1 /\ pos' = Pos0 /\ UNCHANGED vars

TNext == Step \/ Reject \/ Accept
TraceSpec == TInit /\ [][TNext]_tvars
=============================================================================
