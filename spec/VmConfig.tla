------------------------------ MODULE VmConfig ------------------------------
(* VM configuration files (C18): which backing files are the VM's hard disks. *)
(*  VMX : key = value dictionary; devices <class><bus>:<unit> with properties  *)
(*        fileName / deviceType; keys case-insensitive, last assignment wins.   *)
(*  OVF : References/File -> DiskSection/Disk(fileRef) -> hardware Items with   *)
(*        ResourceType 17 whose HostResource names a disk or a file.            *)
(*  VBox: MediaRegistry HardDisk elements (nested); type Normal, format VDI.    *)
(*  PVS : Hardware/Hdd elements with a SystemName.                              *)
(* The abstract configuration is the device set; renderings (casing, quoting,   *)
(* comments, order, namespaces, unrelated entries) are chosen by the harness.   *)
EXTENDS Integers, Sequences, FiniteSets, TLC, Json, IOUtils

CONSTANTS MaxDev
VARIABLES cfg, expect
vars == <<cfg, expect>>

\* ---------------- VMX ----------------
Classes   == {"scsi", "sata", "ide", "nvme"}
DiskTypes == {"none", "disk", "scsi-hardDisk"}          \* "none": no deviceType key at all
OtherTypes == {"cdrom-image", "cdrom-raw", "atapi-cdrom"}
Slot == [cls : Classes, bus : 0..0, unit : 0..1]
\* dup: the fileName key is assigned twice (the last assignment names the real file)
VmxDev == [slot : Slot, type : DiskTypes \cup OtherTypes, file : BOOLEAN, dup : BOOLEAN]
\* device sets of up to MaxDev devices on distinct slots (built up by size; SUBSET VmxDev would be astronomically large)
RECURSIVE UpTo(_)
UpTo(k) == IF k = 0 THEN {{}}
           ELSE LET P == UpTo(k - 1) IN P \cup {ds \cup {d} : ds \in {x \in P : Cardinality(x) = k - 1}, d \in VmxDev}
VmxCfgs == {ds \in UpTo(MaxDev) : \A a, b \in ds : a # b => a.slot # b.slot}
VmxDisks(ds) == {d.slot : d \in {x \in ds : x.file /\ x.type \in DiskTypes}}

\* ---------------- OVF ----------------
\* items in document order; host = <<kind, index>> with kind "disk" | "file"; two files, two disks (disk k -> file fmap[k])
OvfItem == [rtype : {17, 15, 14, 6}, kind : {"disk", "file"}, idx : 1..2, prefix : BOOLEAN]
OvfCfgs == {[fmap |-> fm, items |-> it] : fm \in [1..2 -> 1..2], it \in UNION {[1..k -> OvfItem] : k \in 0..MaxDev}}
OvfResolve(c, it) == IF it.kind = "disk" THEN c.fmap[it.idx] ELSE it.idx
RECURSIVE OvfDisks(_, _)
OvfDisks(c, k) == IF k = 0 THEN <<>>
                  ELSE IF c.items[k].rtype = 17 THEN Append(OvfDisks(c, k - 1), OvfResolve(c, c.items[k]))
                  ELSE OvfDisks(c, k - 1)

\* ---------------- VirtualBox ----------------
\* type "absent": the element carries no type attribute (differencing children of a snapshot tree do not)
VbDisk == [format : {"VDI", "vdi", "Vdi", "VMDK", "VHD"}, type : {"Normal", "Immutable", "Writethrough", "absent"}, loc : BOOLEAN, nested : BOOLEAN]
VbCfgs == UNION {[1..k -> VbDisk] : k \in 0..MaxDev}
RECURSIVE VbDisks(_, _)
VbDisks(c, k) == IF k = 0 THEN <<>>
                 ELSE IF c[k].loc /\ c[k].type = "Normal" /\ c[k].format \in {"VDI", "vdi", "Vdi"} THEN Append(VbDisks(c, k - 1), k)
                 ELSE VbDisks(c, k - 1)

\* ---------------- Parallels PVS ----------------
PvsDev == [kind : {"Hdd", "CdRom", "Fdd"}, sysname : BOOLEAN]
PvsCfgs == UNION {[1..k -> PvsDev] : k \in 0..(MaxDev + 1)}
RECURSIVE PvsDisks(_, _)
PvsDisks(c, k) == IF k = 0 THEN <<>>
                  ELSE IF c[k].kind = "Hdd" /\ c[k].sysname THEN Append(PvsDisks(c, k - 1), k) ELSE PvsDisks(c, k - 1)

Expected(c) == CASE c.kind = "vmx"  -> VmxDisks(c.body)
                 [] c.kind = "ovf"  -> OvfDisks(c.body, Len(c.body.items))
                 [] c.kind = "vbox" -> VbDisks(c.body, Len(c.body))
                 [] c.kind = "pvs"  -> PvsDisks(c.body, Len(c.body))

InitVmx  == cfg \in {[kind |-> "vmx", body |-> b] : b \in VmxCfgs} /\ expect = Expected(cfg)
InitOvf  == cfg \in {[kind |-> "ovf", body |-> b] : b \in OvfCfgs} /\ expect = Expected(cfg)
InitVbox == cfg \in {[kind |-> "vbox", body |-> b] : b \in VbCfgs} /\ expect = Expected(cfg)
InitPvs  == cfg \in {[kind |-> "pvs", body |-> b] : b \in PvsCfgs} /\ expect = Expected(cfg)
NoNext == FALSE /\ UNCHANGED vars

\* ---- trace validation: larger random configurations, reported lists recorded from the real parsers ----
Runs == ndJsonDeserialize(IOEnv.TRACE_FILE)
SeqSet(q) == {q[i] : i \in 1..Len(q)}
\* the VMX expectation is a set of slots (the reader returns the file names sorted); the others are sequences of indices
ListOK(r, l) == CASE r.kind = "vmx"  -> SeqSet(l) = VmxDisks(SeqSet(r.body)) /\ Len(l) = Cardinality(VmxDisks(SeqSet(r.body)))
                  [] r.kind = "ovf"  -> l = OvfDisks(r.body, Len(r.body.items))
                  [] r.kind = "vbox" -> l = VbDisks(r.body, Len(r.body))
                  [] r.kind = "pvs"  -> l = PvsDisks(r.body, Len(r.body))
\* a peek (first element of a fresh listing, or nothing) agrees with the complete listing
PeekOK(r) == /\ Len(r.peek) = (IF Len(r.reported) = 0 THEN 0 ELSE 1)
             /\ Len(r.peek) = 1 => (IF r.kind = "vmx" THEN r.peek[1] \in SeqSet(r.reported) ELSE r.peek[1] = r.reported[1])
\* the listing is a function of the configuration: every call on the same object reports it, whatever was called before
RunOK(r) == ListOK(r, r.reported) /\ PeekOK(r) /\ ListOK(r, r.again)
TInit == cfg = 1 /\ expect = 0
TStep == /\ cfg \in 1..Len(Runs)
         /\ IF RunOK(Runs[cfg]) THEN PrintT(<<"ACCEPT", Runs[cfg].tid>>) ELSE PrintT(<<"REJECT", Runs[cfg].tid, 1, Runs[cfg].kind>>)
         /\ cfg' = cfg + 1 /\ UNCHANGED expect
TraceSpec == TInit /\ [][TStep]_vars

\* sanity of the specification itself: CD-ROMs / floppies / controllers are never reported
NoNonDisk == /\ cfg.kind = "vmx" => \A d \in cfg.body : d.type \in OtherTypes => d.slot \notin expect
             /\ cfg.kind = "pvs" => \A k \in 1..Len(expect) : cfg.body[expect[k]].kind = "Hdd"
=============================================================================
