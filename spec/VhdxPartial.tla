---------------------------- MODULE VhdxPartial ----------------------------
(* Partially-present VHDX blocks: which sectors of a read come from this file *)
(* (bit = 1 in the chunk's sector bitmap) and which from the parent (bit = 0). *)
(* Transcription of the bitmap fetch in VHDX.read_sectors and of               *)
(* _iter_partial_runs (vhdx.py), one recursion step per loop iteration, in two *)
(* versions: as repaired ("New") and as found at the pinned commit ("Old").    *)
(* Specification: the run types, expanded, are exactly bits s .. s+c-1.        *)
EXTENDS Integers, Sequences, TLC

CONSTANTS NBITS          \* bits in the modelled bitmap (a multiple of 8)
VARIABLES bm, req, out
vars == <<bm, req, out>>

NBYTES == NBITS \div 8
Bit(b, i) == IF i < NBITS THEN b[i] ELSE 0            \* reading past the fetched bytes yields nothing: modelled as 0
ByteAll(b, k, v) == \A i \in 0..7 : Bit(b, 8 * k + i) = v
Min(a, c) == IF a < c THEN a ELSE c
Expand(runs) == LET RECURSIVE E(_) E(k) == IF k > Len(runs) THEN <<>> ELSE [j \in 1..runs[k][2] |-> runs[k][1]] \o E(k + 1) IN E(1)

\* st = [ct (current_type), cc (current_count), len (remaining length), si (start_idx), runs]
\* bit loop inside one byte k, positions from i up to hi-1
RECURSIVE BitLoop(_, _, _, _, _)
BitLoop(b, k, i, hi, st) ==
  IF i >= hi THEN st
  ELSE LET t == Bit(b, 8 * k + i)
           st2 == IF t = st.ct THEN [st EXCEPT !.cc = @ + 1, !.len = @ - 1]
                  ELSE [st EXCEPT !.runs = Append(@, <<st.ct, st.cc>>), !.ct = t, !.cc = 1, !.len = @ - 1]
       IN BitLoop(b, k, i + 1, hi, st2)

\* repaired loop: bytes first .. first+nb-1 of the bitmap
RECURSIVE ByteLoopNew(_, _, _, _)
ByteLoopNew(b, k, last, st) ==
  IF k > last \/ st.len <= 0 THEN st
  ELSE LET st2 == IF (st.ct = 0 /\ ByteAll(b, k, 0)) \/ (st.ct = 1 /\ ByteAll(b, k, 1))
                  THEN LET mc == Min(st.len, 8 - st.si) IN [st EXCEPT !.cc = @ + mc, !.len = @ - mc]
                  ELSE BitLoop(b, k, st.si, Min(st.si + st.len, 8), st)
       IN ByteLoopNew(b, k + 1, last, [st2 EXCEPT !.si = 0])

RunsNew(b, s, c) ==
  LET first == s \div 8
      bi    == s % 8
      nb    == (bi + c + 7) \div 8                       \* bytes fetched: covers the starting bit offset
      st0   == [ct |-> Bit(b, 8 * first + bi), cc |-> 0, len |-> c, si |-> bi, runs |-> <<>>]
      st    == ByteLoopNew(b, first, first + nb - 1, st0)
  IN IF st.cc > 0 THEN Append(st.runs, <<st.ct, st.cc>>) ELSE st.runs

\* as found: (c+7)//8 bytes regardless of the starting bit; the bit loop runs to min(length, 8) and a mixed byte
\* does not reset start_idx
RECURSIVE ByteLoopOld(_, _, _, _)
ByteLoopOld(b, k, last, st) ==
  IF k > last THEN st
  ELSE LET st2 == IF (st.ct = 0 /\ ByteAll(b, k, 0)) \/ (st.ct = 1 /\ ByteAll(b, k, 1))
                  THEN LET mc == Min(st.len, 8 - st.si) IN [st EXCEPT !.cc = @ + mc, !.len = @ - mc, !.si = 0]
                  ELSE BitLoop(b, k, st.si, Min(st.len, 8), st)
       IN ByteLoopOld(b, k + 1, last, st2)

RunsOld(b, s, c) ==
  LET first == s \div 8
      bi    == s % 8
      nb    == (c + 7) \div 8
      st0   == [ct |-> Bit(b, 8 * first + bi), cc |-> 0, len |-> c, si |-> bi, runs |-> <<>>]
      st    == ByteLoopOld(b, first, first + nb - 1, st0)
  IN IF st.cc > 0 THEN Append(st.runs, <<st.ct, st.cc>>) ELSE st.runs

Want(b, s, c) == [j \in 1..c |-> b[s + j - 1]]

Init == bm \in [0..NBITS-1 -> {0, 1}] /\ req = <<0, 0>> /\ out = <<>>
Read(s, c) == req' = <<s, c>> /\ out' = RunsNew(bm, s, c) /\ UNCHANGED bm
Next == \E s \in 0..NBITS-1 : \E c \in 1..(NBITS - s) : Read(s, c)
NoNext == FALSE /\ UNCHANGED vars
Spec == Init /\ [][Next]_vars

RunsExact    == req[2] > 0 => Expand(out) = Want(bm, req[1], req[2])
RunsMaximal  == \A k \in 1..Len(out)-1 : out[k][1] # out[k + 1][1]        \* adjacent runs differ in type
OldRunsExact == \A s \in 0..NBITS-1 : \A c \in 1..(NBITS - s) : Expand(RunsOld(bm, s, c)) = Want(bm, s, c)
=============================================================================
