------------------------------- MODULE Extents -------------------------------
(* Disks assembled from several backing files (C10): VMDK descriptors naming   *)
(* FLAT / VMFS / SPARSE / VMFSSPARSE / SESPARSE extents, explicit lists of VMDK *)
(* handles, Parallels storages.  The disk is the concatenation of the extents  *)
(* in declared order, each occupying exactly its sector range; its size is the *)
(* sum; no data-bearing extent is dropped; reads may cross extent boundaries   *)
(* and end at the end of the last extent.                                      *)
(* An extent is [type, n (cells), zero (set of cells that read as zeros),      *)
(* name (file-name class)]; token Data(i-1, c): cell c of extent i's own       *)
(* guest content.                                                              *)
EXTENDS Common, TLC

CONSTANTS MaxExt, MaxCells, Types, Names
VARIABLES exts, view, last
vars == <<exts, view, last>>

SparseTypes == {"SPARSE", "VMFSSPARSE", "SESPARSE", "HDS"}
ExtentSet == {[type |-> t, n |-> n, zero |-> z, name |-> nm] :
                 t \in Types, n \in 1..MaxCells, z \in {{}, {0}}, nm \in Names}
\* flat extents have no holes
WFE(e) == (e.type \notin SparseTypes => e.zero = {}) /\ (\A c \in e.zero : c < e.n)

RECURSIVE Total(_, _)
Total(es, k) == IF k = 0 THEN 0 ELSE es[k].n + Total(es, k - 1)
Start(es, i) == Total(es, i - 1)
\* the extent holding guest cell c
ExtOf(es, c) == CHOOSE i \in 1..Len(es) : Start(es, i) <= c /\ c < Start(es, i) + es[i].n

CellSrc(es, c) == LET i == ExtOf(es, c)  o == c - Start(es, i)
                  IN IF o \in es[i].zero THEN Zero ELSE Data(i - 1, o)
GuestView(es) == [c \in 0..Total(es, Len(es))-1 |-> CellSrc(es, c)]

\* ---- transcription of VMDK.__init__ bookkeeping and VMDK.read_sectors (bisect + walk) ----
\* _disk_offsets = start sectors of every disk but the first; bisect_right gives the disk index
Bisect(es, sector) == Cardinality({i \in 2..Len(es) : Start(es, i) <= sector})  \* 0-based index of the disk
RECURSIVE Walk(_, _, _, _)
Walk(es, idx, sector, count) ==
  IF count <= 0 THEN <<>>
  ELSE LET d    == idx + 1
           rem  == es[d].n - (sector - Start(es, d))
           take == Min(rem, count)
           part == [j \in 1..take |-> LET o == sector - Start(es, d) + j - 1
                                      IN IF o \in es[d].zero THEN Zero ELSE Data(d - 1, o)]
       IN part \o Walk(es, idx + 1, sector + take, count - take)
ImplRead(es, o, n) == Walk(es, Bisect(es, o), o, n)

Init == /\ exts \in UNION {{s \in [1..k -> ExtentSet] : \A i \in 1..k : WFE(s[i])} : k \in 1..MaxExt}
        /\ view = GuestView(exts)
        /\ last = [op |-> "open", o |-> 0, n |-> 0, res |-> <<>>]
Read(o, n) == /\ last' = [op |-> "read", o |-> o, n |-> n, res |-> ImplRead(exts, o, n)]
              /\ UNCHANGED <<exts, view>>
Next == \E o \in 0..Total(exts, Len(exts))-1 : \E n \in 1..(Total(exts, Len(exts)) - o) : Read(o, n)
NoNext == FALSE /\ UNCHANGED vars
Spec == Init /\ [][Next]_vars

Concatenation == last.op = "read" => last.res = Slice(view, last.o, last.n)
SizeIsSum     == DOMAIN view = 0..Total(exts, Len(exts))-1
\* every extent contributes its cells (none dropped): the number of cells sourced from extent i is its size
NoneDropped   == \A i \in 1..Len(exts) :
                   Cardinality({c \in DOMAIN view : ExtOf(exts, c) = i}) = exts[i].n
=============================================================================
