-------------------------------- MODULE IoCost --------------------------------
(* Lazy access (C13): opening an image and reading a range costs file I/O      *)
(* bounded by the size of the mapping metadata plus a small multiple of the    *)
(* requested length, independent of the amount of allocated data.              *)
(* Design model: a reader with a table cache; IoHeader once, IoTable(t) only   *)
(* for tables covering the request and at most once while cached, IoData for   *)
(* the requested cells plus buffer slack.  Units are KiB.                      *)
(* Trace judge: the recorded reads of the backing file (in order) must keep    *)
(* the running cost under  Meta + K * (Req + 2 * Align * Reads) + C0.          *)
EXTENDS Integers, Sequences, FiniteSets, TLC, Json, IOUtils

CONSTANTS NT, TableKb, HeaderKb, MaxReq, AlignKb
K == 4
VARIABLES phase, cached, cost, need, dataLeft, log
vars == <<phase, cached, cost, need, dataLeft, log>>

MetaKb == HeaderKb + NT * TableKb
Bound(reqKb, reads) == MetaKb + K * (reqKb + 2 * AlignKb * reads) + HeaderKb

Init == /\ phase = "closed" /\ cached = {} /\ cost = 0 /\ log = [req |-> 0, reads |-> 0]
        /\ need = {} /\ dataLeft = 0
IoHeader == /\ phase = "closed" /\ phase' = "open" /\ cost' = cost + HeaderKb
            /\ UNCHANGED <<cached, need, dataLeft, log>>
StartRead == /\ phase = "open" /\ dataLeft = 0 /\ need = {}
             /\ \E r \in 1..MaxReq : \E ts \in (SUBSET (1..NT)) \ {{}} :
                  /\ Cardinality(ts) <= r                       \* a request of r units touches at most r tables
                  /\ need' = ts /\ dataLeft' = r + 2 * AlignKb
                  /\ log' = [req |-> log.req + r, reads |-> log.reads + 1]
             /\ UNCHANGED <<phase, cached, cost>>
IoTable == /\ \E t \in need : /\ need' = need \ {t}
                             /\ IF t \in cached THEN cost' = cost /\ cached' = cached
                                ELSE cost' = cost + TableKb /\ cached' = cached \cup {t}
           /\ UNCHANGED <<phase, dataLeft, log>>
IoData == /\ need = {} /\ dataLeft > 0
          /\ \E n \in 1..dataLeft : cost' = cost + n /\ dataLeft' = 0
          /\ UNCHANGED <<phase, cached, need, log>>
Next == IoHeader \/ StartRead \/ IoTable \/ IoData
Spec == Init /\ [][Next]_vars

CostBound == cost <= Bound(log.req, log.reads)
Small == log.reads <= 3

\* ---- trace judge ----
Runs == ndJsonDeserialize(IOEnv.TRACE_FILE)
RECURSIVE Prefix(_, _)
Prefix(ev, k) == IF k = 0 THEN 0 ELSE ev[k] + Prefix(ev, k - 1)
RunBound(r) == r.meta_kb + K * (r.req_kb + 2 * r.align_kb * r.reads) + r.c0_kb
RunOK(r) == /\ Prefix(r.events, Len(r.events)) <= RunBound(r)
            /\ r.dense_kb <= r.sparse_kb + K * 2 * r.align_kb * r.reads       \* cost does not grow with allocated data
Why(r) == IF Prefix(r.events, Len(r.events)) > RunBound(r) THEN "cost-bound" ELSE "grows-with-allocation"
TInit == phase = "trace" /\ cached = {} /\ cost = 1 /\ need = {} /\ dataLeft = 0 /\ log = 0
TStep == /\ phase = "trace" /\ cost <= Len(Runs)
         /\ IF RunOK(Runs[cost]) THEN PrintT(<<"ACCEPT", Runs[cost].tid>>) ELSE PrintT(<<"REJECT", Runs[cost].tid, 1, Why(Runs[cost])>>)
         /\ cost' = cost + 1 /\ UNCHANGED <<phase, cached, need, dataLeft, log>>
TraceSpec == TInit /\ [][TStep]_vars
=============================================================================
