-------------------------------- MODULE Hds --------------------------------
(* Parallels expanding image (HDS; qemu docs/interop/parallels.txt, ploop).   *)
(* Header, then a BAT of 32-bit entries, one per cluster:                      *)
(*   0 = cluster not allocated (parent image, or zeros without one);           *)
(*   e > 0: version 2 ("WithouFreSpacExt"): cluster stored at e * cluster size *)
(*          version 1 ("WithoutFreeSpace"): cluster stored at sector e.        *)
(* Host cells are counted from the start of the file: Data(0, h) is file cell *)
(* h, so for v2 h = e * cb + o and for v1 (entries in cells here) h = e + o.   *)
(* Plain images: guest byte x is file byte x.                                  *)
EXTENDS Common, TLC

CONSTANTS N, CB, P, MaxTail
VARIABLES img, view, last
vars == <<img, view, last>>

\* v2 entries: cluster positions 1..P;  v1 entries: cell positions CB..(P+1)*CB - 1 (any alignment)
Ents(ver) == IF ver = 2 THEN 1..P ELSE CB..((P + 1) * CB - 1)
Bats(ver) == [0..N-1 -> {0} \cup Ents(ver)]
\* allocated clusters do not overlap in the file
WF(ver, b) == \A x, y \in DOMAIN b : (x # y /\ b[x] # 0 /\ b[y] # 0) =>
                 IF ver = 2 THEN b[x] # b[y] ELSE (b[x] - b[y] >= CB \/ b[y] - b[x] >= CB)

Images ==
  {[kind |-> "hds", ver |-> v, n |-> N, cb |-> CB, bat |-> b, size |-> s, parent |-> p] :
      v \in {1, 2}, b \in UNION {{bb \in Bats(vv) : WF(vv, bb)} : vv \in {1, 2}}, s \in (N*CB - MaxTail)..(N*CB), p \in BOOLEAN}

HostCell(i, e, o) == IF i.ver = 2 THEN e * i.cb + o ELSE e + o

CellSrc(i, cell) ==
  IF i.kind = "plain" THEN Data(0, cell)
  ELSE LET b == cell \div i.cb
           o == cell % i.cb
           e == i.bat[b]
       IN IF e = 0 THEN (IF i.parent THEN Back(cell) ELSE Zero) ELSE Data(0, HostCell(i, e, o))

GuestView(i) == [cell \in 0..i.size-1 |-> CellSrc(i, cell)]

\* ---- transcription of HDS._iter_runs + HDS._read (hdd.py) ----
\* A run is [off, size] with off = -1 for a sparse run (the code's None).  One recursion step per loop iteration.
Sparse == -1
RECURSIVE IterRuns(_, _, _, _, _, _)
IterRuns(i, off, len, roff, rsize, acc) ==
  IF ~(off < i.size /\ len > 0) THEN (IF rsize > 0 THEN Append(acc, <<roff, rsize>>) ELSE acc)
  ELSE LET ci == off \div i.cb
           oc == off % i.cb
           rs == Min(i.cb - oc, len)
           e  == i.bat[ci]
           ro == IF e = 0 THEN Sparse ELSE HostCell(i, e, oc)
       IN IF rsize = 0 THEN IterRuns(i, off + rs, len - rs, ro, rs, acc)
          ELSE IF (ro = Sparse /\ roff = Sparse) \/ (ro # Sparse /\ roff # Sparse /\ ro = roff + rsize)
               THEN IterRuns(i, off + rs, len - rs, roff, rsize + rs, acc)
          ELSE IterRuns(i, off + rs, len - rs, ro, rs, Append(acc, <<roff, rsize>>))

\* the loop as found at the pinned commit: 0 doubles as the sparse sentinel, so a sparse run of L cells followed
\* by a cluster stored at file cell L is merged into the sparse run (cfg/Hds_old.cfg shows TLC finding it)
RECURSIVE IterRunsOld(_, _, _, _, _, _, _)
IterRunsOld(i, off, len, first, roff, rsize, acc) ==
  IF ~(off < i.size /\ len > 0) THEN (IF ~first THEN Append(acc, <<IF roff = 0 THEN Sparse ELSE roff, rsize>>) ELSE acc)
  ELSE LET ci == off \div i.cb
           oc == off % i.cb
           rs == Min(i.cb - oc, len)
           e  == i.bat[ci]
           ro == IF e = 0 THEN 0 ELSE HostCell(i, e, oc)
       IN IF first THEN IterRunsOld(i, off + rs, len - rs, FALSE, ro, rs, acc)
          ELSE IF (ro = roff + rsize) \/ (roff = 0 /\ ro = 0)
               THEN IterRunsOld(i, off + rs, len - rs, FALSE, roff, rsize + rs, acc)
          ELSE IterRunsOld(i, off + rs, len - rs, FALSE, ro, rs, Append(acc, <<IF roff = 0 THEN Sparse ELSE roff, rsize>>))

RECURSIVE ExecRuns(_, _, _, _)
ExecRuns(i, runs, k, off) ==
  IF k > Len(runs) THEN <<>>
  ELSE LET r == runs[k]
           part == IF r[1] = Sparse
                   THEN [j \in 1..r[2] |-> IF i.parent THEN Back(off + j - 1) ELSE Zero]
                   ELSE [j \in 1..r[2] |-> Data(0, r[1] + j - 1)]
       IN part \o ExecRuns(i, runs, k + 1, off + r[2])

ImplRead(i, o, n)    == ExecRuns(i, IterRuns(i, o, n, Sparse, 0, <<>>), 1, o)
ImplReadOld(i, o, n) == ExecRuns(i, IterRunsOld(i, o, n, TRUE, 0, 0, <<>>), 1, o)

Init == /\ img \in {i \in Images : WF(i.ver, i.bat) /\ \A b \in DOMAIN i.bat : i.bat[b] \in {0} \cup Ents(i.ver)}
        /\ view = GuestView(img)
        /\ last = [op |-> "open", o |-> 0, n |-> 0, res |-> <<>>]
Read(o, n) == /\ last' = [op |-> "read", o |-> o, n |-> n, res |-> ImplRead(img, o, n)]
              /\ UNCHANGED <<img, view>>
Next == \E o \in 0..img.size-1 : \E n \in 1..(img.size - o) : Read(o, n)
NoNext == FALSE /\ UNCHANGED vars
Spec == Init /\ [][Next]_vars

ReadCorrect == last.op = "read" => last.res = Slice(view, last.o, last.n)
ViewTotal   == DOMAIN view = 0..img.size-1
OldReadCorrect == \A o \in 0..img.size-1 : \A n \in 1..(img.size - o) : ImplReadOld(img, o, n) = Slice(view, o, n)
=============================================================================
