------------------------------ MODULE VmxCrypto ------------------------------
(* Encrypted VMX (C15) with symbolic cryptography.  The key safe is a list of  *)
(* pairs; a pair wraps the data key under a key derived from a passphrase      *)
(* (PBKDF2) and carries IV || AES-CBC(PKCS#7(plain)) || HMAC(plain)[:n].        *)
(* encryption.data holds the configuration under the data key in the same blob *)
(* form.  pairs[i] = [match (sealed with the passphrase being tried), tamper].  *)
(* Steps follow the implementation: TryLocator(i) in order (a pair that fails  *)
(* to verify falls through to the next), then DecryptData / VerifyDataMac, and *)
(* only then Commit (the visible dictionary gains the decrypted entries).       *)
EXTENDS Integers, Sequences, FiniteSets, TLC

CONSTANTS MaxPairs
PairTampers == {"none", "iv", "ct", "mac"}
DataTampers == {"none", "iv", "ct-first", "ct-last", "mac"}

VARIABLES pairs, dataTamper, i, haveKey, phase, attr
vars == <<pairs, dataTamper, i, haveKey, phase, attr>>

Init == /\ pairs \in UNION {[1..k -> [match : BOOLEAN, tamper : PairTampers]] : k \in 1..MaxPairs}
        /\ dataTamper \in DataTampers
        /\ i = 1 /\ haveKey = FALSE /\ phase = "unsealing" /\ attr = "locked"

\* a pair unlocks iff it was sealed with this passphrase and its blob is intact (MAC over the plaintext + valid padding)
Unlocks(p) == p.match /\ p.tamper = "none"

TryLocator == /\ phase = "unsealing" /\ i <= Len(pairs)
              /\ IF Unlocks(pairs[i]) THEN haveKey' = TRUE /\ phase' = "decrypting" /\ i' = i
                 ELSE haveKey' = FALSE /\ i' = i + 1 /\ phase' = phase
              /\ UNCHANGED <<pairs, dataTamper, attr>>
NoLocator  == /\ phase = "unsealing" /\ i > Len(pairs)
              /\ phase' = "failed" /\ UNCHANGED <<pairs, dataTamper, i, haveKey, attr>>
DecryptVerify == /\ phase = "decrypting"
                 /\ IF dataTamper = "none" THEN phase' = "verified" ELSE phase' = "failed"
                 /\ UNCHANGED <<pairs, dataTamper, i, haveKey, attr>>
Commit == /\ phase = "verified" /\ phase' = "committed" /\ attr' = "unlocked"
          /\ UNCHANGED <<pairs, dataTamper, i, haveKey>>
Next == TryLocator \/ NoLocator \/ DecryptVerify \/ Commit
NoNext == FALSE /\ UNCHANGED vars
Spec == Init /\ [][Next]_vars

Done == phase \in {"committed", "failed"}
SomeGood == \E k \in 1..Len(pairs) : Unlocks(pairs[k])
RoundTrip == (Done /\ SomeGood /\ dataTamper = "none") => (phase = "committed" /\ attr = "unlocked")
FailLeavesAttr == phase = "failed" => attr = "locked"
CommitOnlyIfVerified == attr = "unlocked" => (haveKey /\ dataTamper = "none")
FailsWhenItMust == (Done /\ (~SomeGood \/ dataTamper # "none")) => phase = "failed"
=============================================================================
