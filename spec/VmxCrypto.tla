------------------------------ MODULE VmxCrypto ------------------------------
(* Encrypted VMX (C15) with symbolic cryptography.  The key safe is a list of  *)
(* pairs; a pair wraps the data key under a key derived from a passphrase      *)
(* (PBKDF2) and carries IV || AES-CBC(PKCS#7(plain)) || HMAC(plain)[:n].        *)
(* encryption.data holds the configuration under the data key in the same blob *)
(* form.  pairs[i] = [match (sealed with the passphrase being tried), tamper].  *)
(* Steps follow the implementation: TryLocator(i) in order (a pair that fails  *)
(* to verify falls through to the next), then DecryptData / VerifyDataMac, and *)
(* only then Commit (the visible dictionary gains the decrypted entries, which  *)
(* replace visible entries of the same name).                                  *)
(* Passphrases are opaque identities: a pair matches iff it was sealed with    *)
(* exactly the passphrase being tried (sealed = tried), nothing weaker.        *)
(* The dictionary is a function Keys -> Values: `visible` is what the file     *)
(* shows in clear (possibly stale copies), `plain` the encrypted configuration.*)
EXTENDS Integers, Sequences, FiniteSets, TLC

CONSTANTS MaxPairs, Phrases, Keys
PairTampers == {"none", "iv", "ct", "mac"}
DataTampers == {"none", "iv", "ct-first", "ct-last", "mac"}
Absent == "absent"

VARIABLES pairs, tried, dataTamper, visible, plain, i, haveKey, phase, attr
vars == <<pairs, tried, dataTamper, visible, plain, i, haveKey, phase, attr>>

Init == /\ pairs \in UNION {[1..k -> [sealed : Phrases, tamper : PairTampers]] : k \in 1..MaxPairs}
        /\ tried \in Phrases
        /\ dataTamper \in DataTampers
        /\ visible \in [Keys -> {Absent, "stale"}]
        /\ plain \in [Keys -> {Absent, "real"}]
        /\ i = 1 /\ haveKey = FALSE /\ phase = "unsealing" /\ attr = visible

\* a pair unlocks iff it was sealed with this passphrase and its blob is intact (MAC over the plaintext + valid padding)
Unlocks(p) == p.sealed = tried /\ p.tamper = "none"
Override(f, g) == [k \in Keys |-> IF g[k] # Absent THEN g[k] ELSE f[k]]

TryLocator == /\ phase = "unsealing" /\ i <= Len(pairs)
              /\ IF Unlocks(pairs[i]) THEN haveKey' = TRUE /\ phase' = "decrypting" /\ i' = i
                 ELSE haveKey' = FALSE /\ i' = i + 1 /\ phase' = phase
              /\ UNCHANGED <<pairs, tried, dataTamper, visible, plain, attr>>
NoLocator  == /\ phase = "unsealing" /\ i > Len(pairs)
              /\ phase' = "failed" /\ UNCHANGED <<pairs, tried, dataTamper, visible, plain, i, haveKey, attr>>
DecryptVerify == /\ phase = "decrypting"
                 /\ IF dataTamper = "none" THEN phase' = "verified" ELSE phase' = "failed"
                 /\ UNCHANGED <<pairs, tried, dataTamper, visible, plain, i, haveKey, attr>>
Commit == /\ phase = "verified" /\ phase' = "committed" /\ attr' = Override(attr, plain)
          /\ UNCHANGED <<pairs, tried, dataTamper, visible, plain, i, haveKey>>
Next == TryLocator \/ NoLocator \/ DecryptVerify \/ Commit
NoNext == FALSE /\ UNCHANGED vars
Spec == Init /\ [][Next]_vars

Done == phase \in {"committed", "failed"}
SomeGood == \E k \in 1..Len(pairs) : Unlocks(pairs[k])
RoundTrip == (Done /\ SomeGood /\ dataTamper = "none") => (phase = "committed" /\ attr = Override(visible, plain))
FailLeavesAttr == phase # "committed" => attr = visible
CommitOnlyIfVerified == phase = "committed" => (haveKey /\ dataTamper = "none" /\ SomeGood)
\* every entry of the encrypted configuration is present with its real value; nothing else changes
ExactlyTheOriginal == phase = "committed" => \A k \in Keys : attr[k] = (IF plain[k] # Absent THEN "real" ELSE visible[k])
FailsWhenItMust == (Done /\ (~SomeGood \/ dataTamper # "none")) => phase = "failed"
=============================================================================
