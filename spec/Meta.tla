-------------------------------- MODULE Meta --------------------------------
(* Exposed metadata equals what the file stores (C14).  The structures whose   *)
(* parsing involves offset arithmetic are modelled as byte layouts:            *)
(*  - QCOW2 header extensions: records (type, length, data padded to 8 bytes), *)
(*    terminated by the end marker (type 0) or by the end of the extension     *)
(*    area (backing file name offset, else the first cluster); v2 headers      *)
(*    start the area at byte 72, v3 at header_length;                          *)
(*  - QCOW2 snapshot table: entries of a 40-byte fixed part, extra data of     *)
(*    any size (0, 16, 24, larger), id and name strings, padded to 8 bytes;    *)
(*  - structures stored twice with sequence numbers (VHDX header pair).        *)
(* A layout is derived from the stored records; the parser transcription walks *)
(* the layout; the parsed records must equal the stored ones.                  *)
EXTENDS Integers, Sequences, FiniteSets, TLC, Json, IOUtils

CONSTANTS MaxRec, Lens, Extras, StrLens
VARIABLES kind, stored, exposed
vars == <<kind, stored, exposed>>

Pad8(n) == ((n + 7) \div 8) * 8

\* ---------------- header extensions ----------------
\* stored = sequence of data lengths (each record: 8-byte header + data padded to 8)
RECURSIVE ExtOffset(_, _, _)
ExtOffset(recs, k, start) == IF k = 1 THEN start ELSE ExtOffset(recs, k - 1, start) + 8 + Pad8(recs[k - 1])
ExtEnd(recs, start) == ExtOffset(recs, Len(recs) + 1, start)      \* where the end marker sits
\* parser: offset := start; loop: read header at offset; offset += 8; stop at end marker; read len bytes; offset += pad8(len)
RECURSIVE ExtWalk(_, _, _, _)
ExtWalk(recs, start, off, acc) ==
  IF off = ExtEnd(recs, start) THEN acc                             \* end marker found here
  ELSE LET k == CHOOSE j \in 1..Len(recs) : ExtOffset(recs, j, start) = off
       IN ExtWalk(recs, start, off + 8 + Pad8(recs[k]), Append(acc, recs[k]))
ExtAligned(recs, start) == \A j \in 1..Len(recs) + 1 : \E q \in 0..200 : ExtOffset(recs, j, start) = start + 8 * q

\* ---------------- snapshot table ----------------
\* stored = sequence of [extra, idlen, namelen]
SnapSize(e) == Pad8(40 + e.extra + e.idlen + e.namelen)
RECURSIVE SnapOffset(_, _)
SnapOffset(recs, k) == IF k = 1 THEN 0 ELSE SnapOffset(recs, k - 1) + SnapSize(recs[k - 1])
\* parser: for each of nb_snapshots entries: parse at offset, offset += entry_size (padded)
RECURSIVE SnapWalk(_, _, _, _)
SnapWalk(recs, k, off, acc) ==
  IF k > Len(recs) THEN acc
  ELSE IF off # SnapOffset(recs, k) THEN Append(acc, [extra |-> -1, idlen |-> -1, namelen |-> -1])   \* misaligned: garbage
  ELSE SnapWalk(recs, k + 1, off + SnapSize(recs[k]), Append(acc, recs[k]))

\* ---------------- stored twice with sequence numbers ----------------
\* stored = <<seq1, seq2>>; exposed = index of the copy used
Active(s) == IF s[1] > s[2] THEN 1 ELSE 2
HighestWins(s, a) == s[a] >= s[1] /\ s[a] >= s[2]

Init == \/ /\ kind = "ext"
           /\ stored \in UNION {[1..k -> Lens] : k \in 0..MaxRec}
           /\ exposed = ExtWalk(stored, 72, 72, <<>>)
        \/ /\ kind = "snap"
           /\ stored \in UNION {[1..k -> [extra : Extras, idlen : StrLens, namelen : StrLens]] : k \in 0..MaxRec}
           /\ exposed = SnapWalk(stored, 1, 0, <<>>)
        \/ /\ kind = "seq"
           /\ stored \in {<<0, 1>>, <<1, 0>>, <<5, 5>>, <<7, 2>>, <<2, 7>>, <<0, 0>>}
           /\ exposed = Active(stored)
NoNext == FALSE /\ UNCHANGED vars

\* ---- trace validation: recorded facts <<field, stored, exposed>> (values rendered as text: sizes exceed 32 bits) ----
Facts == ndJsonDeserialize(IOEnv.TRACE_FILE)
FirstDiff(t) == IF \E i \in 1..Len(t.facts) : t.facts[i][2] # t.facts[i][3]
                THEN t.facts[CHOOSE i \in 1..Len(t.facts) : t.facts[i][2] # t.facts[i][3] /\ \A j \in 1..i-1 : t.facts[j][2] = t.facts[j][3]][1]
                ELSE "none"
TInit == kind = "trace" /\ stored = 1 /\ exposed = 0
TStep == /\ kind = "trace" /\ stored <= Len(Facts)
         /\ IF FirstDiff(Facts[stored]) = "none" THEN PrintT(<<"ACCEPT", Facts[stored].tid>>)
            ELSE PrintT(<<"REJECT", Facts[stored].tid, 1, FirstDiff(Facts[stored])>>)
         /\ stored' = stored + 1 /\ UNCHANGED <<kind, exposed>>
TraceSpec == TInit /\ [][TStep]_vars

ExposedEqualsStored == kind \in {"ext", "snap"} => exposed = stored
HighestSeqWins      == kind = "seq" => HighestWins(stored, exposed)
=============================================================================
