#!/bin/sh
# Offline setup: parse every TLA+ module with SANY, byte-compile nothing (sources are imported directly).
set -e
cd "$(dirname "$0")"
for f in spec/*.tla; do
  m=$(basename "$f" .tla)
  out=$(cd spec && java -cp /opt/veriftools/tla/tla2tools.jar:/opt/veriftools/tla/CommunityModules-deps.jar tla2sany.SANY "$m.tla" 2>&1) || { echo "$out" | tail -20; echo "SANY failed: $m"; exit 1; }
  if echo "$out" | grep -q -e "Semantic errors" -e "Parse Error" -e "\*\*\* Errors"; then echo "$out" | tail -20; echo "SANY errors: $m"; exit 1; fi
done
/venv/bin/python -c "import sys; sys.path.insert(0,'.'); import harness.core, harness.tlc, harness.tlaparse, harness.vfile, harness.patterns, harness.record" 
mkdir -p evidence replays
echo "setup ok"
